import DaskModel.Model.BlockScan
import Mathlib.Tactic.Ring
/-! `schedOk_all`: dask's Blelloch schedule (`prefixscan_blelloch`'s up-sweep and down-sweep `while` loops, with the
`max(2, 2**ceil(log2(n_vals // 2)))` start of the down-sweep) is accepted by the interval checker for **every**
`n_vals`.  State after `L` up-sweep levels: slot `i` holds the segment starting at `U L i = i + 1 - gp L (i + 1)`
(`gp L m` = largest `2^a`, `a ≤ L`, dividing `m`); state before the down-sweep phase with stride `2^j`: `C T (j+1)`
(slots whose index+1 is a multiple of `2^(j+1)` are complete).  `level_run` handles one level of either sweep. -/
namespace Dask.BlockScan

theorem segRun_append (xs ys : List Step) (lo : List Nat) :
    segRun (xs ++ ys) lo = (segRun xs lo).bind (segRun ys) := by
  induction xs generalizing lo with
  | nil => rfl
  | cons x xs ih =>
    simp only [List.cons_append, segRun]
    cases segStep lo x with
    | none => rfl
    | some lo' => simp [ih]

/-- one level: all targets `ts` are updated from their (untouched) sources `t - s` -/
theorem level_run (n s lvl : Nat) (hs : 0 < s) : ∀ (ts : List Nat) (g : Nat → Nat), ts.Nodup →
    (∀ t ∈ ts, s ≤ t ∧ t < n ∧ g t = t - s + 1 ∧ (t - s) ∉ ts) →
    segRun (ts.map fun t => ⟨lvl, t, s⟩) ((List.range n).map g)
      = some ((List.range n).map fun j => if j ∈ ts then g (j - s) else g j) := by
  intro ts
  induction ts with
  | nil => intro g _ _; simp [segRun]
  | cons t ts ih =>
    intro g hnd h
    obtain ⟨hst, htn, hgt, hsrc⟩ := h t (by simp)
    have hnd' := (List.nodup_cons.mp hnd)
    simp only [List.map_cons, segRun]
    have hstep : segStep ((List.range n).map g) ⟨lvl, t, s⟩
        = some ((List.range n).map fun j => if j = t then g (t - s) else g j) := by
      unfold segStep
      simp only [hst, hs, and_self, if_true]
      have h1 : ((List.range n).map g)[t - s]? = some (g (t - s)) := by
        simp [List.getElem?_map, List.getElem?_range (show t - s < n by omega)]
      have h2 : ((List.range n).map g)[t]? = some (g t) := by
        simp [List.getElem?_map, List.getElem?_range htn]
      rw [h1, h2]
      simp only [hgt, if_true]
      congr 1
      apply List.ext_getElem
      · simp
      · intro i h1 h2
        simp only [List.length_set, List.length_map, List.length_range] at h1
        by_cases hi : i = t
        · subst hi; simp
        · rw [List.getElem_set_ne (by omega)]; simp [hi]
    rw [hstep]
    simp only [Option.bind_some]
    rw [ih (fun j => if j = t then g (t - s) else g j) hnd'.2 (by
      intro t' ht'
      obtain ⟨a, b, c, d⟩ := h t' (by simp [ht'])
      have hne : t' ≠ t := fun e => hnd'.1 (e ▸ ht')
      refine ⟨a, b, by simp [hne, c], ?_⟩
      intro hm; exact d (by simp [hm]))]
    congr 1
    apply List.map_congr_left
    intro j _
    by_cases hj : j = t
    · subst hj
      have : j ∉ ts := hnd'.1
      simp [this]
    · by_cases hjm : j ∈ ts
      · have hd := (h j (by simp [hjm])).2.2.2
        have : j - s ≠ t := fun e => hd (by simp [e])
        simp [hj, hjm, this]
      · simp [hj, hjm]

/-! ### `rangeStep` -/

theorem mem_rangeStep (step : Nat) (hstep : 0 < step) : ∀ (fuel a stop j : Nat), stop ≤ a + fuel →
    (j ∈ rangeStep a stop step fuel ↔ a ≤ j ∧ j < stop ∧ (j - a) % step = 0) := by
  intro fuel
  induction fuel with
  | zero =>
    intro a stop j h
    simp only [rangeStep, List.not_mem_nil, false_iff]
    omega
  | succ fuel ih =>
    intro a stop j h
    simp only [rangeStep]
    split
    · rename_i hlt
      simp only [List.mem_cons]
      rw [ih (a + step) stop j (by omega)]
      constructor
      · rintro (rfl | ⟨h1, h2, h3⟩)
        · exact ⟨Nat.le_refl _, hlt, by simp⟩
        · refine ⟨by omega, h2, ?_⟩
          have : j - a = (j - (a + step)) + step := by omega
          rw [this, Nat.add_mod_right]; exact h3
      · rintro ⟨h1, h2, h3⟩
        by_cases hja : j = a
        · exact Or.inl hja
        · right
          have hge : a + step ≤ j := by
            by_contra hc
            have hlt2 : j - a < step := by omega
            rw [Nat.mod_eq_of_lt hlt2] at h3
            omega
          refine ⟨hge, h2, ?_⟩
          have : j - a = (j - (a + step)) + step := by omega
          rw [this, Nat.add_mod_right] at h3; exact h3
    · simp only [List.not_mem_nil, false_iff]
      omega

theorem rangeStep_lt (step : Nat) (hstep : 0 < step) : ∀ (fuel a stop : Nat),
    ∀ j ∈ rangeStep a stop step fuel, a ≤ j := by
  intro fuel
  induction fuel with
  | zero => intro a stop j h; simp [rangeStep] at h
  | succ fuel ih =>
    intro a stop j h
    simp only [rangeStep] at h
    split at h
    · rcases List.mem_cons.mp h with rfl | h'
      · exact Nat.le_refl _
      · have := ih (a + step) stop j h'; omega
    · simp at h

theorem nodup_rangeStep (step : Nat) (hstep : 0 < step) : ∀ (fuel a stop : Nat),
    (rangeStep a stop step fuel).Nodup := by
  intro fuel
  induction fuel with
  | zero => intro a stop; simp [rangeStep]
  | succ fuel ih =>
    intro a stop
    simp only [rangeStep]
    split
    · refine List.nodup_cons.mpr ⟨?_, ih (a + step) stop⟩
      intro hm
      have := rangeStep_lt step hstep fuel (a + step) stop a hm
      omega
    · exact List.nodup_nil

/-! ### powers of two -/

/-- the largest `2 ^ a` with `a ≤ L` dividing `m` -/
def gp : Nat → Nat → Nat
  | 0, _ => 1
  | L + 1, m => if m % 2 ^ (L + 1) = 0 then 2 ^ (L + 1) else gp L m

/-- slot `i` after `L` up-sweep levels holds the segment starting at `U L i` -/
def U (L i : Nat) : Nat := i + 1 - gp L (i + 1)

theorem two_pow_pos (a : Nat) : 0 < 2 ^ a := Nat.pos_of_ne_zero (by simp)

theorem gp_of_dvd (L m : Nat) (h : m % 2 ^ L = 0) : gp L m = 2 ^ L := by
  cases L with
  | zero => rfl
  | succ L => simp [gp, h]

theorem mod_of_mod_pow {m a b : Nat} (hab : a ≤ b) (h : m % 2 ^ b = 0) : m % 2 ^ a = 0 := by
  have hd : 2 ^ a ∣ 2 ^ b := Nat.pow_dvd_pow 2 hab
  rw [← Nat.mod_mod_of_dvd m hd, h]; simp

theorem gp_exact (j m : Nat) (h0 : m % 2 ^ j = 0) (h1 : m % 2 ^ (j + 1) ≠ 0) :
    ∀ L, j ≤ L → gp L m = 2 ^ j := by
  intro L hL
  induction L with
  | zero => have : j = 0 := by omega
            subst this; rfl
  | succ L ih =>
    by_cases hj : j = L + 1
    · subst hj; exact gp_of_dvd _ _ h0
    · have hjl : j ≤ L := by omega
      have : m % 2 ^ (L + 1) ≠ 0 := fun hc => h1 (mod_of_mod_pow (by omega) hc)
      simp only [gp, this, if_false]
      exact ih hjl

theorem gp_pow (a L : Nat) (h : a ≤ L) : gp L (2 ^ a) = 2 ^ a := by
  apply gp_exact a (2 ^ a) (Nat.mod_self _) _ L h
  rw [Nat.mod_eq_of_lt (Nat.pow_lt_pow_right (by decide) (Nat.lt_succ_self a))]
  exact Nat.ne_of_gt (two_pow_pos a)

theorem gp_le (L m : Nat) (hm : 0 < m) : gp L m ≤ m := by
  induction L with
  | zero => exact hm
  | succ L ih =>
    simp only [gp]
    split
    · rename_i h
      exact Nat.le_of_dvd hm (Nat.dvd_of_mod_eq_zero h)
    · exact ih

/-! ### the up-sweep -/

theorem up_target_iff (p n j : Nat) (hp : 0 < p) (hj : j < n) :
    j ∈ rangeStep (2 * p - 1) n (2 * p) n ↔ (j + 1) % (2 * p) = 0 := by
  rw [mem_rangeStep (2 * p) (by omega) n (2 * p - 1) n j (by omega)]
  constructor
  · rintro ⟨h1, _, h3⟩
    have : j + 1 = (j - (2 * p - 1)) + 2 * p := by omega
    rw [this, Nat.add_mod_right]; exact h3
  · intro h
    have hge : 2 * p ≤ j + 1 := Nat.le_of_dvd (by omega) (Nat.dvd_of_mod_eq_zero h)
    refine ⟨by omega, hj, ?_⟩
    have : j + 1 = (j - (2 * p - 1)) + 2 * p := by omega
    rw [this, Nat.add_mod_right] at h; exact h

theorem mod_half {m p : Nat} (h : m % (2 * p) = 0) : m % p = 0 := by
  have := Nat.mod_mul_right_mod m p 2
  rw [Nat.mul_comm p 2, h] at this
  simpa using this.symm

/-- one up-sweep level with stride `2 ^ L` turns the state `U L` into `U (L + 1)` -/
theorem up_level (n L lvl : Nat) :
    segRun ((rangeStep (2 * 2 ^ L - 1) n (2 * 2 ^ L) n).map fun t => ⟨lvl, t, 2 ^ L⟩) ((List.range n).map (U L))
      = some ((List.range n).map (U (L + 1))) := by
  have hp := two_pow_pos L
  set p := 2 ^ L with hpd
  rw [level_run n p lvl hp _ (U L) (nodup_rangeStep (2 * p) (by omega) n _ n)]
  · congr 1
    apply List.map_congr_left
    intro j hj
    have hjn : j < n := List.mem_range.mp hj
    have h2p : 2 ^ (L + 1) = 2 * p := by rw [Nat.pow_succ]; omega
    by_cases ht : j ∈ rangeStep (2 * p - 1) n (2 * p) n
    · have hm := (up_target_iff p n j hp hjn).mp ht
      have hge : 2 * p ≤ j + 1 := Nat.le_of_dvd (by omega) (Nat.dvd_of_mod_eq_zero hm)
      have hmp : (j + 1) % p = 0 := mod_half hm
      have hsrc : (j - p + 1) % p = 0 := by
        have : j + 1 = (j - p + 1) + p := by omega
        rw [this, Nat.add_mod_right] at hmp; exact hmp
      simp only [ht, if_true, U]
      rw [gp_of_dvd L _ hsrc, gp_of_dvd (L + 1) _ (by rw [h2p]; exact hm), h2p]
      omega
    · have hm : ¬ (j + 1) % (2 * p) = 0 := fun h => ht ((up_target_iff p n j hp hjn).mpr h)
      simp only [ht, if_false, U, gp, h2p, hm]
  · intro t ht
    have htn : t < n := ((mem_rangeStep (2 * p) (by omega) n (2 * p - 1) n t (by omega)).mp ht).2.1
    have hm := (up_target_iff p n t hp htn).mp ht
    have hge : 2 * p ≤ t + 1 := Nat.le_of_dvd (by omega) (Nat.dvd_of_mod_eq_zero hm)
    refine ⟨by omega, htn, ?_, ?_⟩
    · simp only [U]
      rw [gp_of_dvd L _ (mod_half hm)]
      omega
    · intro hsrc
      have hs := (up_target_iff p n (t - p) hp (by omega)).mp hsrc
      have : t + 1 = (t - p + 1) + p := by omega
      rw [this, Nat.add_mod, hs, Nat.zero_add, Nat.mod_mod, Nat.mod_eq_of_lt (by omega)] at hm
      omega

theorem upsweep_run (n : Nat) : ∀ (fuel L lvl : Nat),
    segRun (upsweep n fuel (2 ^ L) lvl) ((List.range n).map (U L))
      = some ((List.range n).map (U (L + upLevels n fuel (2 ^ L)))) := by
  intro fuel
  induction fuel with
  | zero => intro L lvl; simp [upsweep, upLevels, segRun]
  | succ fuel ih =>
    intro L lvl
    simp only [upsweep, upLevels]
    split
    · rw [segRun_append, up_level n L lvl]
      simp only [Option.bind_some]
      have h2 : 2 * 2 ^ L = 2 ^ (L + 1) := by rw [Nat.pow_succ]; omega
      rw [h2, ih (L + 1) (lvl + 1)]
      congr 3
      omega
    · simp [segRun]

/-- the number of up-sweep levels is `⌊log₂ n⌋` -/
theorem upLevels_spec (n : Nat) : ∀ (fuel L : Nat), 2 ^ L ≤ n → n < 2 ^ L * 2 ^ fuel →
    2 ^ (L + upLevels n fuel (2 ^ L)) ≤ n ∧ n < 2 ^ (L + upLevels n fuel (2 ^ L) + 1) := by
  intro fuel
  induction fuel with
  | zero => intro L h1 h2; simp at h2; omega
  | succ fuel ih =>
    intro L h1 h2
    simp only [upLevels]
    have h2p : 2 * 2 ^ L = 2 ^ (L + 1) := by rw [Nat.pow_succ]; omega
    split
    · rename_i hle
      rw [h2p] at hle ⊢
      have e0 : 2 ^ L * 2 ^ (fuel + 1) = 2 ^ (L + 1) * 2 ^ fuel := by
        rw [Nat.pow_succ, Nat.pow_succ]; ring
      have := ih (L + 1) hle (by rw [← e0]; exact h2)
      have e : L + (1 + upLevels n fuel (2 ^ (L + 1))) = L + 1 + upLevels n fuel (2 ^ (L + 1)) := by omega
      rw [e]; exact this
    · rename_i hnle
      show 2 ^ (L + 0) ≤ n ∧ n < 2 ^ (L + 0 + 1)
      rw [Nat.add_zero]
      exact ⟨h1, by rw [← h2p]; omega⟩

/-! ### the down-sweep -/

theorem mod_two_mul_cases {m p : Nat} (hp : 0 < p) (h : m % p = 0) : m % (2 * p) = 0 ∨ m % (2 * p) = p := by
  have hr : m % (2 * p) % p = 0 := by
    have := Nat.mod_mul_right_mod m p 2
    rw [Nat.mul_comm p 2] at this
    rw [this]; exact h
  have hlt : m % (2 * p) < 2 * p := Nat.mod_lt _ (by omega)
  obtain ⟨c, hc⟩ := Nat.dvd_of_mod_eq_zero hr
  have hc2 : c < 2 := by
    by_contra hcc
    have : p * 2 ≤ p * c := Nat.mul_le_mul_left p (by omega)
    omega
  rcases Nat.lt_or_ge c 1 with h0 | h1
  · left; have : c = 0 := by omega
    rw [hc, this]; simp
  · right; have : c = 1 := by omega
    rw [hc, this]; simp

theorem mod_add_half {y p : Nat} (hp : 0 < p) (h : (y + p) % (2 * p) = p) : y % (2 * p) = 0 := by
  have hy : y % (2 * p) < 2 * p := Nat.mod_lt _ (by omega)
  rw [Nat.add_mod, Nat.mod_eq_of_lt (show p < 2 * p by omega)] at h
  by_cases hc : y % (2 * p) + p < 2 * p
  · rw [Nat.mod_eq_of_lt hc] at h; omega
  · rw [Nat.mod_eq_sub_mod (by omega), Nat.mod_eq_of_lt (by omega)] at h; omega

theorem mod_sub_half {t p : Nat} (hp : 0 < p) (hge : p ≤ t) (h : (t + 1) % (2 * p) = p) :
    (t - p + 1) % (2 * p) = 0 := by
  apply mod_add_half hp
  have : t - p + 1 + p = t + 1 := by omega
  rw [this]; exact h

theorem down_target_iff (p n i : Nat) (hp : 0 < p) (hi : i < n) :
    i ∈ rangeStep (2 * p + p - 1) n (2 * p) n ↔ (i + 1) % (2 * p) = p ∧ 3 * p ≤ i + 1 := by
  rw [mem_rangeStep (2 * p) (by omega) n (2 * p + p - 1) n i (by omega)]
  constructor
  · rintro ⟨h1, _, h3⟩
    refine ⟨?_, by omega⟩
    have : i + 1 = (i - (2 * p + p - 1)) + p + 2 * p := by omega
    rw [this, Nat.add_mod_right, Nat.add_mod, h3, Nat.zero_add, Nat.mod_mod, Nat.mod_eq_of_lt (by omega)]
  · rintro ⟨h1, h2⟩
    refine ⟨by omega, hi, ?_⟩
    apply mod_add_half hp
    have : i - (2 * p + p - 1) + p = (i + 1 - 2 * p) := by omega
    rw [this]
    have : i + 1 = (i + 1 - 2 * p) + 2 * p := by omega
    rw [this, Nat.add_mod_right] at h1
    exact h1

/-- state of the down-sweep before the phase with stride `2 ^ j`: slots whose index+1 is a multiple of `2 ^ j`
    are complete, the others are as the up-sweep left them (`T` up-sweep levels) -/
def C (T j i : Nat) : Nat := if (i + 1) % 2 ^ j = 0 then 0 else U T i

theorem down_level (n T j lvl : Nat) (hj : j ≤ T) :
    segRun ((rangeStep (2 * 2 ^ j + 2 ^ j - 1) n (2 * 2 ^ j) n).map fun t => ⟨lvl, t, 2 ^ j⟩)
        ((List.range n).map (C T (j + 1)))
      = some ((List.range n).map (C T j)) := by
  have hp := two_pow_pos j
  have h2p : 2 ^ (j + 1) = 2 * 2 ^ j := by rw [Nat.pow_succ]; omega
  set p := 2 ^ j with hpd
  rw [level_run n p lvl hp _ (C T (j + 1)) (nodup_rangeStep (2 * p) (by omega) n _ n)]
  · congr 1
    apply List.map_congr_left
    intro i hi
    have hin : i < n := List.mem_range.mp hi
    by_cases ht : i ∈ rangeStep (2 * p + p - 1) n (2 * p) n
    · obtain ⟨hm, hge⟩ := (down_target_iff p n i hp hin).mp ht
      have hsrc := mod_sub_half hp (by omega) hm
      have hmp : (i + 1) % p = 0 := by
        have := Nat.mod_mul_right_mod (i + 1) p 2
        rw [Nat.mul_comm p 2, hm, Nat.mod_self] at this
        exact this.symm
      simp only [ht, if_true, C, h2p, hsrc, ← hpd, hmp]
    · simp only [ht, if_false, C, h2p, ← hpd]
      by_cases hmp : (i + 1) % p = 0
      · rcases mod_two_mul_cases hp hmp with h0 | h1
        · simp [h0, hmp]
        · -- a multiple of p but not of 2p that is not a target: i + 1 = p
          have hlt : i + 1 < 3 * p := by
            by_contra hc
            exact ht ((down_target_iff p n i hp hin).mpr ⟨h1, by omega⟩)
          have hip : i + 1 = p := by
            have hd := Nat.div_add_mod (i + 1) (2 * p)
            rw [h1] at hd
            rcases Nat.eq_zero_or_pos ((i + 1) / (2 * p)) with hq | hq
            · rw [hq] at hd; omega
            · have : 2 * p ≤ 2 * p * ((i + 1) / (2 * p)) := Nat.le_mul_of_pos_right _ hq
              omega
          have hne : ¬ (i + 1) % (2 * p) = 0 := by rw [h1]; omega
          have hU : U T i = 0 := by
            unfold U
            rw [hip, gp_pow j T hj]
            exact Nat.sub_self _
          rw [if_neg hne, if_pos hmp, hU]
      · have hne : ¬ (i + 1) % (2 * p) = 0 := fun h => hmp (mod_half h)
        simp [hne, hmp]
  · intro t ht
    have htn : t < n := ((mem_rangeStep (2 * p) (by omega) n (2 * p + p - 1) n t (by omega)).mp ht).2.1
    obtain ⟨hm, hge⟩ := (down_target_iff p n t hp htn).mp ht
    have hmp : (t + 1) % p = 0 := by
      have := Nat.mod_mul_right_mod (t + 1) p 2
      rw [Nat.mul_comm p 2, hm, Nat.mod_self] at this
      exact this.symm
    refine ⟨by omega, htn, ?_, ?_⟩
    · have hne : ¬ (t + 1) % (2 * p) = 0 := by rw [hm]; omega
      simp only [C, h2p, ← hpd, hne, if_false, U]
      rw [gp_exact j (t + 1) hmp (by rw [h2p]; exact hne) T hj]
      omega
    · intro hsrc
      have hs := ((down_target_iff p n (t - p) hp (by omega)).mp hsrc).1
      have := mod_sub_half hp (by omega) hm
      omega

theorem downsweep_run (n T : Nat) : ∀ (j fuel lvl : Nat), j ≤ T → j + 1 ≤ fuel →
    segRun (downsweep n fuel (2 ^ j) lvl) ((List.range n).map (C T (j + 1)))
      = some ((List.range n).map (C T 0)) := by
  intro j
  induction j with
  | zero =>
    intro fuel lvl _ hf
    obtain ⟨f, rfl⟩ : ∃ f, fuel = f + 1 := ⟨fuel - 1, by omega⟩
    simp only [downsweep, Nat.pow_zero, Nat.lt_irrefl, gt_iff_lt, Nat.zero_lt_one, if_true]
    rw [segRun_append]
    have := down_level n T 0 lvl (Nat.zero_le _)
    simp only [Nat.pow_zero] at this
    rw [this]
    simp only [Option.bind_some]
    cases f <;> simp [downsweep, segRun]
  | succ j ih =>
    intro fuel lvl hj hf
    obtain ⟨f, rfl⟩ : ∃ f, fuel = f + 1 := ⟨fuel - 1, by omega⟩
    simp only [downsweep, gt_iff_lt, two_pow_pos (j + 1), if_true]
    rw [segRun_append, down_level n T (j + 1) lvl hj]
    simp only [Option.bind_some]
    have hhalf : 2 ^ (j + 1) / 2 = 2 ^ j := by rw [Nat.pow_succ]; omega
    rw [hhalf]
    exact ih f (lvl + 1) (by omega) (by omega)

/-! ### the start of the down-sweep and the whole schedule -/

theorem pow2ceilAux_spec (m : Nat) : ∀ (fuel a : Nat), (a = 0 ∨ 2 ^ (a - 1) < m) → m ≤ 2 ^ a * 2 ^ fuel →
    ∃ b, pow2ceilAux m fuel (2 ^ a) = 2 ^ b ∧ m ≤ 2 ^ b ∧ (b = 0 ∨ 2 ^ (b - 1) < m) := by
  intro fuel
  induction fuel with
  | zero => intro a h1 h2; exact ⟨a, rfl, by simpa using h2, h1⟩
  | succ fuel ih =>
    intro a h1 h2
    simp only [pow2ceilAux]
    split
    · rename_i hle; exact ⟨a, rfl, hle, h1⟩
    · rename_i hnle
      have h2p : 2 * 2 ^ a = 2 ^ (a + 1) := by rw [Nat.pow_succ]; omega
      rw [h2p]
      apply ih (a + 1) (Or.inr (by simpa using Nat.lt_of_not_le hnle))
      have : 2 ^ a * 2 ^ (fuel + 1) = 2 ^ (a + 1) * 2 ^ fuel := by
        rw [Nat.pow_succ, Nat.pow_succ]; ring
      rw [← this]; exact h2

theorem pow2ceil_spec (m : Nat) : ∃ b, pow2ceil m = 2 ^ b ∧ m ≤ 2 ^ b ∧ (b = 0 ∨ 2 ^ (b - 1) < m) := by
  have := pow2ceilAux_spec m m 0 (Or.inl rfl) (by
    simp only [Nat.pow_zero, Nat.one_mul]
    exact Nat.le_of_lt Nat.lt_two_pow_self)
  simpa [pow2ceil] using this

theorem pow_le_of_lt_pow {b T n : Nat} (h1 : 2 ^ b ≤ n) (h2 : n < 2 ^ (T + 1)) : b ≤ T := by
  by_contra hc
  have : 2 ^ (T + 1) ≤ 2 ^ b := Nat.pow_le_pow_right (by decide) (by omega)
  omega

theorem map_U_zero (n : Nat) : (List.range n).map (U 0) = List.range n := by
  have : ∀ i, U 0 i = i := by intro i; simp [U, gp]
  rw [List.map_congr_left (g := id) (fun i _ => this i), List.map_id]

theorem map_C_zero (n T : Nat) : (List.range n).map (C T 0) = List.replicate n 0 := by
  apply List.ext_getElem
  · simp
  · intro i h1 h2; simp [C, Nat.mod_one]

/-- **the Blelloch schedule is accepted by the interval checker for every `n`** -/
theorem schedOk_all (n : Nat) : schedOk n = true := by
  unfold schedOk
  by_cases hn : n ≥ 2
  · -- sizes
    have hup := upLevels_spec n (n + 1) 0 (by simpa using (show 1 ≤ n by omega))
      (by simp only [Nat.pow_zero, Nat.one_mul]
          exact Nat.lt_of_lt_of_le (Nat.lt_succ_self n) (Nat.le_of_lt Nat.lt_two_pow_self))
    simp only [Nat.pow_zero, Nat.zero_add] at hup
    set T := upLevels n (n + 1) 1 with hT
    obtain ⟨a, ha, hma, hamin⟩ := pow2ceil_spec (n / 2)
    -- J + 1 = max 1 a
    obtain ⟨J, hJ⟩ : ∃ J, max 2 (pow2ceil (n / 2)) = 2 ^ (J + 1) := by
      rcases Nat.eq_zero_or_pos a with h0 | hpos
      · exact ⟨0, by rw [ha, h0]; rfl⟩
      · refine ⟨a - 1, ?_⟩
        have : a - 1 + 1 = a := by omega
        rw [this, ha]
        have : 2 ≤ 2 ^ a := by
          calc 2 = 2 ^ 1 := rfl
            _ ≤ 2 ^ a := Nat.pow_le_pow_right (by decide) hpos
        omega
    have hJle : 2 ^ (J + 1) ≤ n := by
      rw [← hJ, ha]
      rcases Nat.eq_zero_or_pos a with h0 | hpos
      · rw [h0]; simp; omega
      · rcases hamin with h0 | hlt
        · omega
        · have : 2 ^ a = 2 * 2 ^ (a - 1) := by
            have : a = (a - 1) + 1 := by omega
            rw [this, Nat.pow_succ]; simp; omega
          have h2 : 2 ≤ 2 ^ a := by
            calc 2 = 2 ^ 1 := rfl
              _ ≤ 2 ^ a := Nat.pow_le_pow_right (by decide) hpos
          omega
    have h3 : n < 3 * 2 ^ (J + 1) := by
      rw [← hJ, ha]
      rcases Nat.eq_zero_or_pos a with h0 | hpos
      · rw [h0] at hma ⊢; simp at hma ⊢; omega
      · rcases hamin with h0 | hlt
        · omega
        · have hm2 : 2 ≤ n / 2 := by
            have : 1 ≤ 2 ^ (a - 1) := two_pow_pos _
            omega
          have h2 : 2 ≤ 2 ^ a := by
            calc 2 = 2 ^ 1 := rfl
              _ ≤ 2 ^ a := Nat.pow_le_pow_right (by decide) hpos
          omega
    have hJT : J + 1 ≤ T := pow_le_of_lt_pow hJle hup.2
    have hTn : T < n := by
      have : T < 2 ^ T := Nat.lt_two_pow_self
      omega
    -- the schedule
    have hsched : schedule n = upsweep n (n + 1) 1 0 ++ downsweep n (n + 1) (2 ^ J) T := by
      simp only [schedule, hn, if_true, hJ, ← hT]
      congr 2
      rw [Nat.pow_succ]; omega
    rw [hsched, segRun_append]
    have hU := upsweep_run n (n + 1) 0 0
    simp only [Nat.pow_zero, Nat.zero_add, map_U_zero, ← hT] at hU
    rw [hU]
    simp only [Option.bind_some]
    -- the up-sweep leaves exactly the state the down-sweep expects
    have hlink : (List.range n).map (U T) = (List.range n).map (C T (J + 1)) := by
      apply List.map_congr_left
      intro i hi
      have hin : i < n := List.mem_range.mp hi
      unfold C
      split
      · rename_i hm
        obtain ⟨c, hc⟩ := Nat.dvd_of_mod_eq_zero hm
        have hc1 : 1 ≤ c := by
          rcases Nat.eq_zero_or_pos c with h0 | h1
          · rw [h0] at hc; omega
          · exact h1
        have hc2 : c < 3 := by
          by_contra hcc
          have : 2 ^ (J + 1) * 3 ≤ 2 ^ (J + 1) * c := Nat.mul_le_mul_left _ (by omega)
          omega
        have hpow : ∃ b, i + 1 = 2 ^ b := by
          rcases (show c = 1 ∨ c = 2 by omega) with h1 | h2
          · exact ⟨J + 1, by rw [hc, h1]; simp⟩
          · exact ⟨J + 2, by rw [hc, h2]; exact (Nat.pow_succ 2 (J + 1)).symm⟩
        obtain ⟨b, hb⟩ := hpow
        have hbT : b ≤ T := pow_le_of_lt_pow (by omega) hup.2
        unfold U
        rw [hb, gp_pow b T hbT]
        exact Nat.sub_self _
      · rfl
    rw [hlink, downsweep_run n T J (n + 1) T (by omega) (by omega), map_C_zero]
    simp
  · have : schedule n = [] := by simp [schedule, hn]
    rw [this]
    simp only [segRun]
    have : n = 0 ∨ n = 1 := by omega
    rcases this with rfl | rfl <;> decide

end Dask.BlockScan
