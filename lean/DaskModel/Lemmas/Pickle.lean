import DaskModel.Model.Pickle
/-! Round-trip lemmas for the slot-based pickling of task-spec nodes (C08). -/
namespace Dask.Pickle
open Dask.TaskTerm

theorem lookup_zip_mapM (o : Attrs) : ∀ (slots : List String) (st : List Obj), slots.Nodup →
    slots.mapM (fun s => o.lookup s) = some st → ∀ s ∈ slots, (slots.zip st).lookup s = o.lookup s
  | [], _, _, _, s, hs => by simp at hs
  | x :: xs, st, hn, h, s, hs => by
    simp only [List.mapM_cons, Option.bind_eq_bind] at h
    cases hx : o.lookup x with
    | none => simp [hx] at h
    | some v =>
      simp only [hx, Option.bind_some] at h
      cases hr : xs.mapM (fun s => o.lookup s) with
      | none => simp [hr] at h
      | some vs =>
        simp only [hr, Option.bind_some, Option.pure_def, Option.some.injEq] at h
        subst h
        have hn' := List.nodup_cons.mp hn
        simp only [List.zip_cons_cons, List.lookup]
        by_cases hsx : s = x
        · subst hsx; simp [hx]
        · have : (s == x) = false := by simpa using hsx
          simp only [this]
          rcases List.mem_cons.mp hs with h1 | h1
          · exact absurd h1 hsx
          · exact lookup_zip_mapM o xs vs hn'.2 hr s h1

theorem lookup_setSlot (a : Attrs) (s : String) (v : Obj) (k : String) :
    (setSlot a s v).lookup k = if k = s then (a.lookup k).map (fun _ => v) else a.lookup k := by
  induction a with
  | nil => simp [setSlot]
  | cons kv rest ih =>
    obtain ⟨k', v'⟩ := kv
    unfold setSlot at ih ⊢
    simp only [List.map_cons]
    by_cases hks : (k' == s) = true
    · have hks' : k' = s := by simpa using hks
      simp only [hks, if_true, List.lookup]
      by_cases hk : (k == k') = true
      · have : k = k' := by simpa using hk
        subst this; subst hks'; simp
      · have hk' : (k == k') = false := by simpa using hk
        simp only [hk', ih]
    · have hks' : (k' == s) = false := by simpa using hks
      simp only [hks', Bool.false_eq_true, if_false, List.lookup]
      by_cases hk : (k == k') = true
      · have : k = k' := by simpa using hk
        subst this
        have hne : k ≠ s := fun e => by subst e; simp at hks'
        simp [hne]
      · have hk' : (k == k') = false := by simpa using hk
        simp only [hk', ih]

theorem lookup_dictSet (kw : List (Obj × Obj)) (k v k' : Obj) :
    (dictSet kw k v).lookup k' = if k' = k then some v else kw.lookup k' := by
  induction kw with
  | nil =>
    simp only [dictSet, List.lookup]
    by_cases h : k' = k
    · subst h; simp
    · have : (k' == k) = false := by
        rw [Bool.eq_false_iff]; intro hc; exact h (eq_of_beq hc)
      simp [this, h]
  | cons e rest ih =>
    obtain ⟨k0, v0⟩ := e
    simp only [dictSet]
    by_cases h0 : (k0 == k) = true
    · have h0' : k0 = k := eq_of_beq h0
      subst h0'
      simp only [h0, if_true, List.lookup]
      by_cases h : k' = k0
      · subst h; simp
      · have : (k' == k0) = false := by
          rw [Bool.eq_false_iff]; intro hc; exact h (eq_of_beq hc)
        simp [this, h]
    · have h0' : (k0 == k) = false := by simpa using h0
      simp only [h0', Bool.false_eq_true, if_false, List.lookup]
      by_cases h : k' = k0
      · subst h
        have hne : k' ≠ k := fun e => by subst e; simp at h0'
        simp [hne]
      · have : (k' == k0) = false := by
          rw [Bool.eq_false_iff]; intro hc; exact h (eq_of_beq hc)
        simp only [this, ih]

theorem lookup_dictPop (kw : List (Obj × Obj)) (k k' : Obj) :
    (dictPop kw k).lookup k' = if k' = k then none else kw.lookup k' := by
  induction kw with
  | nil => simp [dictPop]
  | cons e rest ih =>
    obtain ⟨k0, v0⟩ := e
    unfold dictPop at ih ⊢
    by_cases h0 : (k0 == k) = true
    · have h0' : k0 = k := eq_of_beq h0
      simp only [List.filter_cons, h0, Bool.not_true, Bool.false_eq_true, if_false, ih, List.lookup]
      by_cases h : k' = k
      · simp [h]
      · have : (k' == k0) = false := by
          rw [Bool.eq_false_iff]; intro hc; exact h ((eq_of_beq hc).trans h0')
        simp [h, this]
    · have h0' : (k0 == k) = false := by simpa using h0
      simp only [List.filter_cons, h0', Bool.not_false, if_true, List.lookup]
      by_cases h : (k' == k0) = true
      · have hk : k' = k0 := eq_of_beq h
        subst hk
        have hne : k' ≠ k := fun e => by subst e; simp at h0'
        simp [hne]
      · have h' : (k' == k0) = false := by simpa using h
        simp only [h', ih]

end Dask.Pickle
