/- Extension round (C43): cell lookup lemmas, `x[cs][cs] = x[cs]` factorisation of parents, the Concat law. -/
import DaskModel.Model.RelExpr2
namespace Dask.RelExpr2
open Dask.RelExpr (Cell BinOp getCell colIdx b2c notC Src)

theorem colIdx_cons (c : String) (cs : List String) (n : String) :
    colIdx (c :: cs) n = if c == n then some 0 else (colIdx cs n).map (· + 1) := by
  unfold colIdx
  simp only [List.findIdx_cons, List.length_cons]
  by_cases h : (c == n) = true
  · simp [h]
  · simp only [h, cond_false, Bool.false_eq_true, if_false]
    by_cases h2 : List.findIdx (fun x => x == n) cs < cs.length
    · simp [h2]
    · simp [h2]

theorem getCell_nil (xs : List Cell) (n : String) : getCell [] xs n = none := by
  simp [getCell, colIdx]

theorem getCell_cons (c : String) (cs : List String) (x : Cell) (xs : List Cell) (n : String) :
    getCell (c :: cs) (x :: xs) n = if c == n then x else getCell cs xs n := by
  unfold getCell
  rw [colIdx_cons]
  by_cases h : (c == n) = true
  · simp [h]
  · simp only [h, Bool.false_eq_true, if_false]
    cases colIdx cs n <;> simp

theorem getCell_map_find {α} (l : List α) (f : α → String) (g : α → Cell) (n : String) :
    getCell (l.map f) (l.map g) n = ((l.find? (fun x => f x == n)).map g).getD none := by
  induction l with
  | nil => simp [getCell_nil]
  | cons x xs ih =>
    simp only [List.map_cons, getCell_cons, List.find?_cons]
    by_cases h : (f x == n) = true
    · simp [h]
    · simp [h, ih]

theorem colIdx_isSome (cols : List String) (n : String) : (colIdx cols n).isSome = cols.contains n := by
  induction cols with
  | nil => simp [colIdx]
  | cons c cs ih =>
    rw [colIdx_cons]
    by_cases h : (c == n) = true
    · have : n = c := by simpa using (beq_iff_eq.mp h).symm
      simp [h, this]
    · have hne : ¬ c = n := by simpa using h
      have hne' : ¬ n = c := fun e => hne e.symm
      simp [h, ih, List.contains_cons, hne']

theorem getCell_map (cs : List String) (g : String → Cell) (n : String) :
    getCell cs (cs.map g) n = if cs.contains n then g n else none := by
  have := getCell_map_find cs id g n
  simp only [List.map_id, id] at this
  rw [this]
  induction cs with
  | nil => simp
  | cons c cs ih =>
    simp only [List.find?_cons, List.contains_cons]
    by_cases h : (c == n) = true
    · have : c = n := by simpa using h
      simp [this]
    · have hne : ¬ c = n := by simpa using h
      have hne' : ¬ n = c := fun e => hne e.symm
      have ih' := ih (getCell_map_find cs id g n |> fun t => by simpa using t)
      simp [h, hne', ih']

theorem getCell_not_mem (cols : List String) (r : List Cell) (n : String) (h : cols.contains n = false) :
    getCell cols r n = none := by
  unfold getCell
  have : (colIdx cols n).isSome = false := by rw [colIdx_isSome]; exact h
  cases hc : colIdx cols n with
  | none => rfl
  | some i => simp [hc] at this

theorem hasCols_eq (cols cs : List String) : hasCols cols cs = cs.all (fun c => cols.contains c) := by
  unfold hasCols
  congr 1
  funext c
  exact colIdx_isSome cols c
/-- a value is a frame, or undefined -/
def FrameOrNone : Option Val2 → Prop
  | none => True
  | some (.frame _ _) => True
  | _ => False

theorem mem_of_all_contains {cs cols : List String} (h : cs.all (fun c => cols.contains c) = true) {n : String} (hn : n ∈ cs) :
    cols.contains n = true := by
  rw [List.all_eq_true] at h
  exact h n hn

theorem map_getCell_self (cs : List String) (g : String → Cell) :
    cs.map (getCell cs (cs.map g)) = cs.map g := by
  apply List.map_congr_left
  intro n hn
  have : cs.contains n = true := by simpa using hn
  rw [getCell_map, this]
  rfl

theorem hasCols_self (cs : List String) : hasCols cs cs = true := by
  rw [hasCols_eq, List.all_eq_true]
  intro c hc
  simpa using hc

/-- `x[cs][cs] = x[cs]`, `x['n'] = x[['n']]['n']`, `x.index = x[[]].index` for frames -/
theorem par_factor (p : Par) (cols : List String) (rows : List (RId × List Cell)) :
    p.appV (.frame cols rows) = (projV p.cols (.frame cols rows)).bind p.appV := by
  cases p with
  | proj cs =>
    simp only [Par.appV, Par.cols, projV]
    by_cases h : hasCols cols cs = true
    · simp only [h, if_true, Option.bind_some, projV, hasCols_self, List.map_map]
      congr 2
      apply List.map_congr_left
      intro ir _
      simp only [Function.comp_def]
      rw [map_getCell_self]
    · simp [h]
  | col n =>
    simp only [Par.appV, Par.cols, projV, colV]
    have hg : hasCols cols [n] = (colIdx cols n).isSome := by simp [hasCols]
    by_cases h : (colIdx cols n).isSome = true
    · have h1 : (colIdx [n] n).isSome = true := by rw [colIdx_isSome]; simp
      have hg' : hasCols cols [n] = true := by rw [hg]; exact h
      simp only [h, hg', if_true, Option.bind_some, colV, h1, List.map_map]
      congr 2
      apply List.map_congr_left
      intro ir _
      simp [Function.comp_def, getCell_cons]
    · have hg' : hasCols cols [n] = false := by rw [hg]; simpa using h
      simp [h, hg']
  | index =>
    simp [Par.appV, Par.cols, projV, indexV, hasCols, List.map_map, Function.comp_def]

theorem par_of_proj (p : Par) (v1 v2 : Option Val2) (h1 : FrameOrNone v1) (h2 : FrameOrNone v2)
    (h : v1.bind (projV p.cols) = v2.bind (projV p.cols)) : v1.bind p.appV = v2.bind p.appV := by
  have f : ∀ v : Option Val2, FrameOrNone v → v.bind p.appV = (v.bind (projV p.cols)).bind p.appV := by
    intro v hv
    cases v with
    | none => rfl
    | some v =>
      cases v with
      | frame cols rows => simp only [Option.bind_some]; exact par_factor p cols rows
      | series _ => exact absurd hv (by simp [FrameOrNone])
      | scalar _ => exact absurd hv (by simp [FrameOrNone])
  rw [f v1 h1, f v2 h2, h]

theorem concatV_frameOrNone (x y : Val2) : FrameOrNone (concatV x y) := by
  cases x <;> cases y <;> simp [concatV, FrameOrNone]

theorem mergeV_frameOrNone (how : How) (on : List String) (x y : Val2) : FrameOrNone (mergeV how on x y) := by
  cases x with
  | frame cl rl =>
    cases y with
    | frame cr rr =>
      simp only [mergeV]
      by_cases h : (hasCols cl on && hasCols cr on) = true <;> simp [h, FrameOrNone]
    | _ => simp [mergeV, FrameOrNone]
  | _ => simp [mergeV, FrameOrNone]

theorem bind_frameOrNone (v : Option Val2) (f : Val2 → Option Val2) (h : ∀ x, FrameOrNone (f x)) : FrameOrNone (v.bind f) := by
  cases v with
  | none => trivial
  | some x => exact h x

theorem all_congr_mem {α} {l : List α} {f g : α → Bool} (h : ∀ x ∈ l, f x = g x) : l.all f = l.all g := by
  induction l with
  | nil => rfl
  | cons x xs ih =>
    simp only [List.all_cons]
    rw [h x (by simp), ih (fun y hy => h y (by simp [hy]))]

theorem contains_unionCols (a b : List String) (n : String) : (unionCols a b).contains n = (a.contains n || b.contains n) := by
  unfold unionCols
  by_cases ha : n ∈ a
  · simp [ha]
  · simp [ha]

theorem need_eq {cs ca pl : List String} (hsub : pl.all (fun x => ca.contains x) = true)
    (hneed : cs.all (fun n => !ca.contains n || pl.contains n) = true) {n : String} (hn : n ∈ cs) :
    pl.contains n = ca.contains n := by
  have h1 := (List.all_eq_true.mp hneed) n hn
  cases hp : pl.contains n with
  | true =>
    have := mem_of_all_contains hsub (show n ∈ pl by simpa using hp)
    rw [this]
  | false =>
    cases hc : ca.contains n with
    | false => rfl
    | true => rw [hc, hp] at h1; exact absurd h1 (by decide)

theorem ite_getCell (ca : List String) (r : List Cell) (n : String) :
    (if ca.contains n = true then getCell ca r n else none) = getCell ca r n := by
  cases hc : ca.contains n with
  | true => rfl
  | false => rw [getCell_not_mem ca r n hc]; rfl

/-- the concat law, left side: projecting the left frame onto `pl ⊇ cs ∩ ca` does not change `concat(x, y)[cs]` -/
theorem concat_push_left (cs pl ca cb : List String) (ra rb : List (RId × List Cell)) (hok : pushOK cs ca pl = true) :
    ((projV pl (.frame ca ra)).bind (fun x' => concatV x' (.frame cb rb))).bind (projV cs) =
    (concatV (.frame ca ra) (.frame cb rb)).bind (projV cs) := by
  simp only [pushOK, subsetS, Bool.and_eq_true] at hok
  obtain ⟨hsub, hneed⟩ := hok
  have hpl : hasCols ca pl = true := by rw [hasCols_eq]; exact hsub
  have hguard : hasCols (unionCols pl cb) cs = hasCols (unionCols ca cb) cs := by
    rw [hasCols_eq, hasCols_eq]
    apply all_congr_mem
    intro n hn
    rw [contains_unionCols, contains_unionCols, need_eq hsub hneed hn]
  simp only [projV, hpl, if_true, Option.bind_some, concatV, hguard]
  by_cases hg : hasCols (unionCols ca cb) cs = true
  · simp only [hg, if_true, List.map_append, List.map_map]
    congr 3
    · apply List.map_congr_left
      intro ir _
      simp only [Function.comp_def]
      congr 1
      apply List.map_congr_left
      intro n hn
      have hnU : (unionCols ca cb).contains n = true := by
        rw [hasCols_eq] at hg; exact mem_of_all_contains hg hn
      have hnU' : (unionCols pl cb).contains n = true := by
        rw [← hguard, hasCols_eq] at hg; exact mem_of_all_contains hg hn
      simp only [getCell_map, hnU, hnU', ↓reduceIte]
      rw [need_eq hsub hneed hn, ite_getCell]
    · apply List.map_congr_left
      intro ir _
      simp only [Function.comp_def]
      congr 1
      apply List.map_congr_left
      intro n hn
      have hnU : (unionCols ca cb).contains n = true := by
        rw [hasCols_eq] at hg; exact mem_of_all_contains hg hn
      have hnU' : (unionCols pl cb).contains n = true := by
        rw [← hguard, hasCols_eq] at hg; exact mem_of_all_contains hg hn
      simp only [getCell_map, hnU, hnU', ↓reduceIte]
  · simp [hg]

/-- the concat law, right side -/
theorem concat_push_right (cs pr ca cb : List String) (ra rb : List (RId × List Cell)) (hok : pushOK cs cb pr = true) :
    ((projV pr (.frame cb rb)).bind (fun y' => concatV (.frame ca ra) y')).bind (projV cs) =
    (concatV (.frame ca ra) (.frame cb rb)).bind (projV cs) := by
  simp only [pushOK, subsetS, Bool.and_eq_true] at hok
  obtain ⟨hsub, hneed⟩ := hok
  have hpr : hasCols cb pr = true := by rw [hasCols_eq]; exact hsub
  have hguard : hasCols (unionCols ca pr) cs = hasCols (unionCols ca cb) cs := by
    rw [hasCols_eq, hasCols_eq]
    apply all_congr_mem
    intro n hn
    rw [contains_unionCols, contains_unionCols, need_eq hsub hneed hn]
  simp only [projV, hpr, if_true, Option.bind_some, concatV, hguard]
  by_cases hg : hasCols (unionCols ca cb) cs = true
  · simp only [hg, if_true, List.map_append, List.map_map]
    congr 3
    · apply List.map_congr_left
      intro ir _
      simp only [Function.comp_def]
      congr 1
      apply List.map_congr_left
      intro n hn
      have hnU : (unionCols ca cb).contains n = true := by
        rw [hasCols_eq] at hg; exact mem_of_all_contains hg hn
      have hnU' : (unionCols ca pr).contains n = true := by
        rw [← hguard, hasCols_eq] at hg; exact mem_of_all_contains hg hn
      simp only [getCell_map, hnU, hnU', ↓reduceIte]
    · apply List.map_congr_left
      intro ir _
      simp only [Function.comp_def]
      congr 1
      apply List.map_congr_left
      intro n hn
      have hnU : (unionCols ca cb).contains n = true := by
        rw [hasCols_eq] at hg; exact mem_of_all_contains hg hn
      have hnU' : (unionCols ca pr).contains n = true := by
        rw [← hguard, hasCols_eq] at hg; exact mem_of_all_contains hg hn
      simp only [getCell_map, hnU, hnU', ↓reduceIte]
      rw [need_eq hsub hneed hn, ite_getCell]
  · simp [hg]

/-- `concat(x, y)[cs] = concat(x, y)` when `cs` is exactly its column list -/
theorem concat_drop (ca cb : List String) (ra rb : List (RId × List Cell)) :
    (concatV (.frame ca ra) (.frame cb rb)).bind (projV (unionCols ca cb)) = concatV (.frame ca ra) (.frame cb rb) := by
  simp only [concatV, Option.bind_some, projV, hasCols_self, if_true, List.map_append, List.map_map]
  congr 3 <;>
  · apply List.map_congr_left
    intro ir _
    simp only [Function.comp_def]
    rw [map_getCell_self]

end Dask.RelExpr2
