import DaskModel.Lemmas.ChunksPlanStages
/-! C23: `find_merge_rechunk` never raises for valid chunkings whose largest old block is within the limit:
its two final assertions hold and neither `divide_to_width` nor `// largest_width` divides by zero. -/
namespace Dask.Chunks

theorem largestBlockSize_nil : largestBlockSize [] = 1 := rfl
theorem largestBlockSize_cons (c : List Nat) (cs : List (List Nat)) :
    largestBlockSize (c :: cs) = maxL c * largestBlockSize cs := rfl

theorem le_maxL : ∀ (l : List Nat) (x : Nat), x ∈ l → x ≤ maxL l
  | [], _, h => by simp at h
  | y :: ys, x, h => by
    simp only [maxL, List.foldr] at *
    rcases List.mem_cons.1 h with h | h
    · subst h; omega
    · have := le_maxL ys x h
      simp only [maxL] at this
      omega

theorem maxL_le : ∀ (l : List Nat) (w : Nat), (∀ x ∈ l, x ≤ w) → maxL l ≤ w
  | [], _, _ => by simp [maxL]
  | y :: ys, w, h => by
    have h1 := h y (by simp)
    have h2 := maxL_le ys w (fun x hx => h x (List.mem_cons_of_mem _ hx))
    simp only [maxL, List.foldr] at *
    omega

theorem StageOK.maxL_pos {n : Nat} {cs : List Nat} (h : StageOK n cs) : 0 < maxL cs := by
  obtain ⟨h1, h2, _⟩ := h
  cases cs with
  | nil => exact absurd rfl h1
  | cons c cs =>
    have := le_maxL (c :: cs) c (by simp)
    have := h2 c (by simp)
    omega

theorem largestBlockSize_pos : ∀ {shape : List Nat} {l : List (List Nat)}, AllStage shape l → 0 < largestBlockSize l
  | [], [], _ => by simp [largestBlockSize_nil]
  | _ :: _, [], h => by simp [AllStage] at h
  | [], _ :: _, h => by simp [AllStage] at h
  | _ :: _, c :: cs, h => by
    rw [largestBlockSize_cons]
    exact Nat.mul_pos h.1.maxL_pos (largestBlockSize_pos h.2)

/-- replacing the chunks of one dimension rescales the largest block by the ratio of the largest widths -/
theorem largestBlockSize_set : ∀ (l : List (List Nat)) (d : Nat) (c : List Nat), d < l.length →
    largestBlockSize (l.set d c) * maxL (l.getD d []) = largestBlockSize l * maxL c
  | [], _, _, h => by simp at h
  | x :: xs, 0, c, _ => by
    simp only [List.set_cons_zero, largestBlockSize_cons, List.getD_cons_zero]
    rw [Nat.mul_assoc, Nat.mul_comm (largestBlockSize xs), ← Nat.mul_assoc, Nat.mul_comm (maxL c),
      Nat.mul_assoc, Nat.mul_assoc, Nat.mul_comm (maxL c)]
  | x :: xs, d + 1, c, h => by
    have ih := largestBlockSize_set xs d c (by simpa using h)
    simp only [List.set_cons_succ, largestBlockSize_cons, List.getD_cons_succ]
    rw [Nat.mul_assoc, ih, Nat.mul_assoc]

/-- invariant of the `for dim in sorted_candidates` loop -/
structure MInv (shape : List Nat) (Lnum den : Nat) (old : List (List Nat)) (todo : List Nat) (st : MState) : Prop where
  stage : AllStage shape st.chunks
  lbs : st.lbs = largestBlockSize st.chunks
  fits : st.lbs * den ≤ Lnum
  same : ∀ d ∈ todo, st.chunks.getD d [] = old.getD d []

theorem getD_set_ne' (l : List (List Nat)) (d d' : Nat) (c : List Nat) (h : d ≠ d') :
    (l.set d c).getD d' [] = l.getD d' [] := by
  simp [List.getD_eq_getElem?_getD, List.getElem?_set_ne h]

/-- one dimension: no exception, and the invariant is kept -/
theorem mergeDim_safe {shape : List Nat} {Lnum den : Nat} {old new : List (List Nat)} {st : MState} {d : Nat}
    {ds : List Nat} (ho : AllStage shape old) (hn : AllStage shape new) (hden : 0 < den) (hd : d < shape.length)
    (hnd : d ∉ ds) (inv : MInv shape Lnum den old (d :: ds) st) :
    ∃ st', mergeDim Lnum den old new st d = .ok st' ∧ MInv shape Lnum den old ds st' := by
  obtain ⟨n, hsn⟩ : ∃ n, shape[d]? = some n := ⟨shape[d], by simp [hd]⟩
  have hO := AllStage.getD ho hsn
  have hN := AllStage.getD hn hsn
  have hcur : st.chunks.getD d [] = old.getD d [] := inv.same d (by simp)
  have how := hO.maxL_pos
  have hlen : d < st.chunks.length := by rw [inv.stage.length]; exact hd
  have hset := fun c => largestBlockSize_set st.chunks d c hlen
  rw [hcur, ← inv.lbs] at hset
  have hsame' : ∀ c, ∀ d' ∈ ds, (st.chunks.set d c).getD d' [] = old.getD d' [] := by
    intro c d' hd'
    rw [getD_set_ne' _ _ _ _ (by intro h; subst h; exact hnd hd')]
    exact inv.same d' (List.mem_cons_of_mem _ hd')
  unfold mergeDim
  simp only
  have horone : orOne (maxL (old.getD d [])) = maxL (old.getD d []) := by
    unfold orOne; split <;> omega
  rw [horone]
  have hfull : st.lbs * maxL (new.getD d []) / maxL (old.getD d []) = largestBlockSize (st.chunks.set d (new.getD d [])) :=
    Nat.div_eq_of_eq_mul_left how (hset _).symm
  split
  · rename_i hfit
    refine ⟨_, rfl, ⟨AllStage.set inv.stage (fun m hm => AllStage.getD hn hm), hfull, hfit, hsame' _⟩⟩
  · -- partial branch
    have hlbs : 0 < st.lbs := by rw [inv.lbs]; exact largestBlockSize_pos inv.stage
    unfold mergeDimPartial
    rw [if_neg (by omega)]
    have hcl : 0 < chunkLimit Lnum den (maxL (old.getD d [])) st.lbs := by
      unfold chunkLimit
      apply Nat.div_pos
      · calc den * st.lbs = st.lbs * den := Nat.mul_comm _ _
          _ ≤ Lnum := inv.fits
          _ ≤ Lnum * maxL (old.getD d []) := Nat.le_mul_of_pos_right _ how
      · exact Nat.mul_pos hden hlbs
    cases hdv : divideToWidth (new.getD d []) (chunkLimit Lnum den (maxL (old.getD d [])) st.lbs) with
    | none =>
      unfold divideToWidth at hdv
      rw [if_neg (by omega)] at hdv
      cases hdv
    | some c =>
      simp only
      obtain ⟨a1, a2, a3⟩ := divideToWidth_spec hdv
      split
      · rw [if_neg (by omega)]
        have hc : StageOK n c := stage_of_sum (by rw [a1]; exact hN.2.2) (a3 hN.2.1) hN.pos
        have hdiv : st.lbs * maxL c / maxL (old.getD d []) = largestBlockSize (st.chunks.set d c) :=
          Nat.div_eq_of_eq_mul_left how (hset c).symm
        refine ⟨_, rfl, ⟨AllStage.set inv.stage (fun m hm => by rw [hsn] at hm; injection hm with hm; subst hm; exact hc),
          hdiv, ?_, hsame' c⟩⟩
        -- the new largest block is within the limit
        simp only
        rw [hdiv]
        have hm : maxL c ≤ chunkLimit Lnum den (maxL (old.getD d [])) st.lbs := maxL_le c _ a2
        have h1 : maxL c * (den * st.lbs) ≤ Lnum * maxL (old.getD d []) := by
          calc maxL c * (den * st.lbs) ≤ chunkLimit Lnum den (maxL (old.getD d [])) st.lbs * (den * st.lbs) :=
                Nat.mul_le_mul_right _ hm
            _ ≤ Lnum * maxL (old.getD d []) := Nat.div_mul_le_self _ _
        have h2 : largestBlockSize (st.chunks.set d c) * den * maxL (old.getD d []) ≤ Lnum * maxL (old.getD d []) := by
          calc largestBlockSize (st.chunks.set d c) * den * maxL (old.getD d [])
              = largestBlockSize (st.chunks.set d c) * maxL (old.getD d []) * den := by
                rw [Nat.mul_assoc, Nat.mul_comm den, ← Nat.mul_assoc]
            _ = st.lbs * maxL c * den := by rw [hset c]
            _ = maxL c * (den * st.lbs) := by
                rw [Nat.mul_comm st.lbs, Nat.mul_assoc, Nat.mul_comm st.lbs]
            _ ≤ Lnum * maxL (old.getD d []) := h1
        exact Nat.le_of_mul_le_mul_right h2 how
      · refine ⟨_, rfl, ⟨inv.stage, inv.lbs, inv.fits, fun d' hd' => inv.same d' (List.mem_cons_of_mem _ hd')⟩⟩

theorem mergeDims_safe {shape : List Nat} {Lnum den : Nat} {old new : List (List Nat)} (ho : AllStage shape old)
    (hn : AllStage shape new) (hden : 0 < den) :
    ∀ (order : List Nat) (st : MState), nodupB order = true → (∀ d ∈ order, d < shape.length) →
      MInv shape Lnum den old order st →
      ∃ st', mergeDims Lnum den old new st order = .ok st' ∧ MInv shape Lnum den old [] st'
  | [], st, _, _, inv => ⟨st, rfl, inv⟩
  | d :: ds, st, hnd, hr, inv => by
    simp only [nodupB, Bool.and_eq_true, Bool.not_eq_true', List.contains_eq_mem, decide_eq_false_iff_not] at hnd
    obtain ⟨st1, h1, inv1⟩ := mergeDim_safe (new := new) ho hn hden (hr d (by simp)) hnd.1 inv
    obtain ⟨st2, h2, inv2⟩ := mergeDims_safe ho hn hden ds st1 hnd.2 (fun x hx => hr x (List.mem_cons_of_mem _ hx)) inv1
    exact ⟨st2, by rw [mergeDims, h1]; exact h2, inv2⟩

theorem mem_mergeCandidates_lt {old new : List (List Nat)} {d : Nat} (h : d ∈ mergeCandidates old new) : d < old.length := by
  unfold mergeCandidates at h
  have := (List.mem_filter.1 h).1
  simpa using this

/-- **find_merge_rechunk never raises** on valid chunkings whose largest old block is within the limit: whatever the
    (duplicate-free) candidate order, neither assertion fails and nothing divides by zero -/
theorem findMerge_safe {shape : List Nat} {Lnum den : Nat} {old new : List (List Nat)} {order : List Nat}
    (ho : AllStage shape old) (hn : AllStage shape new) (hden : 0 < den) (hfit : largestBlockSize old * den ≤ Lnum)
    (hperm : isPermOf order (mergeCandidates old new) = true) :
    ∃ c hit, findMerge Lnum den old new order = .ok (c, hit) ∧ AllStage shape c ∧ largestBlockSize c * den ≤ Lnum := by
  have hp := hperm
  simp only [isPermOf, Bool.and_eq_true] at hp
  obtain ⟨⟨⟨_, hnd⟩, _⟩, hsub⟩ := hp
  have hr : ∀ d ∈ order, d < shape.length := by
    intro d hd
    have := List.all_eq_true.1 hsub d hd
    rw [← ho.length]
    exact mem_mergeCandidates_lt (by simpa using this)
  obtain ⟨st, h1, inv⟩ := mergeDims_safe (new := new) ho hn hden order
    { chunks := old, lbs := largestBlockSize old, hit := false } hnd hr ⟨ho, rfl, hfit, fun _ _ => rfl⟩
  refine ⟨st.chunks, st.hit, ?_, inv.stage, by rw [← inv.lbs]; exact inv.fits⟩
  unfold findMerge
  rw [hperm]
  simp only [Bool.not_true, Bool.false_eq_true, if_false, h1]
  rw [if_neg]
  intro hbad
  rcases hbad with hbad | hbad
  · exact hbad inv.lbs
  · exact hbad inv.fits

end Dask.Chunks
