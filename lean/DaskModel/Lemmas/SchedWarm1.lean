import DaskModel.Lemmas.SchedInit4
import DaskModel.Model.SchedWarm
/-! `start_state_from_dask` with a caller-supplied cache (`startStateC`): the loop invariant `IInvC` of the traversal, stated
on the warm graph (every cached key is a data node), and its preservation by the DataNode branch and by the new
`if key in cache: continue` branch. -/
namespace Dask.Sched
variable {α : Type}

theorem Map.get?_append {β : Type} (a b : Map β) (k : Key) :
    Map.get? (a ++ b) k = match Map.get? a k with | some v => some v | none => Map.get? b k := by
  induction a with
  | nil => rfl
  | cons p a ih =>
    obtain ⟨k', v⟩ := p
    show Map.get? ((k', v) :: (a ++ b)) k = _
    rw [Map.get?_cons, Map.get?_cons]
    by_cases h : k' = k
    · simp [h]
    · simp only [h, if_false]; exact ih

theorem Map.get?_mapData {β : Type} (c : Map β) (k : Key) :
    Map.get? (c.map (fun p => (p.1, Node.data))) k = if c.has k then some Node.data else none := by
  induction c with
  | nil => rfl
  | cons p c ih =>
    obtain ⟨k', v⟩ := p
    show Map.get? ((k', Node.data) :: c.map (fun p => (p.1, Node.data))) k = _
    rw [Map.get?_cons]
    unfold Map.has at ih ⊢
    rw [Map.get?_cons]
    by_cases h : k' = k
    · simp [h]
    · simp only [h, if_false]; exact ih

/-- the warm graph: a cached key is a data node, every other key is what it is in `g` -/
theorem get?_warmGraph (g : Graph) (c0 : Map α) (k : Key) :
    (warmGraph g c0).get? k = if c0.has k then some Node.data else g.get? k := by
  unfold warmGraph
  rw [Map.get?_append, Map.get?_mapData]
  by_cases h : c0.has k = true
  · simp [h]
  · simp [h]

theorem warm_data_of_has {g : Graph} {c0 : Map α} {k : Key} (h : c0.has k = true) : isData (warmGraph g c0) k := by
  unfold isData
  rw [get?_warmGraph, h]
  rfl

theorem warm_get_of_not_has {g : Graph} {c0 : Map α} {k : Key} (h : c0.has k = false) :
    (warmGraph g c0).get? k = g.get? k := by
  rw [get?_warmGraph, h]
  rfl

theorem Map.has_false_iff {β : Type} (m : Map β) (k : Key) : m.has k = false ↔ m.get? k = none := by
  unfold Map.has
  cases m.get? k <;> simp

/-- `d` is available: a visited data node of the warm graph, or a key of the supplied cache -/
def CDc (G : Graph) (c0 : Map α) (s : InitSt α) (d : Key) : Prop := CD G s d ∨ c0.has d = true

/-- the loop invariant of `while stack:` when the traversal starts from the cache `c0`; `G` is the warm graph -/
structure IInvC (G : Graph) (results : List Key) (c0 : Map α) (P : Params α) (s : InitSt α) : Prop where
  stackGraph : ∀ k ∈ s.stack, ∃ nd, G.get? k = some nd
  seenGraph : ∀ k ∈ s.seen, ∃ nd, G.get? k = some nd
  resCover : ∀ r ∈ results, r ∈ s.seen ∨ r ∈ s.stack
  depCover : ∀ k ∈ s.seen, ∀ d ∈ nodeDeps G k, d ∈ s.seen ∨ d ∈ s.stack
  needed : ∀ k, (k ∈ s.seen ∨ k ∈ s.stack) → k ∈ results ∨ ∃ j ∈ s.seen, k ∈ nodeDeps G j
  depsDom : ∀ k, (∃ ds, s.dependencies.get? k = some ds) ↔ k ∈ s.seen
  depsVal : ∀ k ds, s.dependencies.get? k = some ds → ds = nodeDeps G k
  dtsVal : ∀ d j, j ∈ (s.dependents.get? d).getD [] ↔ (j ∈ s.seen ∧ d ∈ nodeDeps G j)
  dtsNodup : ∀ d l, s.dependents.get? d = some l → l.Nodup
  dtsDom : ∀ k ∈ s.seen, ∃ l, s.dependents.get? k = some l
  wdEq : s.waitingData = s.dependents
  cacheVal : ∀ k v, s.cache.get? k = some v ↔
    (c0.get? k = some v ∨ (c0.has k = false ∧ k ∈ s.seen ∧ isData G k ∧ v = P.dataVal k))
  readyNodup : s.readySet.Nodup
  readyIff : ∀ k, k ∈ s.readySet ↔ (k ∈ s.seen ∧ isTask G k ∧ ∀ d ∈ nodeDeps G k, CDc G c0 s d)
  waitIff : ∀ k w, s.waiting.get? k = some w →
    (k ∈ s.seen ∧ isTask G k ∧ w ≠ [] ∧ ∀ d, d ∈ w ↔ (d ∈ nodeDeps G k ∧ ¬ CDc G c0 s d))
  waitCover : ∀ k ∈ s.seen, isTask G k → (∃ d ∈ nodeDeps G k, ¬ CDc G c0 s d) → ∃ w, s.waiting.get? k = some w
  dtsLive : ∀ d l, s.dependents.get? d = some l → d ∈ s.seen ∨ l ≠ []
  reach : ∀ k, (k ∈ s.seen ∨ k ∈ s.stack) → Reach G results k

/-- a key of the supplied cache is in the cache throughout the traversal -/
theorem IInvC.has_of_c0 {G : Graph} {results : List Key} {c0 : Map α} {P : Params α} {s : InitSt α}
    (h : IInvC G results c0 P s) {k : Key} (hk : c0.has k = true) : s.cache.has k = true := by
  obtain ⟨v, hv⟩ := (Map.has_iff c0 k).mp hk
  exact (Map.has_iff s.cache k).mpr ⟨v, (h.cacheVal k v).mpr (Or.inl hv)⟩

/-- a key that has not been visited is in the cache only if the caller supplied it -/
theorem IInvC.c0_of_has_not_seen {G : Graph} {results : List Key} {c0 : Map α} {P : Params α} {s : InitSt α}
    (h : IInvC G results c0 P s) {k : Key} (hns : k ∉ s.seen) (hk : s.cache.has k = true) : c0.has k = true := by
  obtain ⟨v, hv⟩ := (Map.has_iff s.cache k).mp hk
  rcases (h.cacheVal k v).mp hv with h1 | ⟨_, h2, _⟩
  · exact (Map.has_iff c0 k).mpr ⟨v, h1⟩
  · exact absurd h2 hns

theorem IInvC.not_c0_of_not_has {G : Graph} {results : List Key} {c0 : Map α} {P : Params α} {s : InitSt α}
    (h : IInvC G results c0 P s) {k : Key} (hk : s.cache.has k = false) : c0.has k = false := by
  cases hc : c0.has k with
  | false => rfl
  | true => rw [h.has_of_c0 hc] at hk; cases hk

/-- the cache as a predicate: exactly the available keys -/
theorem IInvC.has_iff_CDc {G : Graph} {results : List Key} {c0 : Map α} {P : Params α} {s : InitSt α}
    (h : IInvC G results c0 P s) (d : Key) : s.cache.has d = true ↔ CDc G c0 s d := by
  rw [Map.has_iff]
  constructor
  · rintro ⟨v, hv⟩
    rcases (h.cacheVal d v).mp hv with h1 | ⟨_, h2, h3, _⟩
    · exact Or.inr ((Map.has_iff c0 d).mpr ⟨v, h1⟩)
    · exact Or.inl ⟨h2, h3⟩
  · rintro (⟨a, b⟩ | hc)
    · cases hc : c0.has d with
      | true =>
        obtain ⟨v, hv⟩ := (Map.has_iff c0 d).mp hc
        exact ⟨v, (h.cacheVal d v).mpr (Or.inl hv)⟩
      | false => exact ⟨P.dataVal d, (h.cacheVal d _).mpr (Or.inr ⟨hc, a, b, rfl⟩)⟩
    · obtain ⟨v, hv⟩ := (Map.has_iff c0 d).mp hc
      exact ⟨v, (h.cacheVal d v).mpr (Or.inl hv)⟩

/-! ### a visited key that is not a task of the warm graph (DataNode branch, cached key): the clauses that do not
concern `waiting` / `ready_set` / `cache` -/

/-- the DataNode branch -/
theorem IInvC.visit_data {g : Graph} {results : List Key} {c0 : Map α} {P : Params α} {s : InitSt α}
    (h : IInvC (warmGraph g c0) results c0 P s) {key : Key} {stack : List Key} (hst : s.stack = key :: stack)
    (hns : key ∉ s.seen) (hnc : s.cache.has key = false) (hg : (warmGraph g c0).get? key = some .data) :
    ∃ s', initVisit g P key { s with stack := stack } = .ok s' ∧ IInvC (warmGraph g c0) results c0 P s' ∧
      measure g s' < measure g s := by
  have hc0 : c0.has key = false := h.not_c0_of_not_has hnc
  have hgg : g.get? key = some .data := by rw [← warm_get_of_not_has (g := g) hc0]; exact hg
  rw [initVisit_data g P s key stack hgg hnc]
  generalize hG : warmGraph g c0 = G at h hg
  have hkd : isData G key := hg
  have hknt : ¬ isTask G key := fun ht => not_data_of_task ht hkd
  have hnd : nodeDeps G key = [] := nodeDeps_data hg
  have hLmem : ∀ j, j ∈ ((touch s.dependents key).get? key).getD [] ↔ (j ∈ s.seen ∧ key ∈ nodeDeps G j) := by
    intro j; rw [getD_touch]; exact h.dtsVal key j
  have hLN : (((touch s.dependents key).get? key).getD []).Nodup := by
    rw [getD_touch]
    cases hd : s.dependents.get? key with
    | none => simp
    | some l => simpa using h.dtsNodup key l hd
  have hncd : ¬ CDc G c0 s key := by
    rintro (hc | hc)
    · exact hns hc.1
    · rw [hc0] at hc; cases hc
  have hpre : ∀ j ∈ ((touch s.dependents key).get? key).getD [],
      ∃ w, (dataSt P s key stack).waiting.get? j = some w ∧ key ∈ w := by
    intro j hj
    obtain ⟨hjs, hkj⟩ := (hLmem j).mp hj
    obtain ⟨w, hw⟩ := h.waitCover j hjs (isTask_of_dep hkj) ⟨key, hkj, hncd⟩
    exact ⟨w, hw, ((h.waitIff j w hw).2.2.2 key).mpr ⟨hkj, hncd⟩⟩
  obtain ⟨s', hs', hW, hR, hRN, c1, c2, c3, c4, c5, c6⟩ :=
    dataNodeLoop_spec key _ (dataSt P s key stack) hLN h.readyNodup hpre
  have e1 : s'.stack = stack := c1
  have e2 : s'.seen = key :: s.seen := c2
  have e3 : s'.dependencies = touch s.dependencies key := c3
  have e4 : s'.dependents = touch s.dependents key := c4
  have e5 : s'.waitingData = touch s.waitingData key := c5
  have e6 : s'.cache = s.cache.set key (P.dataVal key) := c6
  have hW' : ∀ j, s'.waiting.get? j =
      if j ∈ s.seen ∧ key ∈ nodeDeps G j then waitingAfter key (s.waiting.get? j) else s.waiting.get? j := by
    intro j
    rw [hW j]
    by_cases hj : j ∈ ((touch s.dependents key).get? key).getD []
    · rw [if_pos hj, if_pos ((hLmem j).mp hj)]; rfl
    · rw [if_neg hj, if_neg (fun hc => hj ((hLmem j).mpr hc))]; rfl
  have hR' : ∀ j, j ∈ s'.readySet ↔ j ∈ s.readySet ∨
      ((j ∈ s.seen ∧ key ∈ nodeDeps G j) ∧ ∃ w, s.waiting.get? j = some w ∧ srem key w = []) := by
    intro j
    rw [hR j, hLmem j]
    rfl
  have hseen' : ∀ k, k ∈ s'.seen ↔ k = key ∨ k ∈ s.seen := by intro k; rw [e2]; exact List.mem_cons
  have hCD' : ∀ d, CDc G c0 s' d ↔ (CDc G c0 s d ∨ d = key) := by
    intro d
    unfold CDc CD
    rw [hseen']
    constructor
    · rintro (⟨h1 | h1, h2⟩ | h1)
      · exact Or.inr h1
      · exact Or.inl (Or.inl ⟨h1, h2⟩)
      · exact Or.inl (Or.inr h1)
    · rintro ((⟨h1, h2⟩ | h1) | h1)
      · exact Or.inl ⟨Or.inr h1, h2⟩
      · exact Or.inr h1
      · exact Or.inl ⟨Or.inl h1, h1 ▸ hkd⟩
  refine ⟨s', hs', ?_, ?_⟩
  · refine ⟨?_, ?_, ?_, ?_, ?_, ?_, ?_, ?_, ?_, ?_, ?_, ?_, hRN, ?_, ?_, ?_, ?_, ?_⟩
    · intro k hk; rw [e1] at hk; exact h.stackGraph k (by rw [hst]; exact List.mem_cons_of_mem _ hk)
    · intro k hk
      rcases (hseen' k).mp hk with rfl | h1
      · exact ⟨_, hg⟩
      · exact h.seenGraph k h1
    · intro r hr
      rw [hseen', e1]
      rcases h.resCover r hr with h1 | h1
      · exact Or.inl (Or.inr h1)
      · rw [hst] at h1
        rcases List.mem_cons.mp h1 with h2 | h2
        · exact Or.inl (Or.inl h2)
        · exact Or.inr h2
    · intro k hk d hd
      rw [hseen', e1]
      rcases (hseen' k).mp hk with rfl | h1
      · rw [hnd] at hd; cases hd
      · rcases h.depCover k h1 d hd with h2 | h2
        · exact Or.inl (Or.inr h2)
        · rw [hst] at h2
          rcases List.mem_cons.mp h2 with h3 | h3
          · exact Or.inl (Or.inl h3)
          · exact Or.inr h3
    · intro k hk
      have hold : k ∈ s.seen ∨ k ∈ s.stack := by
        rw [hseen', e1] at hk
        rcases hk with (rfl | h1) | h1
        · exact Or.inr (by rw [hst]; simp)
        · exact Or.inl h1
        · exact Or.inr (by rw [hst]; exact List.mem_cons_of_mem _ h1)
      rcases h.needed k hold with h1 | ⟨j, hj, hkj⟩
      · exact Or.inl h1
      · exact Or.inr ⟨j, (hseen' j).mpr (Or.inr hj), hkj⟩
    · intro k
      rw [e3, hseen', get?_touch]
      constructor
      · rintro ⟨ds, hds⟩
        split at hds
        · rename_i hc; exact Or.inl hc.1.symm
        · exact Or.inr ((h.depsDom k).mp ⟨ds, hds⟩)
      · rintro (rfl | h1)
        · by_cases hc : s.dependencies.get? k = none
          · exact ⟨[], by simp [hc]⟩
          · obtain ⟨ds, hds⟩ := Option.ne_none_iff_exists'.mp hc
            exact ⟨ds, by simp [hds]⟩
        · obtain ⟨ds, hds⟩ := (h.depsDom k).mpr h1
          exact ⟨ds, by
            split
            · rename_i hc; rw [← hc.1] at hds; rw [hc.2] at hds; cases hds
            · exact hds⟩
    · intro k ds hds
      rw [e3, get?_touch] at hds
      split at hds
      · rename_i hc
        simp only [Option.some.injEq] at hds
        rw [← hds, ← hc.1, hnd]
      · exact h.depsVal k ds hds
    · intro d j
      rw [e4, getD_touch, h.dtsVal d j, hseen']
      constructor
      · rintro ⟨h1, h2⟩; exact ⟨Or.inr h1, h2⟩
      · rintro ⟨rfl | h1, h2⟩
        · rw [hnd] at h2; cases h2
        · exact ⟨h1, h2⟩
    · intro d l hl
      rw [e4, get?_touch] at hl
      split at hl
      · simp only [Option.some.injEq] at hl; subst hl; simp
      · exact h.dtsNodup d l hl
    · intro k hk
      rw [e4, get?_touch]
      rcases (hseen' k).mp hk with rfl | h1
      · by_cases hc : s.dependents.get? k = none
        · exact ⟨[], by simp [hc]⟩
        · obtain ⟨l, hl⟩ := Option.ne_none_iff_exists'.mp hc
          exact ⟨l, by simp [hl]⟩
      · obtain ⟨l, hl⟩ := h.dtsDom k h1
        exact ⟨l, by
          split
          · rename_i hc; rw [← hc.1] at hl; rw [hc.2] at hl; cases hl
          · exact hl⟩
    · rw [e5, e4, h.wdEq]
    · -- cacheVal
      intro k v
      rw [e6, Map.get?_set, hseen']
      by_cases hkk : key = k
      · subst hkk
        simp only [if_true, Option.some.injEq]
        have hnone : c0.get? key = none := (Map.has_false_iff c0 key).mp hc0
        constructor
        · intro hv; exact Or.inr ⟨hc0, Or.inl trivial, hkd, hv.symm⟩
        · rintro (h1 | ⟨_, _, _, hv⟩)
          · rw [hnone] at h1; cases h1
          · exact hv.symm
      · simp only [hkk, if_false]
        rw [h.cacheVal k v]
        constructor
        · rintro (h1 | ⟨h0, h1, h2, h3⟩)
          · exact Or.inl h1
          · exact Or.inr ⟨h0, Or.inr h1, h2, h3⟩
        · rintro (h1 | ⟨h0, h1 | h1, h2, h3⟩)
          · exact Or.inl h1
          · exact absurd h1.symm hkk
          · exact Or.inr ⟨h0, h1, h2, h3⟩
    · -- readyIff
      intro k
      rw [hR' k, hseen']
      constructor
      · rintro (h1 | ⟨⟨hks, hkk⟩, w, hw, he⟩)
        · obtain ⟨a, b, c⟩ := (h.readyIff k).mp h1
          exact ⟨Or.inr a, b, fun d hd => (hCD' d).mpr (Or.inl (c d hd))⟩
        · refine ⟨Or.inr hks, isTask_of_dep hkk, ?_⟩
          intro d hd
          rw [hCD']
          by_cases hcd : CDc G c0 s d
          · exact Or.inl hcd
          · right
            have : d ∈ w := ((h.waitIff k w hw).2.2.2 d).mpr ⟨hd, hcd⟩
            exact (srem_eq_nil_iff.mp he) d this
      · rintro ⟨hks, hkt, hall⟩
        have hks' : k ∈ s.seen := by
          rcases hks with rfl | h1
          · exact absurd hkt hknt
          · exact h1
        by_cases hold : ∀ d ∈ nodeDeps G k, CDc G c0 s d
        · exact Or.inl ((h.readyIff k).mpr ⟨hks', hkt, hold⟩)
        · right
          have hex : ∃ d ∈ nodeDeps G k, ¬ CDc G c0 s d := by
            apply Classical.byContradiction
            intro hno
            apply hold
            intro d hd
            apply Classical.byContradiction
            intro hcd
            exact hno ⟨d, hd, hcd⟩
          obtain ⟨d0, hd0, hcd0⟩ := hex
          have hd0k : d0 = key := by
            rcases (hCD' d0).mp (hall d0 hd0) with h1 | h1
            · exact absurd h1 hcd0
            · exact h1
          obtain ⟨w, hw⟩ := h.waitCover k hks' hkt ⟨d0, hd0, hcd0⟩
          refine ⟨⟨hks', hd0k ▸ hd0⟩, w, hw, ?_⟩
          rw [srem_eq_nil_iff]
          intro x hx
          obtain ⟨hxd, hxc⟩ := ((h.waitIff k w hw).2.2.2 x).mp hx
          rcases (hCD' x).mp (hall x hxd) with h1 | h1
          · exact absurd h1 hxc
          · exact h1
    · -- waitIff
      intro k w hw
      rw [hW' k] at hw
      rw [hseen']
      by_cases hkL : k ∈ s.seen ∧ key ∈ nodeDeps G k
      · rw [if_pos hkL] at hw
        cases hw0 : s.waiting.get? k with
        | none => rw [hw0] at hw; simp [waitingAfter] at hw
        | some w0 =>
          rw [hw0] at hw
          simp only [waitingAfter] at hw
          split at hw
          · cases hw
          · rename_i hne
            simp only [Option.some.injEq] at hw
            subst hw
            obtain ⟨a, b, _, c⟩ := h.waitIff k w0 hw0
            refine ⟨Or.inr a, b, hne, ?_⟩
            intro d
            rw [mem_srem, c d, hCD']
            constructor
            · rintro ⟨⟨h1, h2⟩, h3⟩
              exact ⟨h1, fun h4 => h4.elim h2 h3⟩
            · rintro ⟨h1, h2⟩
              exact ⟨⟨h1, fun h3 => h2 (Or.inl h3)⟩, fun h3 => h2 (Or.inr h3)⟩
      · rw [if_neg hkL] at hw
        obtain ⟨a, b, c, e⟩ := h.waitIff k w hw
        refine ⟨Or.inr a, b, c, ?_⟩
        intro d
        rw [e d, hCD']
        constructor
        · rintro ⟨h1, h2⟩
          refine ⟨h1, fun h4 => h4.elim h2 ?_⟩
          rintro rfl
          exact hkL ⟨a, h1⟩
        · rintro ⟨h1, h2⟩
          exact ⟨h1, fun h3 => h2 (Or.inl h3)⟩
    · -- waitCover
      intro k hk hkt ⟨d, hd, hcd⟩
      have hks : k ∈ s.seen := by
        rcases (hseen' k).mp hk with rfl | h1
        · exact absurd hkt hknt
        · exact h1
      have hcd0 : ¬ CDc G c0 s d := fun hc => hcd ((hCD' d).mpr (Or.inl hc))
      have hdk : d ≠ key := fun e => hcd ((hCD' d).mpr (Or.inr e))
      obtain ⟨w0, hw0⟩ := h.waitCover k hks hkt ⟨d, hd, hcd0⟩
      rw [hW' k]
      by_cases hkL : k ∈ s.seen ∧ key ∈ nodeDeps G k
      · rw [if_pos hkL, hw0]
        simp only [waitingAfter]
        have hdw : d ∈ w0 := ((h.waitIff k w0 hw0).2.2.2 d).mpr ⟨hd, hcd0⟩
        have hne : srem key w0 ≠ [] := by
          intro he
          exact hdk ((srem_eq_nil_iff.mp he) d hdw)
        exact ⟨srem key w0, by simp [hne]⟩
      · rw [if_neg hkL]
        exact ⟨w0, hw0⟩
    · -- dtsLive
      intro d l hl
      rw [e4, get?_touch] at hl
      rw [hseen']
      split at hl
      · rename_i hc; exact Or.inl (Or.inl hc.1.symm)
      · rcases h.dtsLive d l hl with h1 | h1
        · exact Or.inl (Or.inr h1)
        · exact Or.inr h1
    · -- reach
      intro k hk
      apply h.reach k
      rw [hseen', e1] at hk
      rcases hk with (rfl | h1) | h1
      · exact Or.inr (by rw [hst]; simp)
      · exact Or.inl h1
      · exact Or.inr (by rw [hst]; exact List.mem_cons_of_mem _ h1)
  · unfold measure
    rw [e1, e2, hst]
    have := remSum_cons_le g s.seen key
    simp only [List.length_cons]
    omega

end Dask.Sched
