import DaskModel.Lemmas.SchedTop
/-! `start_state_from_dask` establishes the scheduler invariant (`StartOK`), for every closed graph:
characterisation of its inner loops, a loop invariant for the explicit-stack traversal, sufficiency of the
fuel, and the assembly of `Inv` for the state it returns. -/
namespace Dask.Sched
variable {α : Type}

theorem get?_touch (m : Map (List Key)) (k j : Key) :
    (touch m k).get? j = if k = j ∧ m.get? k = none then some [] else m.get? j := by
  unfold touch
  cases hk : m.get? k with
  | some v =>
    simp only [reduceCtorEq, and_false, if_false]
  | none =>
    simp only [and_true]
    rw [Map.get?_set]

theorem get?_addTo (m : Map (List Key)) (k x j : Key) :
    (addTo m k x).get? j = if k = j then some (sadd x ((m.get? k).getD [])) else m.get? j := by
  unfold addTo
  rw [Map.get?_set]

theorem foldl_sadd_nodup (L acc : List Key) (h : (acc ++ L).Nodup) :
    L.foldl (fun a d => sadd d a) acc = acc ++ L := by
  induction L generalizing acc with
  | nil => simp
  | cons d L ih =>
    simp only [List.foldl_cons]
    have hd : d ∉ acc := by
      intro hmem
      rw [List.nodup_append] at h
      exact h.2.2 d hmem d (by simp) rfl
    have : sadd d acc = acc ++ [d] := by simp [sadd, hd]
    rw [this, ih (acc ++ [d]) (by simpa [List.append_assoc] using h)]
    simp [List.append_assoc]

/-- the `for dep in task.dependencies:` loop of the task branch -/
theorem taskDepsLoop_spec (key : Key) (L : List Key) : ∀ (s : InitSt α), L.Nodup →
    let s' := taskDepsLoop key L s
    s'.stack = L.reverse ++ s.stack ∧ s'.seen = s.seen ∧ s'.readySet = s.readySet ∧ s'.waiting = s.waiting ∧
    s'.cache = s.cache ∧
    (∀ j, s'.dependencies.get? j =
      if key = j ∧ L ≠ [] then some (L.foldl (fun a d => sadd d a) ((s.dependencies.get? key).getD []))
      else s.dependencies.get? j) ∧
    (∀ d, s'.dependents.get? d = if d ∈ L then some (sadd key ((s.dependents.get? d).getD [])) else s.dependents.get? d) ∧
    (s.waitingData = s.dependents → s'.waitingData = s'.dependents) := by
  induction L with
  | nil => intro s _; simp [taskDepsLoop]
  | cons dep L ih =>
    intro s hN
    have hn := List.nodup_cons.mp hN
    simp only [taskDepsLoop]
    obtain ⟨h1, h2, h3, h4, h5, h6, h7, h8⟩ := ih
      { s with dependencies := addTo s.dependencies key dep, dependents := addTo s.dependents dep key,
               waitingData := addTo s.waitingData dep key, stack := dep :: s.stack } hn.2
    refine ⟨by simp [h1], h2, h3, h4, h5, ?_, ?_, ?_⟩
    · intro j
      rw [h6 j]
      simp only [get?_addTo, List.foldl_cons]
      by_cases hkj : key = j
      · subst hkj
        by_cases hL : L = []
        · subst hL; simp
        · simp [hL]
      · simp [hkj]
    · intro d
      rw [h7 d]
      simp only [get?_addTo, List.mem_cons]
      by_cases hdL : d ∈ L
      · have hne : dep ≠ d := fun e => hn.1 (e ▸ hdL)
        simp [hdL, hne]
      · by_cases hdd : dep = d
        · subst hdd; simp [hdL]
        · have : ¬ d = dep := fun e => hdd e.symm
          simp [hdL, hdd, this]
    · intro hw
      apply h8
      show addTo s.waitingData dep key = addTo s.dependents dep key
      rw [hw]

/-- the `for d in dependents[key]:` loop of the DataNode branch -/
theorem dataNodeLoop_spec (key : Key) (L : List Key) : ∀ (s : InitSt α), L.Nodup → s.readySet.Nodup →
    (∀ d ∈ L, ∃ w, s.waiting.get? d = some w ∧ key ∈ w) →
    ∃ s', dataNodeLoop key L s = .ok s' ∧
      (∀ j, s'.waiting.get? j = if j ∈ L then waitingAfter key (s.waiting.get? j) else s.waiting.get? j) ∧
      (∀ j, j ∈ s'.readySet ↔ j ∈ s.readySet ∨ (j ∈ L ∧ ∃ w, s.waiting.get? j = some w ∧ srem key w = [])) ∧
      s'.readySet.Nodup ∧ s'.stack = s.stack ∧ s'.seen = s.seen ∧ s'.dependencies = s.dependencies ∧
      s'.dependents = s.dependents ∧ s'.waitingData = s.waitingData ∧ s'.cache = s.cache := by
  induction L with
  | nil => intro s _ hr _; exact ⟨s, rfl, by simp, by simp, hr, rfl, rfl, rfl, rfl, rfl, rfl⟩
  | cons d rest ih =>
    intro s hN hr hpre
    have hn := List.nodup_cons.mp hN
    obtain ⟨w, hw, hkw⟩ := hpre d (by simp)
    unfold dataNodeLoop
    simp only [hw, hkw, if_true]
    by_cases he : srem key w = []
    · simp only [he, if_true]
      have hpre1 : ∀ x ∈ rest, ∃ w', ({ s with waiting := s.waiting.del d, readySet := sadd d s.readySet } : InitSt α).waiting.get? x = some w' ∧ key ∈ w' := by
        intro x hx
        obtain ⟨w', hw', hk'⟩ := hpre x (List.mem_cons_of_mem _ hx)
        have hne : d ≠ x := fun e => hn.1 (e ▸ hx)
        exact ⟨w', by simp [Map.get?_del, hne, hw'], hk'⟩
      obtain ⟨s', hs', hW, hR, hRN, c1, c2, c3, c4, c5, c6⟩ :=
        ih { s with waiting := s.waiting.del d, readySet := sadd d s.readySet } hn.2 (nodup_sadd hr) hpre1
      refine ⟨s', hs', ?_, ?_, hRN, c1, c2, c3, c4, c5, c6⟩
      · intro j
        rw [hW j]
        by_cases hj : j ∈ rest
        · have hne : d ≠ j := fun e => hn.1 (e ▸ hj)
          simp [hj, Map.get?_del, hne]
        · by_cases hjd : j = d
          · subst hjd
            simp [hj, Map.get?_del, hw, waitingAfter, he]
          · have hne : d ≠ j := fun e => hjd e.symm
            simp [hj, hjd, Map.get?_del, hne]
      · intro j
        rw [hR j]
        simp only [mem_sadd, List.mem_cons, Map.get?_del]
        constructor
        · rintro ((h1 | h1) | ⟨h1, w', hw', he'⟩)
          · exact Or.inr ⟨Or.inl h1, w, by rw [h1]; exact hw, he⟩
          · exact Or.inl h1
          · have hne : d ≠ j := fun e => hn.1 (e ▸ h1)
            simp only [hne, if_false] at hw'
            exact Or.inr ⟨Or.inr h1, w', hw', he'⟩
        · rintro (h1 | ⟨h1 | h1, w', hw', he'⟩)
          · exact Or.inl (Or.inr h1)
          · exact Or.inl (Or.inl h1)
          · have hne : d ≠ j := fun e => hn.1 (e ▸ h1)
            exact Or.inr ⟨h1, w', by simp only [hne, if_false]; exact hw', he'⟩
    · simp only [he, if_false]
      have hpre1 : ∀ x ∈ rest, ∃ w', ({ s with waiting := s.waiting.set d (srem key w) } : InitSt α).waiting.get? x = some w' ∧ key ∈ w' := by
        intro x hx
        obtain ⟨w', hw', hk'⟩ := hpre x (List.mem_cons_of_mem _ hx)
        have hne : d ≠ x := fun e => hn.1 (e ▸ hx)
        exact ⟨w', by simp [Map.get?_set, hne, hw'], hk'⟩
      obtain ⟨s', hs', hW, hR, hRN, c1, c2, c3, c4, c5, c6⟩ :=
        ih { s with waiting := s.waiting.set d (srem key w) } hn.2 hr hpre1
      refine ⟨s', hs', ?_, ?_, hRN, c1, c2, c3, c4, c5, c6⟩
      · intro j
        rw [hW j]
        by_cases hj : j ∈ rest
        · have hne : d ≠ j := fun e => hn.1 (e ▸ hj)
          simp [hj, Map.get?_set, hne]
        · by_cases hjd : j = d
          · subst hjd
            simp [hj, Map.get?_set, hw, waitingAfter, he]
          · have hne : d ≠ j := fun e => hjd e.symm
            simp [hj, hjd, Map.get?_set, hne]
      · intro j
        rw [hR j]
        simp only [List.mem_cons, Map.get?_set]
        constructor
        · rintro (h1 | ⟨h1, w', hw', he'⟩)
          · exact Or.inl h1
          · have hne : d ≠ j := fun e => hn.1 (e ▸ h1)
            simp only [hne, if_false] at hw'
            exact Or.inr ⟨Or.inr h1, w', hw', he'⟩
        · rintro (h1 | ⟨h1 | h1, w', hw', he'⟩)
          · exact Or.inl h1
          · rw [h1, hw] at hw'
            cases hw'
            exact absurd he' he
          · have hne : d ≠ j := fun e => hn.1 (e ▸ h1)
            exact Or.inr ⟨h1, w', by simp only [hne, if_false]; exact hw', he'⟩

/-! ### the loop invariant of `while stack:` -/

/-- hypotheses on the graph: dependencies exist, are listed once, requested keys exist -/
structure GraphOK (g : Graph) (results : List Key) : Prop where
  closed : ∀ k deps d, g.get? k = some (.task deps) → d ∈ deps → ∃ nd, g.get? d = some nd
  depsNodup : ∀ k deps, g.get? k = some (.task deps) → deps.Nodup
  resultsIn : ∀ r ∈ results, ∃ nd, g.get? r = some nd

/-- keys reachable from the request along dependencies -/
inductive Reach (g : Graph) (results : List Key) : Key → Prop where
  | base {r : Key} : r ∈ results → Reach g results r
  | step {j k : Key} : Reach g results j → k ∈ nodeDeps g j → Reach g results k

/-- `d` has been visited and is a data node: its value is in the cache -/
def CD (g : Graph) (s : InitSt α) (d : Key) : Prop := d ∈ s.seen ∧ isData g d

structure IInv (g : Graph) (results : List Key) (P : Params α) (s : InitSt α) : Prop where
  stackGraph : ∀ k ∈ s.stack, ∃ nd, g.get? k = some nd
  seenGraph : ∀ k ∈ s.seen, ∃ nd, g.get? k = some nd
  resCover : ∀ r ∈ results, r ∈ s.seen ∨ r ∈ s.stack
  depCover : ∀ k ∈ s.seen, ∀ d ∈ nodeDeps g k, d ∈ s.seen ∨ d ∈ s.stack
  needed : ∀ k, (k ∈ s.seen ∨ k ∈ s.stack) → k ∈ results ∨ ∃ j ∈ s.seen, k ∈ nodeDeps g j
  depsDom : ∀ k, (∃ ds, s.dependencies.get? k = some ds) ↔ k ∈ s.seen
  depsVal : ∀ k ds, s.dependencies.get? k = some ds → ds = nodeDeps g k
  dtsVal : ∀ d j, j ∈ (s.dependents.get? d).getD [] ↔ (j ∈ s.seen ∧ d ∈ nodeDeps g j)
  dtsNodup : ∀ d l, s.dependents.get? d = some l → l.Nodup
  dtsDom : ∀ k ∈ s.seen, ∃ l, s.dependents.get? k = some l
  wdEq : s.waitingData = s.dependents
  cacheVal : ∀ k v, s.cache.get? k = some v ↔ (k ∈ s.seen ∧ isData g k ∧ v = P.dataVal k)
  readyNodup : s.readySet.Nodup
  readyIff : ∀ k, k ∈ s.readySet ↔ (k ∈ s.seen ∧ isTask g k ∧ ∀ d ∈ nodeDeps g k, CD g s d)
  waitIff : ∀ k w, s.waiting.get? k = some w →
    (k ∈ s.seen ∧ isTask g k ∧ w ≠ [] ∧ ∀ d, d ∈ w ↔ (d ∈ nodeDeps g k ∧ ¬ CD g s d))
  waitCover : ∀ k ∈ s.seen, isTask g k → (∃ d ∈ nodeDeps g k, ¬ CD g s d) → ∃ w, s.waiting.get? k = some w
  dtsLive : ∀ d l, s.dependents.get? d = some l → d ∈ s.seen ∨ l ≠ []
  reach : ∀ k, (k ∈ s.seen ∨ k ∈ s.stack) → Reach g results k

theorem sadd_ne_nil (k : Key) (l : List Key) : sadd k l ≠ [] := by
  intro h
  have : k ∈ sadd k l := mem_sadd.mpr (Or.inl rfl)
  rw [h] at this
  cases this

theorem nodeDeps_data {g : Graph} {k : Key} (h : g.get? k = some .data) : nodeDeps g k = [] := by
  simp [nodeDeps, h]

theorem nodeDeps_task {g : Graph} {k : Key} {deps : List Key} (h : g.get? k = some (.task deps)) :
    nodeDeps g k = deps := by simp [nodeDeps, h]

theorem isTask_of_dep {g : Graph} {k d : Key} (h : d ∈ nodeDeps g k) : isTask g k := by
  unfold nodeDeps at h
  cases hg : g.get? k with
  | none => simp [hg] at h
  | some nd =>
    cases nd with
    | data => simp [hg] at h
    | task deps => exact ⟨deps, hg⟩

theorem getD_touch (m : Map (List Key)) (k j : Key) : ((touch m k).get? j).getD [] = (m.get? j).getD [] := by
  rw [get?_touch]
  split
  · rename_i h
    rw [← h.1, h.2]
    rfl
  · rfl

/-- remaining potential pushes: dependency counts of the graph entries whose key has not been visited -/
def remSum (g : Graph) (seen : List Key) : Nat :=
  ((g.filter (fun p => !(seen.contains p.1))).map (fun p => match p.2 with | .data => 0 | .task deps => deps.length)).sum

def measure (g : Graph) (s : InitSt α) : Nat := s.stack.length + remSum g s.seen

theorem remSum_cons_le (g : Graph) (seen : List Key) (key : Key) : remSum g (key :: seen) ≤ remSum g seen := by
  induction g with
  | nil => simp [remSum]
  | cons a g ih =>
    unfold remSum at ih ⊢
    simp only [List.filter_cons]
    by_cases h1 : seen.contains a.1 = true
    · have : (key :: seen).contains a.1 = true := by
        simp only [List.contains_cons, h1, Bool.or_true]
      simp only [h1, this, Bool.not_true, Bool.false_eq_true, if_false]
      exact ih
    · have h1' : (!(seen.contains a.1)) = true := by simpa using h1
      simp only [h1', if_true, List.map_cons, List.sum_cons]
      by_cases h2 : (key :: seen).contains a.1 = true
      · simp only [h2, Bool.not_true, Bool.false_eq_true, if_false]
        omega
      · have h2' : (!((key :: seen).contains a.1)) = true := by simpa using h2
        simp only [h2', if_true, List.map_cons, List.sum_cons]
        omega

theorem remSum_visit_task (g : Graph) (seen : List Key) (key : Key) (deps : List Key)
    (hk : key ∉ seen) (hg : g.get? key = some (.task deps)) :
    remSum g (key :: seen) + deps.length ≤ remSum g seen := by
  induction g with
  | nil => simp at hg
  | cons a g ih =>
    obtain ⟨k', nd⟩ := a
    rw [Map.get?_cons] at hg
    unfold remSum at ih ⊢
    simp only [List.filter_cons]
    by_cases hkk : k' = key
    · subst hkk
      simp only [if_true, Option.some.injEq] at hg
      subst hg
      have h1 : (!(seen.contains k')) = true := by simpa using hk
      have h2 : (k' :: seen).contains k' = true := by simp
      simp only [h1, h2, if_true, Bool.not_true, Bool.false_eq_true, if_false, List.map_cons, List.sum_cons]
      have := remSum_cons_le g seen k'
      unfold remSum at this
      omega
    · simp only [hkk, if_false] at hg
      have := ih hg
      by_cases h1 : seen.contains k' = true
      · have h2 : (key :: seen).contains k' = true := by simp only [List.contains_cons, h1, Bool.or_true]
        simp only [h1, h2, Bool.not_true, Bool.false_eq_true, if_false]
        exact this
      · have h1' : (!(seen.contains k')) = true := by simpa using h1
        have h2 : (!((key :: seen).contains k')) = true := by
          simp only [List.contains_cons, Bool.not_eq_true', Bool.or_eq_false_iff]
          exact ⟨by simpa using hkk, by simpa using h1⟩
        simp only [h1', h2, if_true, List.map_cons, List.sum_cons]
        omega

end Dask.Sched
