import DaskModel.Lemmas.ReshapeSmoothLemmas
/-! The invariant of `reshape_rechunk`'s walk and its bookkeeping lemmas (C24). -/
namespace Dask.Reshape
open Dask.Chunks Dask.Structural

theorem length_setRange : ∀ (vals : List (List Nat)) (l : List (Option (List Nat))) (start : Nat),
    (setRange l start vals).length = l.length
  | [], _, _ => rfl
  | v :: vs, l, start => by simp [setRange, length_setRange vs]

theorem getElem?_setRange_lt : ∀ (vals : List (List Nat)) (l : List (Option (List Nat))) (start k : Nat), k < start →
    (setRange l start vals)[k]? = l[k]?
  | [], _, _, _, _ => rfl
  | v :: vs, l, start, k, h => by
    simp only [setRange]
    rw [getElem?_setRange_lt vs _ (start + 1) k (by omega), List.getElem?_set_ne (by omega)]

theorem getElem?_setRange_ge : ∀ (vals : List (List Nat)) (l : List (Option (List Nat))) (start k : Nat),
    start + vals.length ≤ k → (setRange l start vals)[k]? = l[k]?
  | [], _, _, _, _ => rfl
  | v :: vs, l, start, k, h => by
    simp only [setRange, List.length_cons] at h ⊢
    rw [getElem?_setRange_ge vs _ (start + 1) k (by omega), List.getElem?_set_ne (by omega)]

theorem getElem?_setRange_mid : ∀ (vals : List (List Nat)) (l : List (Option (List Nat))) (start j : Nat),
    start + vals.length ≤ l.length → j < vals.length → (setRange l start vals)[start + j]? = some (some (vals.getD j []))
  | [], _, _, _, _, h => by simp at h
  | v :: vs, l, start, 0, hl, _ => by
    simp only [setRange, List.length_cons] at hl ⊢
    show (setRange (l.set start (some v)) (start + 1) vs)[start]? = _
    rw [getElem?_setRange_lt vs _ (start + 1) start (by omega), List.getElem?_set_self (by omega)]
    rfl
  | v :: vs, l, start, j + 1, hl, hj => by
    simp only [setRange, List.length_cons] at hl hj ⊢
    have := getElem?_setRange_mid vs (l.set start (some v)) (start + 1) j (by simp; omega) (by omega)
    have e : start + (j + 1) = start + 1 + j := by omega
    rw [e, this]; simp

theorem drop_setRange : ∀ (vals : List (List Nat)) (l : List (Option (List Nat))) (start : Nat),
    start + vals.length ≤ l.length →
    (setRange l start vals).drop start = vals.map some ++ l.drop (start + vals.length) := by
  intro vals l start hl
  apply List.ext_getElem?
  intro k
  rw [List.getElem?_drop]
  by_cases hk : k < vals.length
  · rw [getElem?_setRange_mid vals l start k hl hk, List.getElem?_append_left (by simpa using hk)]
    simp [List.getD_eq_getElem?_getD, List.getElem?_eq_getElem hk]
  · rw [getElem?_setRange_ge vals l start (start + k) (by omega), List.getElem?_append_right (by simp; omega)]
    simp only [List.length_map, List.getElem?_drop]
    congr 1; omega

theorem drop_set_self {β} (l : List β) (i : Nat) (v : β) (h : i < l.length) : (l.set i v).drop i = v :: l.drop (i + 1) := by
  apply List.ext_getElem?
  intro k
  rw [List.getElem?_drop]
  cases k with
  | zero => simp [List.getElem?_set_self h]
  | succ k => rw [List.getElem?_set_ne (by omega)]; simp [List.getElem?_drop]; congr 1; omega


/-! the invariant of the walk -/

/-- the input chunks are chunk tuples of the input shape: non-empty, positive, adding up (what `reshape` passes:
    `x.chunks` after zero-length chunks were dropped) -/
def ValidIn (inshape : List Nat) (inchunks : List (List Nat)) : Prop :=
  inchunks.length = inshape.length ∧
  ∀ (k : Nat) (c : List Nat), inchunks[k]? = some c → c ≠ [] ∧ (∀ x ∈ c, 0 < x) ∧ inshape[k]? = some (sum c)

/-- from axis `lo` on, every axis is assigned a chunk tuple that adds up to the axis length -/
def SumsOK (shape : List Nat) (r : List (Option (List Nat))) (lo : Nat) : Prop :=
  ∀ k, lo ≤ k → k < shape.length → ∃ c, r[k]? = some (some c) ∧ shape[k]? = some (sum c)

def sfx (r : List (Option (List Nat))) (n : Nat) : List (List Nat) := (r.drop n).map (fun c => c.getD [])

structure Inv (inshape outshape : List Nat) (st : RRState) : Prop where
  li : st.ri.length = inshape.length
  lo : st.ro.length = outshape.length
  bi : st.ni ≤ inshape.length
  bo : st.no ≤ outshape.length
  si : SumsOK inshape st.ri st.ni
  so : SumsOK outshape st.ro st.no
  g : groupsOK (sfx st.ri st.ni) (sfx st.ro st.no) st.groups = true

theorem contig_single (c : List Nat) : contig [c] = true := by
  unfold contig; split <;> rfl

theorem lowerAll_single (c : List Nat) : lowerAll [c] = c := by
  simp only [lowerAll, List.map_cons, List.map_nil, Nat.mul_one]
  exact flatMap_singleton _ c |>.trans (List.map_id' c)

theorem groupsOK_append (A' A B' B : List (List Nat)) (gs : List (Nat × Nat)) (h1 : contig A' = true) (h2 : contig B' = true)
    (h3 : lowerAll A' = lowerAll B') (h4 : groupsOK A B gs = true) :
    groupsOK (A' ++ A) (B' ++ B) ((A'.length, B'.length) :: gs) = true := by
  unfold groupsOK
  simp only [List.length_append, List.take_left', List.drop_left', Nat.le_add_right, decide_true, Bool.true_and, h1, h2, h3,
    BEq.rfl, h4, Bool.and_self]

theorem sfx_set_self (r : List (Option (List Nat))) (i : Nat) (c : List Nat) (h : i < r.length) :
    sfx (r.set i (some c)) i = c :: sfx r (i + 1) := by
  unfold sfx; rw [drop_set_self r i _ h]; rfl

theorem sfx_set_lt (r : List (Option (List Nat))) (i n : Nat) (v : Option (List Nat)) (h : i < n) :
    sfx (r.set i v) n = sfx r n := by
  unfold sfx
  congr 1
  apply List.ext_getElem?
  intro k
  rw [List.getElem?_drop, List.getElem?_drop, List.getElem?_set_ne (by omega)]

theorem SumsOK_set_lt {shape : List Nat} {r : List (Option (List Nat))} {n i : Nat} (v : Option (List Nat))
    (h : SumsOK shape r n) (hi : i < n) : SumsOK shape (r.set i v) n := by
  intro k hk hkl
  obtain ⟨c, h1, h2⟩ := h k hk hkl
  exact ⟨c, by rw [List.getElem?_set_ne (by omega)]; exact h1, h2⟩

theorem SumsOK_set_self {shape : List Nat} {r : List (Option (List Nat))} {i : Nat} (c : List Nat)
    (h : SumsOK shape r (i + 1)) (hi : i < r.length) (hs : shape[i]? = some (sum c)) : SumsOK shape (r.set i (some c)) i := by
  intro k hk hkl
  by_cases hki : k = i
  · subst hki; exact ⟨c, List.getElem?_set_self hi, hs⟩
  · obtain ⟨c', h1, h2⟩ := h k (by omega) hkl
    exact ⟨c', by rw [List.getElem?_set_ne (by omega)]; exact h1, h2⟩


/-- `ValidIn`, executable -/
def validInB (inshape : List Nat) (inchunks : List (List Nat)) : Bool :=
  inchunks.length == inshape.length &&
  (List.range inchunks.length).all (fun k =>
    let c := inchunks.getD k []
    !c.isEmpty && c.all (fun x => decide (0 < x)) && inshape[k]? == some (sum c))

theorem ValidIn_of_validInB {inshape : List Nat} {inchunks : List (List Nat)} (h : validInB inshape inchunks = true) :
    ValidIn inshape inchunks := by
  unfold validInB at h
  simp only [Bool.and_eq_true, beq_iff_eq, List.all_eq_true, List.mem_range, Bool.not_eq_true', decide_eq_true_eq] at h
  refine ⟨h.1, fun k c hc => ?_⟩
  have hk : k < inchunks.length := by
    rcases Nat.lt_or_ge k inchunks.length with h1 | h1
    · exact h1
    · rw [List.getElem?_eq_none h1] at hc; cases hc
  have := h.2 k hk
  rw [List.getD_eq_getElem?_getD, hc] at this
  simp only [Option.getD_some] at this
  refine ⟨fun h0 => ?_, this.1.2, this.2⟩
  rw [h0] at this; simp at this

/-! slices, all-ones prefixes -/
theorem findLeft_lt (shape : List Nat) (i t : Nat) : ∀ (n k : Nat), findLeft shape i t n = some k → k < n
  | 0, k, h => by simp [findLeft] at h
  | n + 1, k, h => by
    unfold findLeft at h
    split at h
    · have := findLeft_lt shape i t n k h; omega
    · injection h with h; omega

theorem length_slice {β} (l : List β) (a b : Nat) (hb : b ≤ l.length) : (slice l a b).length = b - a := by
  unfold slice; simp; omega

theorem getElem?_slice {β} (l : List β) (a b j : Nat) (hj : j < b - a) : (slice l a b)[j]? = l[a + j]? := by
  unfold slice
  rw [List.getElem?_take]
  simp [hj]

theorem slice_succ_right {β} (l : List β) (a i : Nat) (x : β) (ha : a ≤ i) (hx : l[i]? = some x) :
    slice l a (i + 1) = slice l a i ++ [x] := by
  have hi : i < l.length := by
    rcases Nat.lt_or_ge i l.length with h | h
    · exact h
    · rw [List.getElem?_eq_none h] at hx; cases hx
  apply List.ext_getElem?
  intro j
  by_cases hj : j < i - a
  · rw [getElem?_slice l a (i + 1) j (by omega), List.getElem?_append_left (by rw [length_slice l a i (by omega)]; exact hj),
      getElem?_slice l a i j hj]
  · by_cases hj2 : j = i - a
    · subst hj2
      rw [getElem?_slice l a (i + 1) _ (by omega), List.getElem?_append_right (by rw [length_slice l a i (by omega)]; exact Nat.le_refl _),
        length_slice l a i (by omega)]
      have : a + (i - a) = i := by omega
      rw [this, hx]; simp
    · rw [List.getElem?_eq_none (by rw [length_slice l a (i + 1) (by omega)]; omega),
        List.getElem?_eq_none (by simp [length_slice l a i (Nat.le_of_lt hi)]; omega)]

theorem slice_succ_left {β} (l : List β) (a b : Nat) (x : β) (hab : a < b) (hx : l[a]? = some x) :
    slice l a b = x :: slice l (a + 1) b := by
  unfold slice
  have ha : a < l.length := by
    rcases Nat.lt_or_ge a l.length with h | h
    · exact h
    · rw [List.getElem?_eq_none h] at hx; cases hx
  rw [List.drop_eq_getElem_cons ha]
  have e : b - a = (b - (a + 1)) + 1 := by omega
  rw [e, List.take_succ_cons]
  rw [List.getElem?_eq_getElem ha] at hx
  injection hx with hx
  rw [hx]

theorem ValidIn_slice_sum {inshape : List Nat} {inchunks : List (List Nat)} (hv : ValidIn inshape inchunks) (a b : Nat)
    (hb : b ≤ inshape.length) : (slice inchunks a b).map sum = slice inshape a b := by
  apply List.ext_getElem?
  intro j
  rw [List.getElem?_map]
  by_cases hj : j < b - a
  · rw [getElem?_slice _ a b j hj, getElem?_slice _ a b j hj]
    have hl : a + j < inchunks.length := by rw [hv.1]; omega
    rw [List.getElem?_eq_getElem hl]
    obtain ⟨_, _, h3⟩ := hv.2 (a + j) _ (List.getElem?_eq_getElem hl)
    rw [h3]; rfl
  · rw [List.getElem?_eq_none (by rw [length_slice _ a b (by rw [hv.1]; exact hb)]; omega),
      List.getElem?_eq_none (by rw [length_slice _ a b hb]; omega)]
    rfl

theorem allOnes_of_pos : ∀ (c : List Nat), (∀ x ∈ c, 0 < x) → c.length = sum c → allOnes c = true
  | [], _, _ => rfl
  | x :: c, hp, hl => by
    have hx := hp x (by simp)
    have hle : c.length ≤ sum c := by
      clear hl
      induction c with
      | nil => simp [sum]
      | cons y c ih =>
        have hy := hp y (by simp)
        have := ih (fun z hz => hp z (by simp at hz ⊢; rcases hz with h | h <;> simp [h]))
        simp only [List.length_cons, sum_cons]; omega
    simp only [List.length_cons, sum_cons] at hl
    have hx1 : x = 1 := by omega
    have := allOnes_of_pos c (fun z hz => hp z (by simp [hz])) (by omega)
    simp only [allOnes, List.all_cons, Bool.and_eq_true, beq_iff_eq] at this ⊢
    exact ⟨hx1, this⟩

theorem contig_append_ones : ∀ (pre : List (List Nat)) (last : List Nat), (∀ c ∈ pre, allOnes c = true) →
    contig (pre ++ [last]) = true
  | [], last, _ => contig_single last
  | c :: pre, last, h => by
    simp only [List.cons_append]
    unfold contig
    rw [if_pos (h c (by simp))]
    exact contig_append_ones pre last (fun d hd => h d (by simp [hd]))

theorem lowerAll_append_ones : ∀ (pre : List (List Nat)) (last : List Nat), (∀ c ∈ pre, allOnes c = true) →
    lowerAll (pre ++ [last]) = (List.replicate (prod (pre.map List.length)) last).flatten
  | [], last, _ => by simp [lowerAll_single, prod]
  | c :: pre, last, h => by
    have hc := allOnes_eq (h c (by simp))
    simp only [List.cons_append, List.map_cons, prod_cons]
    rw [hc, lowerAll_ones, lowerAll_append_ones pre last (fun d hd => h d (by simp [hd])), List.length_replicate]
    generalize prod (pre.map List.length) = P
    generalize c.length = n
    induction n with
    | zero => simp
    | succ n ih => rw [List.replicate_succ, List.flatten_cons, ih, Nat.succ_mul, Nat.add_comm, ← List.replicate_append_replicate, List.flatten_append]

theorem sum_flatten_replicate (n : Nat) (l : List Nat) : sum (List.replicate n l).flatten = n * sum l := by
  induction n with
  | zero => simp [sum]
  | succ n ih => rw [List.replicate_succ, List.flatten_cons, sum_append, ih, Nat.succ_mul]; omega

theorem expandTuple_sum (cs : List Nat) (f : Nat) : sum (expandTuple cs f) = sum cs := by
  unfold expandTuple
  split
  · rfl
  · induction cs with
    | nil => rfl
    | cons c cs ih => simp only [List.flatMap_cons, sum_append, sum_cons, expandLoop_sum, ih]

theorem contig_cons_singles (x : List Nat) (g : List (List Nat)) (h : singles g = true) : contig (x :: g) = true := by
  unfold contig
  split
  · exact contig_singles g h
  · exact h

theorem singles_map_single (l : List Nat) : singles (l.map (fun d => [d])) = true := by
  induction l with
  | nil => rfl
  | cons x l ih => simp [singles] at ih ⊢

theorem map_sum_map_single (l : List Nat) : (l.map (fun d => [d])).map sum = l := by
  induction l with
  | nil => rfl
  | cons x l ih => simp [ih, sum]


theorem sfx_setRange (r : List (Option (List Nat))) (start : Nat) (vals : List (List Nat)) (k : Nat)
    (hk : k ≤ vals.length) (hl : start + vals.length ≤ r.length) :
    sfx (setRange r start vals) (start + k) = vals.drop k ++ sfx r (start + vals.length) := by
  unfold sfx
  have := drop_setRange vals r start hl
  rw [← List.drop_drop, this, List.drop_append_of_le_length (by simpa using hk), List.map_append, ← List.map_drop,
    List.map_map]
  congr 1
  exact List.map_id' _

theorem SumsOK_mono {shape : List Nat} {r : List (Option (List Nat))} {a b : Nat} (h : SumsOK shape r a) (hab : a ≤ b) :
    SumsOK shape r b := fun k hk hkl => h k (by omega) hkl

theorem SumsOK_setRange {shape : List Nat} {r : List (Option (List Nat))} {start : Nat} {vals : List (List Nat)}
    (h : SumsOK shape r (start + vals.length)) (hl : start + vals.length ≤ r.length) (hrl : r.length = shape.length)
    (hs : vals.map sum = slice shape start (start + vals.length)) : SumsOK shape (setRange r start vals) start := by
  intro k hk hkl
  by_cases hk2 : k < start + vals.length
  · have hj : k - start < vals.length := by omega
    have e : k = start + (k - start) := by omega
    refine ⟨vals.getD (k - start) [], ?_, ?_⟩
    · conv => lhs; rw [e]
      exact getElem?_setRange_mid vals r start (k - start) hl hj
    · have h1 : (vals.map sum)[k - start]? = some (sum (vals.getD (k - start) [])) := by
        rw [List.getElem?_map, List.getD_eq_getElem?_getD, List.getElem?_eq_getElem hj]; rfl
      rw [hs, getElem?_slice shape start _ (k - start) (by omega), ← e] at h1
      exact h1
  · obtain ⟨c, h1, h2⟩ := h k (by omega) hkl
    exact ⟨c, by rw [getElem?_setRange_ge vals r start k (by omega)]; exact h1, h2⟩

theorem prod_pos_of_lengths : ∀ (l : List (List Nat)), (∀ c ∈ l, c ≠ []) → 0 < prod (l.map List.length)
  | [], _ => by simp [prod]
  | c :: l, h => by
    simp only [List.map_cons, prod_cons]
    have h1 : 0 < c.length := List.length_pos_iff.2 (h c (by simp))
    have h2 := prod_pos_of_lengths l (fun d hd => h d (by simp [hd]))
    exact Nat.mul_pos h1 h2

theorem mem_slice {β} {l : List β} {a b : Nat} {x : β} (h : x ∈ slice l a b) : ∃ k, a ≤ k ∧ k < b ∧ l[k]? = some x := by
  obtain ⟨j, hj, hx⟩ := List.mem_iff_getElem.1 h
  have hjl : j < b - a := by
    unfold slice at hj; simp at hj; omega
  have := getElem?_slice l a b j hjl
  rw [List.getElem?_eq_getElem hj, hx] at this
  exact ⟨a + j, by omega, by omega, this.symm⟩


end Dask.Reshape
