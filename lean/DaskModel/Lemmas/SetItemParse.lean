import DaskModel.Lemmas.SetItemPlan
import DaskModel.Lemmas.SlicePlan
import DaskModel.Lemmas.SliceNorm
/-! Lemmas for `parse_assignment_indices` (slice branch): reversal of a decreasing slice, implied size. -/
namespace Dask.SetItem
open Dask.Slice1D

theorem pyIndices_normal {n : Nat} {s : PSlice} (hn : Normal n s) :
    pyIndices n s = some ((startStop n s).1, (startStop n s).2, stepOf s) := by
  have hstep := stepOf_eq hn.step_ne
  have h0 : ¬ stepOf s = 0 := stepOf_ne_zero s
  rcases s with ⟨st, sp, se⟩
  have hst := hn.start_ok
  have hsp := hn.stop_ok
  simp only at hstep
  by_cases hp : 0 < stepOf ⟨st, sp, se⟩
  · have h1 : ¬ stepOf ⟨st, sp, se⟩ < 0 := by omega
    simp only [hp, if_true] at hst hsp
    cases st with
    | none =>
      cases sp with
      | none => simp [pyIndices, startStop, ← hstep, hp, h0, h1]; omega
      | some b =>
        have := hsp b rfl
        have hb : ¬ b < 0 := by omega
        simp [pyIndices, startStop, ← hstep, hp, h0, h1, hb]; omega
    | some a =>
      have := hst a rfl
      have ha : ¬ a < 0 := by omega
      cases sp with
      | none => simp [pyIndices, startStop, ← hstep, hp, h0, h1, ha]; omega
      | some b =>
        have := hsp b rfl
        have hb : ¬ b < 0 := by omega
        simp [pyIndices, startStop, ← hstep, hp, h0, h1, ha, hb]; omega
  · have hneg : stepOf ⟨st, sp, se⟩ < 0 := by omega
    simp only [hp, if_false] at hst hsp
    cases st with
    | none =>
      cases sp with
      | none =>
        simp [pyIndices, startStop, ← hstep, hp, h0, hneg]
        refine ⟨?_, ?_⟩ <;> (repeat' split) <;> omega
      | some b =>
        have := hsp b rfl
        have hb : ¬ b < 0 := by omega
        simp [pyIndices, startStop, ← hstep, hp, h0, hneg, hb]
        refine ⟨?_, ?_⟩ <;> (repeat' split) <;> omega
    | some a =>
      have := hst a rfl
      have ha : ¬ a < 0 := by omega
      cases sp with
      | none =>
        simp [pyIndices, startStop, ← hstep, hp, h0, hneg, ha]
        refine ⟨?_, ?_⟩ <;> (repeat' split) <;> omega
      | some b =>
        have := hsp b rfl
        have hb : ¬ b < 0 := by omega
        simp [pyIndices, startStop, ← hstep, hp, h0, hneg, ha, hb]
        refine ⟨?_, ?_⟩ <;> (repeat' split) <;> omega

theorem ceilDivPos_eq_pred_div (x m : Int) (hm : 0 < m) (hx : 0 < x) : ceilDivPos x m = (x - 1) / m + 1 := by
  have hq := Int.emod_add_mul_ediv (x - 1) m   -- (x-1) % m + m * ((x-1)/m) = x - 1
  have hr0 := Int.emod_nonneg (x - 1) (by omega : m ≠ 0)
  have hr1 := Int.emod_lt_of_pos (x - 1) hm
  generalize hqd : (x - 1) / m = q at hq ⊢
  generalize hrd : (x - 1) % m = r at hq hr0 hr1
  unfold ceilDivPos
  by_cases hc : r + 1 = m
  · have h : x / m = q + 1 ∧ x % m = 0 := by
      rw [Int.ediv_emod_unique hm]
      refine ⟨?_, by omega, hm⟩
      rw [Int.mul_add]; omega
    rw [h.1, h.2]; simp
  · have h : x / m = q ∧ x % m = r + 1 := by
      rw [Int.ediv_emod_unique hm]
      exact ⟨by omega, by omega, by omega⟩
    rw [h.1, h.2]
    have : ¬ (r + 1 = 0) := by omega
    simp [this]

/-- a range as an arithmetic progression over its own length -/
theorem rangeUp_eq_map (b m : Int) (hm : 0 < m) : ∀ a,
    rangeUp a b m = (List.range (rangeUp a b m).length).map (fun (i : Nat) => a + m * (i : Int)) := by
  apply rangeUp_induction hm b
  · intro a h; rw [rangeUp_nil h]; rfl
  · intro a h ih
    rw [rangeUp_unfold a b m hm]
    simp only [h, if_true, List.length_cons, List.range_succ_eq_map, List.map_cons, List.map_map]
    congr 1
    · simp
    · conv => lhs; rw [ih]
      apply List.map_congr_left
      intro i _
      simp only [Function.comp, Nat.succ_eq_add_one, Int.natCast_add, Int.mul_add]
      omega

theorem rangeDown_eq_map (s m : Int) (hm : 0 < m) (a : Int) :
    rangeDown a s (-m) = (List.range (rangeDown a s (-m)).length).map (fun (i : Nat) => a - m * (i : Int)) := by
  rw [rangeDown_neg]
  simp only [Int.neg_neg, List.length_map]
  conv => lhs; rw [rangeUp_eq_map (-s) m hm (-a)]
  rw [List.map_map]
  apply List.map_congr_left
  intro i _
  simp only [Function.comp]; omega

theorem reverse_map_range {α : Type} (n : Nat) (f : Nat → α) :
    ((List.range n).map f).reverse = (List.range n).map (fun i => f (n - 1 - i)) := by
  rw [← List.map_reverse]
  conv => lhs; rw [List.range_eq_range', List.reverse_range', List.map_map]
  apply List.map_congr_left
  intro i _
  simp only [Function.comp, Nat.zero_add]

/-- **reversal in `parse_assignment_indices`**: the increasing slice `start - k*m : start + 1 : m` with
    `k = (start - stop - 1) // m` selects the positions of `start : stop : -m` in reverse order. -/
theorem rangeDown_reverse (start stop m : Int) (hm : 0 < m) (h : stop < start) :
    rangeUp (start - ((start - stop - 1) / m) * m) (start + 1) m = (rangeDown start stop (-m)).reverse ∧
    ((rangeDown start stop (-m)).length : Int) = (start - stop - 1) / m + 1 := by
  generalize hk : (start - stop - 1) / m = k
  have hk0 : 0 ≤ k := by rw [← hk]; exact Int.ediv_nonneg (by omega) (by omega)
  have hkm : 0 ≤ k * m := Int.mul_nonneg hk0 (by omega)
  -- lengths
  have hL1 : ((rangeDown start stop (-m)).length : Int) = k + 1 := by
    rw [rangeDown_neg, List.length_map, Int.neg_neg, rangeUp_length _ _ hm _ (by omega)]
    rw [ceilDivPos_eq_pred_div _ _ hm (by omega)]
    have : -stop - -start - 1 = start - stop - 1 := by omega
    rw [this, hk]
  have hL2 : ((rangeUp (start - k * m) (start + 1) m).length : Int) = k + 1 := by
    rw [rangeUp_length _ _ hm _ (by omega), ceilDivPos_eq_pred_div _ _ hm (by omega)]
    have : start + 1 - (start - k * m) - 1 = k * m := by omega
    rw [this, Int.mul_ediv_cancel _ (by omega : m ≠ 0)]
  refine ⟨?_, hL1⟩
  obtain ⟨K, hK⟩ : ∃ K : Nat, (K : Int) = k := ⟨k.toNat, by omega⟩
  have hl1 : (rangeDown start stop (-m)).length = K + 1 := by omega
  have hl2 : (rangeUp (start - k * m) (start + 1) m).length = K + 1 := by omega
  rw [rangeUp_eq_map _ _ hm, rangeDown_eq_map _ _ hm, hl1, hl2, reverse_map_range]
  apply List.map_congr_left
  intro i hi
  have hi' : i < K + 1 := by simpa using hi
  have e : ((K + 1 - 1 - i : Nat) : Int) = (K : Int) - (i : Int) := by omega
  simp only [e]
  rw [Int.mul_sub, hK, Int.mul_comm m k]
  omega


theorem impliedOf_eq (a b st : Int) : impliedOf a b st = ceilDivPos (b - a) st := by
  unfold impliedOf ceilDivPos
  by_cases h1 : (b - a) % st = 0
  · by_cases h2 : (b - a) / st = 0 <;> simp [h1, h2]
  · simp [h1]

theorem pyIndices_ints_pos {n : Nat} {a b st : Int} (hst : 0 < st) (ha : 0 ≤ a) (ha' : a ≤ n) (hb : 0 ≤ b) (hb' : b ≤ n) :
    pyIndices n ⟨some a, some b, some st⟩ = some (a, b, st) := by
  have := @pyIndices_ofInts_pos' n a b st hst ha hb
  simp only [PSlice.ofInts] at this
  rw [this]
  congr 2
  · omega
  · congr 1; omega

theorem parse_pos {n : Nat} {idx : PSlice} {a b st : Int} (hpi : pyIndices n idx = some (a, b, st))
    (hst : 0 < st) (ha : 0 ≤ a) (hab : a ≤ b) (hb : b ≤ n) :
    parseSlice n idx = some ⟨⟨some a, some b, some st⟩, ceilDivPos (b - a) st, false⟩ := by
  have hneg : ¬ st < 0 := by omega
  have hpi2 := @pyIndices_ints_pos n a b st hst ha (by omega) (by omega) hb
  simp only [parseSlice, hpi, hneg, false_and, if_false, hpi2, impliedOf_eq]

theorem reverseSlice_gt (a b st : Int) (h : b < a) :
    reverseSlice a b st =
      (PSlice.ofInts (a - (a - b - 1) / (st * -1) * (st * -1))
        (a - (a - b - 1) / (st * -1) * (st * -1) + (a - b - 1) / (st * -1) * (st * -1) + 1) (st * -1), true) := by
  have : ¬ a ≤ b := by omega
  simp only [reverseSlice, this, if_false]

theorem parse_neg {n : Nat} {idx : PSlice} {a b st : Int} (hpi : pyIndices n idx = some (a, b, st))
    (hst : st < 0) (ha0 : -1 ≤ a) (ha1 : a ≤ (n : Int) - 1) (hb0 : -1 ≤ b) (hb1 : b ≤ (n : Int) - 1)
    (hclip : a = -1 → n = 0) :
    ∃ p, parseSlice n idx = some p ∧
      (a ≤ b → p.index = PSlice.ofInts 0 0 1 ∧ p.implied = 0 ∧ p.reversed = false) ∧
      (b < a → p.index = PSlice.ofInts (a - (a - b - 1) / (-st) * (-st)) (a + 1) (-st) ∧
               p.implied = (a - b - 1) / (-st) + 1 ∧ p.reversed = true) := by
  have hst0 : ¬ st = 0 := by omega
  have hstart : (if a < 0 then max (a + (n : Int)) (-1) else min a ((n : Int) - 1)) = a := by
    by_cases ha : a < 0
    · have h1 : a = -1 := by omega
      have hn := hclip h1
      subst h1; subst hn; simp
    · simp only [ha, if_false]; omega
  have hpi2 : pyIndices n ⟨some a, if st < 0 ∧ b = -1 then none else some b, some st⟩ = some (a, b, st) := by
    by_cases hb : b = -1
    · subst hb
      rw [if_pos ⟨hst, rfl⟩]
      simp only [pyIndices, Option.getD, hst0, if_false, hst, if_true, hstart]
    · have hbn : ¬ b < 0 := by omega
      have hc : ¬ (st < 0 ∧ b = -1) := fun h => hb h.2
      rw [if_neg hc]
      simp only [pyIndices, Option.getD, hst0, if_false, hst, if_true, hbn, hstart]
      congr 2
      congr 1; omega
  by_cases hle : a ≤ b
  · have hrev : reverseSlice a b st = (PSlice.ofInts 0 0 1, false) := by simp only [reverseSlice, hle, if_true]
    have hz : pyIndices n (PSlice.ofInts 0 0 1) = some (0, 0, 1) :=
      pyIndices_ints_pos (by omega) (by omega) (by omega) (by omega) (by omega)
    refine ⟨⟨PSlice.ofInts 0 0 1, impliedOf 0 0 1, false⟩, ?_, ?_, ?_⟩
    · simp only [parseSlice, hpi, hpi2, if_pos hst, hrev, hz]
    · intro _; exact ⟨rfl, by decide, rfl⟩
    · intro h; omega
  · have hlt : b < a := by omega
    have hm : 0 < st * -1 := by omega
    have hme : st * -1 = -st := by omega
    have hrev := reverseSlice_gt a b st hlt
    generalize hmd : st * -1 = m at hm hrev hme
    generalize hk : (a - b - 1) / m = k at hrev
    have hk0 : 0 ≤ k := by rw [← hk]; exact Int.ediv_nonneg (by omega) (by omega)
    have hkm0 : 0 ≤ k * m := Int.mul_nonneg hk0 (by omega)
    have hkm1 : k * m ≤ a - b - 1 := by
      have := Int.emod_add_mul_ediv (a - b - 1) m
      have hr := Int.emod_nonneg (a - b - 1) (by omega : m ≠ 0)
      rw [hk, Int.mul_comm] at this
      omega
    have hfin : pyIndices n (PSlice.ofInts (a - k * m) (a - k * m + k * m + 1) m)
        = some (a - k * m, a - k * m + k * m + 1, m) :=
      pyIndices_ints_pos hm (by omega) (by omega) (by omega) (by omega)
    refine ⟨⟨PSlice.ofInts (a - k * m) (a - k * m + k * m + 1) m, impliedOf (a - k * m) (a - k * m + k * m + 1) m, true⟩, ?_, ?_, ?_⟩
    · simp only [parseSlice, hpi, hpi2, if_pos hst, hrev, hfin]
    · intro h; omega
    · intro _
      rw [← hme, hk]
      refine ⟨?_, ?_, rfl⟩
      · show PSlice.ofInts (a - k * m) (a - k * m + k * m + 1) m = PSlice.ofInts (a - k * m) (a + 1) m
        have e : a - k * m + k * m + 1 = a + 1 := by omega
        rw [e]
      · show impliedOf (a - k * m) (a - k * m + k * m + 1) m = k + 1
        rw [impliedOf_eq, ceilDivPos_eq_pred_div _ _ hm (by omega)]
        have : a - k * m + k * m + 1 - (a - k * m) - 1 = k * m := by omega
        rw [this, Int.mul_ediv_cancel _ (by omega : m ≠ 0)]

/-- **`parse_assignment_indices`, slice branch**: for a normal-form slice (as `normalize_index` hands it over;
    `hcl` = `normalize_slice`'s clamp `stop ≥ start` for positive steps) the reformatted slice has integer
    fields and a positive step, selects the positions of the original slice — in reverse order iff the axis is
    flagged `reverse` — and the implied size is the selection length. -/
theorem parseSlice_spec (n : Nat) (idx : PSlice) (hn : Normal n idx)
    (hcl : 0 < stepOf idx → (startStop n idx).1 ≤ (startStop n idx).2) :
    ∃ p sel, parseSlice n idx = some p ∧ pySliceIdx n idx = some sel ∧
      pySliceIdx n p.index = some (if p.reversed then sel.reverse else sel) ∧
      p.implied = (sel.length : Int) ∧ ∃ a b c, p.index = PSlice.ofInts a b c ∧ 0 < c := by
  have hpi := pyIndices_normal hn
  generalize hss : startStop n idx = ss at hpi hcl
  rcases ss with ⟨a, b⟩
  simp only at hpi hcl
  by_cases hp : 0 < stepOf idx
  · obtain ⟨hsel, h0, h1⟩ := pySliceIdx_normal_pos hn hp
    rw [hss] at hsel h0 h1
    simp only at hsel h0 h1
    have hab := hcl hp
    refine ⟨_, _, parse_pos hpi hp h0 hab h1, hsel, ?_, ?_, ⟨a, b, stepOf idx, rfl, hp⟩⟩
    · simp only [Bool.false_eq_true, if_false]
      exact pySliceIdx_ofInts_pos hp h0 (by omega) (by omega) h1
    · simp only
      rw [rangeUp_length _ _ hp _ hab]
  · have hneg : stepOf idx < 0 := by have := stepOf_ne_zero idx; omega
    obtain ⟨hsel, h0, h1⟩ := pySliceIdx_normal_neg hn hneg
    rw [hss] at hsel h0 h1
    simp only at hsel h0 h1
    obtain ⟨_, _, _, hb⟩ := pyIndices_bounds hpi
    obtain ⟨ha0, ha1, hb0, hb1⟩ := hb hneg
    have hclip : a = -1 → n = 0 := by
      intro ha
      have hst := hn.start_ok
      have e : (startStop n idx).1 = a := by rw [hss]
      cases hs : idx.start with
      | some v =>
        have := hst v hs
        simp only [hp, if_false] at this
        simp only [startStop, hp, if_false, hs, Option.getD] at e
        split at e <;> (try split at e) <;> omega
      | none =>
        simp only [startStop, hp, if_false, hs, Option.getD] at e
        split at e <;> (try split at e) <;> omega
    obtain ⟨p, hparse, hle, hgt⟩ := parse_neg hpi hneg ha0 ha1 hb0 hb1 hclip
    refine ⟨p, _, hparse, hsel, ?_⟩
    by_cases hab : a ≤ b
    · obtain ⟨e1, e2, e3⟩ := hle hab
      rw [e1, e2, e3, rangeDown_nil hab]
      refine ⟨?_, by simp, ⟨0, 0, 1, rfl, by omega⟩⟩
      rw [pySliceIdx_ofInts_pos (by omega) (by omega) (by omega) (by omega) (by omega), rangeUp_nil (by omega)]
      rfl
    · have hlt : b < a := by omega
      obtain ⟨e1, e2, e3⟩ := hgt hlt
      have hm : 0 < -stepOf idx := by omega
      have hrev := rangeDown_reverse a b (-stepOf idx) hm hlt
      rw [Int.neg_neg] at hrev
      rw [e1, e2, e3]
      have hk0 : 0 ≤ (a - b - 1) / (-stepOf idx) := Int.ediv_nonneg (by omega) (by omega)
      have hkm0 : 0 ≤ (a - b - 1) / (-stepOf idx) * (-stepOf idx) := Int.mul_nonneg hk0 (by omega)
      have hkm1 : (a - b - 1) / (-stepOf idx) * (-stepOf idx) ≤ a - b - 1 := by
        have := Int.emod_add_mul_ediv (a - b - 1) (-stepOf idx)
        have hr := Int.emod_nonneg (a - b - 1) (by omega : -stepOf idx ≠ 0)
        rw [Int.mul_comm] at this
        omega
      refine ⟨?_, ?_, ⟨_, _, _, rfl, hm⟩⟩
      · rw [pySliceIdx_ofInts_pos hm (by omega) (by omega) (by omega) (by omega)]
        simp only [if_true]
        rw [hrev.1]
      · rw [hrev.2]

end Dask.SetItem
