import DaskModel.Model.GroupbyX
import DaskModel.Lemmas.GroupbySets
/-! Helper lemmas for C38 (extension): idxmin/idxmax repaired = the lexicographic (value, first position) extremum of the
    whole numbered frame, whatever the partitioning and `split_every`. -/
namespace Dask.GroupbyX
open Dask.Groupby

theorem opLex_assoc (a b c : Int × Nat) : opLex (opLex a b) c = opLex a (opLex b c) := by
  unfold opLex
  split <;> split <;> (try split) <;> (try split) <;> first | rfl | (exfalso; omega)

theorem opLex_comm (a b : Int × Nat) : opLex a b = opLex b a := by
  unfold opLex
  split <;> split <;> first | rfl | (exfalso; omega) | (apply Prod.ext <;> omega)

/-- numbering partition by partition = numbering the whole frame -/
theorem numberFrom_flatten (n : Nat) (parts : List (List (Nat × (Option Int × Int)))) :
    (numberFrom n parts).flatten = (parts.flatten.zipIdx n).map fun ri => (ri.1.1, (ri.1.2.1, ri.2)) := by
  induction parts generalizing n with
  | nil => rfl
  | cons p ps ih => simp only [numberFrom, List.flatten_cons, List.zipIdx_append, List.map_append, ih]

theorem numberFrom_zero_flatten (parts : List (List (Nat × (Option Int × Int)))) :
    (numberFrom 0 parts).flatten = numbered parts.flatten := numberFrom_flatten 0 parts

/-- tree of lexicographic merges over any partitioning = the lexicographic extremum of the whole numbered frame -/
theorem idxRepaired_eq_global (sign : Int) (k : Nat) (hk : 0 < k) (fuel : Nat)
    (parts : List (List (Nat × (Option Int × Int)))) :
    idxRepaired sign k fuel parts = chunk opLex (lexInj sign) (numbered parts.flatten) := by
  unfold idxRepaired
  rw [treeReduce_eq_combine opLex opLex_assoc k hk, combine_chunks opLex opLex_assoc, numberFrom_zero_flatten]

/-- lexicographic `≤` on `(value, position)` -/
def LexLe (s t : Int × Nat) : Prop := s.1 < t.1 ∨ (s.1 = t.1 ∧ s.2 ≤ t.2)

theorem omerge_lex_spec (acc x : Option (Int × Nat)) (t : Int × Nat) (ht : omerge opLex acc x = some t) :
    (acc = some t ∨ x = some t) ∧ ∀ u, (acc = some u ∨ x = some u) → LexLe t u := by
  cases acc with
  | none =>
    simp only [omerge] at ht
    subst ht
    refine ⟨Or.inr rfl, ?_⟩
    rintro u (hu | hu) <;> cases hu
    unfold LexLe; omega
  | some a =>
    cases x with
    | none =>
      simp only [omerge, Option.some.injEq] at ht
      subst ht
      refine ⟨Or.inl rfl, ?_⟩
      rintro u (hu | hu) <;> cases hu
      unfold LexLe; omega
    | some b =>
      simp only [omerge, opLex, Option.some.injEq] at ht
      split at ht <;> subst ht
      · refine ⟨Or.inr rfl, ?_⟩
        rintro u (hu | hu) <;> cases hu <;> unfold LexLe <;> omega
      · refine ⟨Or.inl rfl, ?_⟩
        rintro u (hu | hu) <;> cases hu <;> unfold LexLe <;> omega

theorem foldl_lex_spec (xs : List (Option (Int × Nat))) :
    ∀ (acc : Option (Int × Nat)) (s : Int × Nat), xs.foldl (omerge opLex) acc = some s →
      (acc = some s ∨ some s ∈ xs) ∧ ∀ t, (acc = some t ∨ some t ∈ xs) → s.1 < t.1 ∨ (s.1 = t.1 ∧ s.2 ≤ t.2) := by
  induction xs with
  | nil =>
    intro acc s h
    simp only [List.foldl_nil] at h
    subst h
    refine ⟨Or.inl rfl, ?_⟩
    rintro t (ht | ht)
    · cases ht; omega
    · simp at ht
  | cons x xs ih =>
    intro acc s h
    simp only [List.foldl_cons] at h
    obtain ⟨hm, hle⟩ := ih _ s h
    constructor
    · rcases hm with hm | hm
      · rcases (omerge_lex_spec acc x s hm).1 with h1 | h1
        · exact Or.inl h1
        · exact Or.inr (by rw [h1]; exact List.mem_cons_self)
      · exact Or.inr (List.mem_cons_of_mem _ hm)
    · have hacc : ∀ u, (acc = some u ∨ x = some u) → s.1 < u.1 ∨ (s.1 = u.1 ∧ s.2 ≤ u.2) := by
        intro u hu
        cases hq : omerge opLex acc x with
        | none => cases acc <;> cases x <;> simp [omerge] at hq hu
        | some q =>
          have h1 := (omerge_lex_spec acc x q hq).2 u hu
          have h2 := hle q (Or.inl hq)
          unfold LexLe at h1
          omega
      rintro t (ht | ht)
      · exact hacc t (Or.inl ht)
      · rcases List.mem_cons.1 ht with ht | ht
        · exact hacc t (Or.inr ht.symm)
        · exact hle t (Or.inr ht)

/-- membership in the injected states of group `key` of the numbered frame = a row of the group holding a value -/
theorem mem_lex_states (sign : Int) (rows : List (Nat × (Option Int × Int))) (key : Nat) (m : Int) (p : Nat) :
    some (m, p) ∈ ((numbered rows).filter fun r => r.1 == key).map (fun r => lexInj sign r.2) ↔
      ∃ v l, rows[p]? = some (key, (some v, l)) ∧ m = sign * v := by
  simp only [numbered, List.mem_map, List.mem_filter, beq_iff_eq]
  constructor
  · rintro ⟨r, ⟨⟨⟨⟨k', c, l⟩, i⟩, hmem, rfl⟩, hk⟩, hinj⟩
    rw [List.mem_zipIdx_iff_getElem?] at hmem
    simp only at hk hmem hinj
    subst hk
    cases c with
    | none => simp [lexInj] at hinj
    | some v =>
      simp only [lexInj, Option.map_some, Option.some.injEq, Prod.mk.injEq] at hinj
      obtain ⟨rfl, rfl⟩ := hinj
      exact ⟨v, l, hmem, rfl⟩
  · rintro ⟨v, l, hp, rfl⟩
    exact ⟨(key, (some v, p)), ⟨⟨((key, (some v, l)), p), List.mem_zipIdx_iff_getElem?.2 hp, rfl⟩, rfl⟩, by simp [lexInj]⟩

/-- what the state means: the row at position `p` is a row of group `key` holding the value, and every row of the group
    has a lexicographically larger-or-equal (sign*value, position) -/
theorem chunk_lex_spec (sign : Int) (rows : List (Nat × (Option Int × Int))) (key : Nat) (m : Int) (p : Nat)
    (h : chunk opLex (lexInj sign) (numbered rows) key = some (m, p)) :
    (∃ v l, rows[p]? = some (key, (some v, l)) ∧ m = sign * v) ∧
    ∀ p' v' l', rows[p']? = some (key, (some v', l')) → m < sign * v' ∨ (m = sign * v' ∧ p ≤ p') := by
  unfold chunk fold1 at h
  obtain ⟨hm, hle⟩ := foldl_lex_spec _ none (m, p) h
  constructor
  · rcases hm with hm | hm
    · cases hm
    · exact (mem_lex_states sign rows key m p).1 hm
  · intro p' v' l' hv
    exact hle (sign * v', p') (Or.inr ((mem_lex_states sign rows key (sign * v') p').2 ⟨v', l', hv, rfl⟩))

theorem foldl_omerge_none {M : Type} (op : M → M → M) (xs : List (Option M)) :
    ∀ acc, xs.foldl (omerge op) acc = none → acc = none ∧ ∀ t, some t ∉ xs := by
  induction xs with
  | nil => intro acc h; exact ⟨h, by simp⟩
  | cons x xs ih =>
    intro acc h
    obtain ⟨h1, h2⟩ := ih _ h
    cases acc <;> cases x <;> simp_all [omerge]

/-- no value at all in the group ⇔ no state -/
theorem chunk_lex_none (sign : Int) (rows : List (Nat × (Option Int × Int))) (key : Nat) :
    chunk opLex (lexInj sign) (numbered rows) key = none ↔
      ∀ (p : Nat) (v l : Int), rows[p]? ≠ some (key, (some v, l)) := by
  constructor
  · intro h p v l hp
    unfold chunk fold1 at h
    exact (foldl_omerge_none opLex _ none h).2 (sign * v, p) ((mem_lex_states sign rows key _ p).2 ⟨v, l, hp, rfl⟩)
  · intro h
    cases hc : chunk opLex (lexInj sign) (numbered rows) key with
    | none => rfl
    | some s =>
      obtain ⟨⟨v, l, hp, _⟩, _⟩ := chunk_lex_spec sign rows key s.1 s.2 hc
      exact absurd hp (h _ v l)

example : idxRepaired 1 2 5 [[(0, (some 5, 10))], [(0, (some 1, 11)), (1, (some 0, 12))], [(0, (some 1, 13))]] 0
    = some (1, 1) := by decide
example : idxRepaired (-1) 2 5 [[(0, (some 5, 10))], [(0, (some 1, 11)), (1, (some 0, 12))], [(0, (some 1, 13))]] 0
    = some (-5, 0) := by decide

end Dask.GroupbyX
