import DaskModel.Lemmas.ToposortTotal
/-! Totality of `_toposort`, part 2: the priorities handed out while popping are strictly ordered by (last) stack
position, every in-play node other than the re-seen one has an in-play dependent of strictly smaller priority, hence
the greedy `min` walk closes the cycle within its fuel. -/
namespace Dask.GraphAlg

/-! ### `dset` / priorities -/

theorem dset_lookup (p : List (Key × Int)) (k : Key) (v : Int) (k' : Key) :
    (dset p k v).lookup k' = if k' = k then some v else p.lookup k' := by
  induction p with
  | nil =>
    simp only [dset, List.lookup]
    by_cases h : k' = k
    · subst h; simp
    · have : (k' == k) = false := by simpa using h
      simp [this, h]
  | cons e rest ih =>
    obtain ⟨k0, v0⟩ := e
    simp only [dset]
    split
    · rename_i h0
      subst h0
      simp only [List.lookup]
      by_cases h : k' = k0
      · subst h; simp
      · have : (k' == k0) = false := by simpa using h
        simp [this, h]
    · rename_i h0
      simp only [List.lookup]
      by_cases h : k' = k0
      · subst h
        have : k' ≠ k := fun e => h0 e
        simp [this]
      · have : (k' == k0) = false := by simpa using h
        simp only [this, ih]

theorem dset_keys (p : List (Key × Int)) (k : Key) (v : Int) (k' : Key) :
    k' ∈ (dset p k v).map Prod.fst ↔ k' ∈ p.map Prod.fst ∨ k' = k := by
  induction p with
  | nil => simp [dset]
  | cons e rest ih =>
    obtain ⟨k0, v0⟩ := e
    simp only [dset]
    split
    · rename_i h0; subst h0
      simp only [List.map_cons, List.mem_cons]
      constructor
      · rintro (h | h)
        · exact Or.inr h
        · exact Or.inl (Or.inr h)
      · rintro ((h | h) | h)
        · exact Or.inl h
        · exact Or.inr h
        · exact Or.inl h
    · simp only [List.map_cons, List.mem_cons, ih]
      constructor
      · rintro (h | h | h)
        · exact Or.inl (Or.inl h)
        · exact Or.inl (Or.inr h)
        · exact Or.inr h
      · rintro ((h | h) | h)
        · exact Or.inl h
        · exact Or.inr (Or.inl h)
        · exact Or.inr (Or.inr h)

theorem dset_keys_nodup (p : List (Key × Int)) (k : Key) (v : Int) (h : (p.map Prod.fst).Nodup) :
    ((dset p k v).map Prod.fst).Nodup := by
  induction p with
  | nil => simp [dset]
  | cons e rest ih =>
    obtain ⟨k0, v0⟩ := e
    simp only [List.map_cons, List.nodup_cons] at h
    simp only [dset]
    split
    · rename_i h0; subst h0
      simp only [List.map_cons, List.nodup_cons]; exact h
    · rename_i h0
      simp only [List.map_cons, List.nodup_cons]
      refine ⟨?_, ih h.2⟩
      intro hm
      rcases (dset_keys rest k v k0).mp hm with hm | hm
      · exact h.1 hm
      · exact h0 hm

/-- the priorities after popping the list `L` with the counter starting at `np` -/
def prioFold : List (Key × Int) → Nat → List Key → List (Key × Int)
  | p, _, [] => p
  | p, np, x :: xs => prioFold (dset p x (-(np : Int))) (np + 1) xs

theorem popUntil_eq (nxt : Key) : ∀ (L post : List Key) (p : List (Key × Int)) (np : Nat), nxt ∉ L →
    popUntil nxt (L ++ nxt :: post) p np = some (nxt :: post, prioFold p np L, np + L.length)
  | [], post, p, np, _ => by simp [popUntil, prioFold]
  | x :: L, post, p, np, h => by
    have hx : x ≠ nxt := fun e => h (by simp [e])
    have hL : nxt ∉ L := fun e => h (by simp [e])
    simp only [List.cons_append, popUntil, hx, if_false, prioFold, List.length_cons]
    rw [popUntil_eq nxt L post _ _ hL]
    have : np + 1 + L.length = np + (L.length + 1) := by omega
    rw [this]

theorem prioFold_append (p : List (Key × Int)) (np : Nat) (L M : List Key) :
    prioFold p np (L ++ M) = prioFold (prioFold p np L) (np + L.length) M := by
  induction L generalizing p np with
  | nil => simp [prioFold]
  | cons x L ih =>
    simp only [List.cons_append, prioFold, List.length_cons, ih]
    congr 1
    omega

theorem prioFold_keys : ∀ (L : List Key) (p : List (Key × Int)) (np : Nat) (k : Key),
    k ∈ (prioFold p np L).map Prod.fst ↔ k ∈ p.map Prod.fst ∨ k ∈ L
  | [], p, np, k => by simp [prioFold]
  | x :: L, p, np, k => by
    simp only [prioFold, prioFold_keys L, dset_keys, List.mem_cons]
    constructor
    · rintro ((h | h) | h)
      · exact Or.inl h
      · exact Or.inr (Or.inl h)
      · exact Or.inr (Or.inr h)
    · rintro (h | h | h)
      · exact Or.inl (Or.inl h)
      · exact Or.inl (Or.inr h)
      · exact Or.inr h

theorem prioFold_nodup : ∀ (L : List Key) (p : List (Key × Int)) (np : Nat), (p.map Prod.fst).Nodup →
    ((prioFold p np L).map Prod.fst).Nodup
  | [], _, _, h => h
  | x :: L, p, np, h => prioFold_nodup L _ _ (dset_keys_nodup p x _ h)

theorem prioFold_lookup_notin : ∀ (L : List Key) (p : List (Key × Int)) (np : Nat) (k : Key), k ∉ L →
    (prioFold p np L).lookup k = p.lookup k
  | [], _, _, _, _ => rfl
  | x :: L, p, np, k, h => by
    have hx : k ≠ x := fun e => h (by simp [e])
    have hL : k ∉ L := fun e => h (by simp [e])
    simp only [prioFold, prioFold_lookup_notin L _ _ k hL, dset_lookup, hx, if_false]

/-- the priority of a key is minus the (counter at the) position of its *last* occurrence -/
theorem prioFold_lookup_last : ∀ (A B : List Key) (p : List (Key × Int)) (np : Nat) (k : Key), k ∉ B →
    (prioFold p np (A ++ k :: B)).lookup k = some (-((np + A.length : Nat) : Int))
  | [], B, p, np, k, h => by
    simp only [List.nil_append, prioFold, prioFold_lookup_notin B _ _ k h, dset_lookup, if_true, List.length_nil,
      Nat.add_zero]
  | a :: A, B, p, np, k, h => by
    simp only [List.cons_append, prioFold, prioFold_lookup_last A B _ _ k h, List.length_cons]
    congr 2
    omega

theorem exists_last_occurrence : ∀ (M : List Key) (x : Key), x ∈ M → ∃ A B, M = A ++ x :: B ∧ x ∉ B
  | [], _, h => by simp at h
  | y :: M, x, h => by
    by_cases hx : x ∈ M
    · obtain ⟨A, B, h1, h2⟩ := exists_last_occurrence M x hx
      exact ⟨y :: A, B, by simp [h1], h2⟩
    · rcases List.mem_cons.mp h with rfl | h
      · exact ⟨[], M, rfl, hx⟩
      · exact absurd h hx

/-- any occurrence is at or before the last one -/
theorem occurrence_le_last : ∀ (A1 B1 A2 B2 : List Key) (t : Key), A1 ++ t :: B1 = A2 ++ t :: B2 → t ∉ B2 →
    A1.length ≤ A2.length
  | [], _, _, _, _, _, _ => Nat.zero_le _
  | a :: A1, B1, [], B2, t, h, hn => by
    simp only [List.cons_append, List.nil_append, List.cons.injEq] at h
    exfalso; apply hn; rw [← h.2]; simp
  | a :: A1, B1, b :: A2, B2, t, h, hn => by
    simp only [List.cons_append, List.cons.injEq] at h
    have := occurrence_le_last A1 B1 A2 B2 t h.2 hn
    simp only [List.length_cons]; omega

/-! ### argmin -/

theorem argminPrio_some (prio : List (Key × Int)) : ∀ (xs : List Key), xs ≠ [] → ∃ p, argminPrio prio xs = some p
  | [], h => absurd rfl h
  | x :: xs, _ => by
    unfold argminPrio
    cases argminPrio prio xs with
    | none => exact ⟨x, rfl⟩
    | some y =>
      simp only
      split
      · exact ⟨x, rfl⟩
      · exact ⟨y, rfl⟩

theorem argminPrio_le (prio : List (Key × Int)) : ∀ (xs : List Key) {p : Key}, argminPrio prio xs = some p →
    ∀ x ∈ xs, prioOf prio p ≤ prioOf prio x
  | [], _, h, _, _ => by simp [argminPrio] at h
  | y :: ys, p, h, x, hx => by
    unfold argminPrio at h
    cases hr : argminPrio prio ys with
    | none =>
      rw [hr] at h
      simp only [Option.some.injEq] at h; subst h
      rcases List.mem_cons.mp hx with rfl | hx
      · exact Int.le_refl _
      · cases ys with
        | nil => simp at hx
        | cons z zs =>
          obtain ⟨q, hq⟩ := argminPrio_some prio (z :: zs) (by simp)
          rw [hq] at hr; cases hr
    | some q =>
      rw [hr] at h
      simp only at h
      have ih := argminPrio_le prio ys hr
      split at h
      · rename_i hle
        simp only [Option.some.injEq] at h; subst h
        rcases List.mem_cons.mp hx with rfl | hx
        · exact Int.le_refl _
        · exact Int.le_trans hle (ih x hx)
      · rename_i hnle
        simp only [Option.some.injEq] at h; subst h
        rcases List.mem_cons.mp hx with rfl | hx
        · omega
        · exact ih x hx

end Dask.GraphAlg

namespace Dask.GraphAlg

/-! ### every in-play node has an in-play dependent of smaller priority -/

theorem split_before_nxt {B0 post mid rest' : List Key} {nxt t : Key}
    (h : B0 ++ nxt :: post = mid ++ t :: rest') (hn : nxt ∉ mid) : ∃ B'', B0 ++ [nxt] = mid ++ t :: B'' := by
  induction B0 generalizing mid with
  | nil =>
    cases mid with
    | nil =>
      simp only [List.nil_append, List.cons.injEq] at h
      exact ⟨[], by simp [h.1]⟩
    | cons m mid' =>
      simp only [List.nil_append, List.cons_append, List.cons.injEq] at h
      exact absurd (by simp [h.1]) hn
  | cons b B0 ih =>
    cases mid with
    | nil =>
      simp only [List.cons_append, List.nil_append, List.cons.injEq] at h
      exact ⟨B0 ++ [nxt], by simp [h.1]⟩
    | cons m mid' =>
      simp only [List.cons_append, List.cons.injEq] at h
      obtain ⟨B'', hB⟩ := ih h.2 (fun hc => hn (List.mem_cons_of_mem _ hc))
      exact ⟨B'', by simp [h.1, hB]⟩

theorem pusher_lower {g : Graph} {s : St} (hi : Inv2 g s) {L post : List Key} {nxt : Key}
    (hnodes : s.nodes = L ++ nxt :: post) (hnL : nxt ∉ L) (hns : nxt ∈ s.seen) :
    ∀ v ∈ L, ∃ t ∈ L ++ [nxt], Edge g t v ∧
      prioOf (prioFold [] 0 (L ++ [nxt])) t < prioOf (prioFold [] 0 (L ++ [nxt])) v := by
  intro v hv
  obtain ⟨A, B0, hL, hvB⟩ := exists_last_occurrence L v hv
  have hvn : v ≠ nxt := fun e => hnL (e ▸ hv)
  have hvB' : v ∉ B0 ++ [nxt] := by
    intro hc
    rcases List.mem_append.mp hc with hc | hc
    · exact hvB hc
    · simp at hc; exact hvn hc
  have hdec : s.nodes = A ++ v :: (B0 ++ nxt :: post) := by rw [hnodes, hL]; simp
  obtain ⟨mid, t, rest', e1, e2, e3, e4, e5⟩ := hi.pusher A v (B0 ++ nxt :: post) hdec (by simp)
  have hnmid : nxt ∉ mid := by
    intro hc
    have := e5 nxt hc hns
    apply hnL
    rw [hL]
    rcases List.mem_append.mp this with h | h
    · exact List.mem_append_left _ h
    · simp at h; subst h; simp
  obtain ⟨B'', hB⟩ := split_before_nxt e1 hnmid
  have hM : L ++ [nxt] = (A ++ v :: mid) ++ t :: B'' := by
    rw [hL]; simp only [List.append_assoc, List.cons_append]; rw [hB]
  have htM : t ∈ L ++ [nxt] := by rw [hM]; simp
  obtain ⟨A2, B2, hM2, htB2⟩ := exists_last_occurrence (L ++ [nxt]) t htM
  have hle := occurrence_le_last (A ++ v :: mid) B'' A2 B2 t (by rw [← hM, hM2]) htB2
  have hlv : (prioFold [] 0 (L ++ [nxt])).lookup v = some (-((0 + A.length : Nat) : Int)) := by
    have : L ++ [nxt] = A ++ v :: (B0 ++ [nxt]) := by rw [hL]; simp
    rw [this]
    exact prioFold_lookup_last A (B0 ++ [nxt]) [] 0 v hvB'
  have hlt : (prioFold [] 0 (L ++ [nxt])).lookup t = some (-((0 + A2.length : Nat) : Int)) := by
    rw [hM2]
    exact prioFold_lookup_last A2 B2 [] 0 t htB2
  refine ⟨t, htM, e3, ?_⟩
  simp only [prioOf, hlv, hlt, Option.getD_some]
  simp only [List.length_append, List.length_cons] at hle
  omega

/-! ### the walk closes the cycle -/

theorem filter_length_le {α : Type} (P Q : α → Bool) : ∀ (l : List α), (∀ x ∈ l, P x = true → Q x = true) →
    (l.filter P).length ≤ (l.filter Q).length
  | [], _ => by simp
  | a :: l, himp => by
    have ih := filter_length_le P Q l (fun x hx => himp x (List.mem_cons_of_mem _ hx))
    by_cases hp : P a = true
    · have hq := himp a (by simp) hp
      rw [List.filter_cons_of_pos hp, List.filter_cons_of_pos hq]
      simp only [List.length_cons]; omega
    · rw [List.filter_cons_of_neg hp]
      by_cases hq : Q a = true
      · rw [List.filter_cons_of_pos hq]; simp only [List.length_cons]; omega
      · rw [List.filter_cons_of_neg hq]; exact ih

theorem filter_length_lt {α : Type} (P Q : α → Bool) : ∀ (l : List α), (∀ x ∈ l, P x = true → Q x = true) →
    (∃ x ∈ l, Q x = true ∧ P x = false) → (l.filter P).length < (l.filter Q).length
  | [], _, h => by obtain ⟨x, hx, _⟩ := h; simp at hx
  | a :: l, himp, hex => by
    have himp' : ∀ x ∈ l, P x = true → Q x = true := fun x hx => himp x (List.mem_cons_of_mem _ hx)
    have hle := filter_length_le P Q l himp'
    obtain ⟨x, hx, hqx, hpx⟩ := hex
    rcases List.mem_cons.mp hx with rfl | hx
    · have hpx' : ¬ (P x = true) := by simp [hpx]
      rw [List.filter_cons_of_neg hpx', List.filter_cons_of_pos hqx]
      simp only [List.length_cons]; omega
    · have ih := filter_length_lt P Q l himp' ⟨x, hx, hqx, hpx⟩
      by_cases hp : P a = true
      · have hq := himp a (by simp) hp
        rw [List.filter_cons_of_pos hp, List.filter_cons_of_pos hq]
        simp only [List.length_cons]; omega
      · rw [List.filter_cons_of_neg hp]
        by_cases hq : Q a = true
        · rw [List.filter_cons_of_pos hq]; simp only [List.length_cons]; omega
        · rw [List.filter_cons_of_neg hq]; exact ih

/-- number of in-play nodes with a priority below that of `v` -/
def below (inplay : List Key) (prio : List (Key × Int)) (v : Key) : Nat :=
  (inplay.filter (fun k => decide (prioOf prio k < prioOf prio v))).length

theorem walk_total {g : Graph} {inplay : List Key} {prio : List (Key × Int)} {target : Key}
    (H : ∀ v ∈ inplay, v ≠ target → ∃ t ∈ inplay, Edge g t v ∧ prioOf prio t < prioOf prio v) :
    ∀ (fuel : Nat) (acc : List Key) (prev : Key), prev ∈ inplay → acc.head? = some prev →
      below inplay prio prev < fuel → ∃ c, walk g inplay prio target fuel acc prev = .cycle c
  | 0, _, _, _, _, h => by omega
  | fuel + 1, acc, prev, hp, hh, hb => by
    unfold walk
    split
    · exact ⟨acc, rfl⟩
    · rename_i hpt
      cases acc with
      | nil => simp at hh
      | cons last tl =>
        simp only [List.head?_cons, Option.some.injEq] at hh
        subst hh
        obtain ⟨t, ht, hedge, hlt⟩ := H last hp hpt
        have htd : t ∈ dependentsIn g inplay last := by
          unfold dependentsIn
          rw [List.mem_filter]
          refine ⟨ht, ?_⟩
          obtain ⟨ds, hds, hm⟩ := hedge
          simp [hds, hm]
        obtain ⟨p, hp'⟩ := argminPrio_some prio (dependentsIn g inplay last) (List.ne_nil_of_mem htd)
        simp only [hp']
        have hpm := argminPrio_mem prio _ hp'
        have hple := argminPrio_le prio _ hp' t htd
        have hpin := (dependentsIn_edge hpm).1
        have hplt : prioOf prio p < prioOf prio last := by omega
        refine walk_total H fuel (p :: last :: tl) p hpin rfl ?_
        have : below inplay prio p < below inplay prio last := by
          unfold below
          apply filter_length_lt
          · intro x _ hx
            simp only [decide_eq_true_eq] at hx ⊢
            omega
          · exact ⟨p, hpin, by simpa using hplt, by simp⟩
        omega

theorem extractCycle_total {g : Graph} {s : St} (hi : Inv2 g s) {cur nxt : Key} {rest : List Key}
    (hn : s.nodes = cur :: rest) (hnxt : nxt = cur ∨ nxt ∈ s.seen) :
    ∃ c, extractCycle g s.nodes nxt = .cycle c := by
  rw [hn]
  unfold extractCycle
  simp only
  by_cases hc : cur = nxt
  · subst hc
    have he : (deps? g cur).isSome := hi.entries cur (by simp [hn])
    simp [popUntil, dset, he, walk]
  · have hns : nxt ∈ s.seen := by
      rcases hnxt with h | h
      · exact absurd h.symm hc
      · exact h
    obtain ⟨L, post, hdec, hnL, _⟩ := hi.seenAbove nxt hns
    rw [hn] at hdec
    rw [hdec, popUntil_eq nxt L post [] 0 hnL]
    simp only
    have hprio : dset (prioFold [] 0 L) nxt (-((0 + L.length : Nat) : Int)) = prioFold [] 0 (L ++ [nxt]) := by
      rw [prioFold_append]; simp [prioFold]
    rw [hprio]
    have hkeys : ∀ k, k ∈ (prioFold [] 0 (L ++ [nxt])).map Prod.fst ↔ k ∈ L ++ [nxt] := by
      intro k; rw [prioFold_keys]; simp
    have hall : ((prioFold [] 0 (L ++ [nxt])).map Prod.fst).all (fun k => (deps? g k).isSome) = true := by
      rw [List.all_eq_true]
      intro k hk
      have hk' := (hkeys k).mp hk
      apply hi.entries
      rw [hn, hdec]
      rcases List.mem_append.mp hk' with h | h
      · exact List.mem_append_left _ h
      · simp at h; subst h; simp
    rw [if_pos hall]
    have hcurL : cur ∈ L := by
      cases L with
      | nil => simp at hdec; exact absurd hdec.1 hc
      | cons a L' => simp at hdec; simp [hdec.1]
    apply walk_total (g := g)
    · intro v hv hvt
      have hv' := (hkeys v).mp hv
      have hvL : v ∈ L := by
        rcases List.mem_append.mp hv' with h | h
        · exact h
        · simp at h; exact absurd h hvt
      obtain ⟨t, ht, he, hlt⟩ := pusher_lower hi (by rw [hn, hdec]) hnL hns v hvL
      exact ⟨t, (hkeys t).mpr ht, he, hlt⟩
    · exact (hkeys _).mpr (List.mem_append_left _ hcurL)
    · rfl
    · exact Nat.lt_succ_of_le (List.length_filter_le _ _)

end Dask.GraphAlg

namespace Dask.GraphAlg

/-! ### totality of the loops -/

theorem step_total {g : Graph} (hcl : Closed g) {s : St} (hi : Inv2 g s) (hne : s.nodes ≠ []) :
    (∃ s', step g s = .cont s') ∨ (∃ c, step g s = .done (.cycle c)) := by
  unfold step
  split
  · rename_i hn; exact absurd hn hne
  · rename_i cur rest hn
    split
    · exact Or.inl ⟨_, rfl⟩
    · simp only
      have he := hi.entries cur (by simp [hn])
      cases hds : deps? g cur with
      | none => rw [hds] at he; simp at he
      | some ds =>
        simp only
        split
        · rename_i nxt hnxt
          have hm := List.find?_some hnxt
          have hnx : nxt = cur ∨ nxt ∈ s.seen := mem_seen'.mp (by simpa using hm)
          obtain ⟨c, hc⟩ := extractCycle_total hi hn hnx
          exact Or.inr ⟨c, by rw [hc]⟩
        · split
          · exact Or.inl ⟨_, rfl⟩
          · exact Or.inl ⟨_, rfl⟩

theorem inner_total {g : Graph} (hcl : Closed g) : ∀ (fuel : Nat) (s : St), Inv2 g s → phi g s < fuel →
    (∃ s', inner g fuel s = .ok s' ∧ Inv2 g s' ∧ s'.nodes = []) ∨ (∃ c, inner g fuel s = .error (.cycle c))
  | 0, _, _, h => by omega
  | fuel + 1, s, hi, hf => by
    unfold inner
    split
    · rename_i he
      exact Or.inl ⟨s, rfl, hi, by simpa [List.isEmpty_iff] using he⟩
    · rename_i hne
      have hne' : s.nodes ≠ [] := by simpa [List.isEmpty_iff] using hne
      rcases step_total hcl hi hne' with ⟨s1, hs1⟩ | ⟨c, hc⟩
      · rw [hs1]
        have := step_phi hi hs1 hne'
        exact inner_total hcl fuel s1 (step_inv2 hcl hi hs1) (by omega)
      · rw [hc]; exact Or.inr ⟨c, rfl⟩

/-- total weight of the graph: an upper bound of `phi` minus the stack height -/
def totalWeight (g : Graph) : Nat := wsum g (fun _ => false) (g.map Prod.fst)

theorem inv2_restart {g : Graph} {s : St} (hi : Inv2 g s) (hn : s.nodes = []) (key : Key)
    (hk : (deps? g key).isSome) : Inv2 g { s with nodes := [key] } ∧ phi g { s with nodes := [key] } ≤ totalWeight g + 1 := by
  have hseen : ∀ x, x ∉ s.seen := by
    intro x hx
    obtain ⟨pre, post, hd, _, _⟩ := hi.seenAbove x hx
    rw [hn] at hd
    simp at hd
  refine ⟨⟨hi.disj, hi.seenNodup, fun x hx => absurd hx (hseen x), ?_, ?_⟩, ?_⟩
  · intro above v below hd hb
    exfalso
    simp only at hd
    have := congrArg List.length hd
    simp only [List.length_cons, List.length_nil, List.length_append] at this
    cases below with
    | nil => exact hb rfl
    | cons b bs => simp only [List.length_cons] at this; omega
  · intro x hx
    simp only [List.mem_singleton] at hx
    subst hx; exact hk
  · have := wsum_mono g (fun _ => false) (excl { s with nodes := [key] }) (by intro k hk; cases hk) (g.map Prod.fst)
    simp only [phi, totalWeight, List.length_singleton] at this ⊢
    omega

theorem outer_total {g : Graph} (hcl : Closed g) (fuel : Nat) (hfuel : totalWeight g + 1 < fuel) :
    ∀ (ks : List Key) (s : St), Inv2 g s → s.nodes = [] → (∀ k ∈ ks, (deps? g k).isSome) →
    (∃ s', outer g fuel ks s = .ok s') ∨ (∃ c, outer g fuel ks s = .error (.cycle c))
  | [], s, _, _, _ => Or.inl ⟨s, rfl⟩
  | key :: ks, s, hi, hn, hks => by
    unfold outer
    split
    · exact outer_total hcl fuel hfuel ks s hi hn (fun k hk => hks k (List.mem_cons_of_mem _ hk))
    · obtain ⟨hi0, hphi⟩ := inv2_restart hi hn key (hks key (by simp))
      rcases inner_total hcl fuel _ hi0 (by omega) with ⟨s1, h1, hi1, hn1⟩ | ⟨c, hc⟩
      · rw [h1]
        exact outer_total hcl fuel hfuel ks s1 hi1 hn1 (fun k hk => hks k (List.mem_cons_of_mem _ hk))
      · rw [hc]; exact Or.inr ⟨c, rfl⟩

theorem degOf_of_nodup : ∀ (g : Graph), (g.map Prod.fst).Nodup → ∀ k ds, (k, ds) ∈ g → degOf g k = ds.length
  | [], _, _, _, h => by simp at h
  | (k0, ds0) :: rest, hn, k, ds, h => by
    simp only [List.map_cons, List.nodup_cons] at hn
    rcases List.mem_cons.mp h with h1 | h2
    · cases h1; simp [degOf, deps?, List.lookup]
    · have hne : (k == k0) = false := by
        rw [Bool.eq_false_iff]; intro hc
        have hkk : k = k0 := by simpa using hc
        exact hn.1 (List.mem_map.mpr ⟨(k, ds), h2, hkk⟩)
      have ih := degOf_of_nodup rest hn.2 k ds h2
      simp only [degOf, deps?, List.lookup, hne] at ih ⊢
      exact ih

theorem totalWeight_eq (g : Graph) (hn : (g.map Prod.fst).Nodup) : totalWeight g = edgeCount g + g.length := by
  unfold totalWeight edgeCount
  -- generalise: sum over a sub-list whose entries all belong to `g`
  have key : ∀ (l : Graph), (∀ e ∈ l, e ∈ g) →
      wsum g (fun _ => false) (l.map Prod.fst) = (l.map (fun e => e.2.length)).sum + l.length := by
    intro l
    induction l with
    | nil => intro _; simp [wsum]
    | cons e l ih =>
      intro hl
      obtain ⟨k, ds⟩ := e
      have hd := degOf_of_nodup g hn k ds (hl _ (by simp))
      have := ih (fun e he => hl e (List.mem_cons_of_mem _ he))
      simp only [List.map_cons, wsum, Bool.false_eq_true, if_false, hd, this, List.sum_cons, List.length_cons]
      omega
  exact key g (fun _ h => h)

end Dask.GraphAlg
