import DaskModel.Model.CoMoment
import DaskModel.Lemmas.TreeReduceLemmas
import DaskModel.Lemmas.Moment
/-! Helper lemmas for the C37 extension round (cov/corr, var/sem, nunique, describe): the tree-reduction theorem with an
invariant on the partial results, the Chan identities over `Rat`, the co-moment monoid. -/
namespace Dask.CoMoment
open Dask.TreeReduce Dask.Moment

section general
variable {M β γ ρ : Type}

theorem mem_of_mem_partitionAll (k : Nat) (hk : 1 ≤ k) (keys : List β) (b : List β) (hb : b ∈ partitionAll k keys)
    (x : β) (hx : x ∈ b) : x ∈ keys := by
  rw [← partitionAll_flatten k hk keys]
  exact List.mem_flatten.mpr ⟨b, hb, hx⟩

/-- `treeLoop_spec` with an invariant on the partial results (Chan-style merges are only homomorphic on
    well-formed partials) -/
theorem treeLoop_spec_inv (m : Mon M) (h : β → M) (Inv : β → Prop) (combine : List β → β) (k : Nat) (hk : 2 ≤ k)
    (hcomb : ∀ bs, bs ≠ [] → (∀ b ∈ bs, Inv b) → Inv (combine bs) ∧ h (combine bs) = m.fold (bs.map h)) :
    ∀ (fuel : Nat) (keys : List β), keys.length < fuel → (∀ b ∈ keys, Inv b) →
      ∃ keys', treeLoop combine k fuel keys = some keys' ∧ m.fold (keys'.map h) = m.fold (keys.map h) ∧
        (keys ≠ [] → keys' ≠ []) ∧ (∀ b ∈ keys', Inv b) := by
  intro fuel
  induction fuel with
  | zero => intro keys h0; omega
  | succ fuel ih =>
    intro keys hlen hinv
    simp only [treeLoop]
    by_cases hgt : keys.length > k
    · simp only [hgt, if_true]
      have hlt := partitionAll_length_lt k hk keys hgt
      have hbinv : ∀ b ∈ partitionAll k keys, ∀ x ∈ b, Inv x :=
        fun b hb x hx => hinv x (mem_of_mem_partitionAll k (by omega) keys b hb x hx)
      have hne : ∀ b ∈ partitionAll k keys, b ≠ [] := partitionAll_nonempty k (by omega) keys
      obtain ⟨keys', h1, h2, h3, h4⟩ := ih ((partitionAll k keys).map combine)
        (by simp only [List.length_map]; omega)
        (by
          intro x hx
          obtain ⟨b, hb, rfl⟩ := List.mem_map.mp hx
          exact (hcomb b (hne b hb) (hbinv b hb)).1)
      refine ⟨keys', h1, ?_, ?_, h4⟩
      · rw [h2, List.map_map]
        have : (partitionAll k keys).map (h ∘ combine) = (partitionAll k keys).map (fun b => m.fold (b.map h)) := by
          apply List.map_congr_left
          intro b hb
          exact (hcomb b (hne b hb) (hbinv b hb)).2
        rw [this]
        have h4' : (partitionAll k keys).map (fun b => m.fold (b.map h)) = ((partitionAll k keys).map (List.map h)).map m.fold := by
          rw [List.map_map]; rfl
        rw [h4', Mon.fold_flatten, ← List.map_flatten, partitionAll_flatten k (by omega)]
      · intro hne'
        apply h3
        intro hnil
        have := partitionAll_ne_nil k keys hne'
        simp only [List.map_eq_nil_iff] at hnil
        exact this hnil
    · simp only [hgt, if_false]
      exact ⟨keys, rfl, rfl, id, hinv⟩

/-- `split_every_irrelevant` for merges that are homomorphic on WELL-FORMED partial results only: `Inv` holds of every
    chunk result and is preserved by `combine` -/
theorem split_every_irrelevant_inv (m : Mon M) (μ : List ρ → M) (hμ : Hom m μ)
    (chunk : List ρ → β) (combine : List β → β) (aggregate : List β → γ) (h : β → M) (fin : M → γ) (Inv : β → Prop)
    (parts : List (List ρ)) (hparts : parts ≠ [])
    (hchunk : ∀ p ∈ parts, Inv (chunk p) ∧ h (chunk p) = μ p)
    (hcomb : ∀ bs, bs ≠ [] → (∀ b ∈ bs, Inv b) → Inv (combine bs) ∧ h (combine bs) = m.fold (bs.map h))
    (hagg : ∀ bs, bs ≠ [] → (∀ b ∈ bs, Inv b) → aggregate bs = fin (m.fold (bs.map h)))
    (se : Option Nat) (hse : ∀ k, se = some k → 2 ≤ k) :
    aca se chunk combine aggregate parts = some (fin (μ parts.flatten)) := by
  have hkeys : m.fold ((parts.map chunk).map h) = μ parts.flatten := by
    rw [List.map_map, ← hμ.flatten]
    congr 1
    apply List.map_congr_left
    intro p hp
    exact (hchunk p hp).2
  have hinv : ∀ b ∈ parts.map chunk, Inv b := by
    intro b hb
    obtain ⟨p, hp, rfl⟩ := List.mem_map.mp hb
    exact (hchunk p hp).1
  have hne : parts.map chunk ≠ [] := by simpa using hparts
  unfold aca treeReduce
  cases se with
  | none =>
    show some (aggregate (parts.map chunk)) = _
    rw [hagg _ hne hinv, hkeys]
  | some k =>
    obtain ⟨keys', h1, h2, h3, h4⟩ := treeLoop_spec_inv m h Inv combine k (hse k rfl) hcomb ((parts.map chunk).length + 1)
      (parts.map chunk) (by omega) hinv
    simp only [h1, Option.map_some]
    rw [hagg keys' (h3 hne) h4, h2, hkeys]

end general


/-! ## sums -/

theorem nsum_cons (x : Nat) (xs : List Nat) : nsum (x :: xs) = x + nsum xs := rfl

theorem nsum_eq_zero {xs : List Nat} (h : nsum xs = 0) : ∀ x ∈ xs, x = 0 := by
  induction xs with
  | nil => intro x hx; cases hx
  | cons y ys ih =>
    rw [nsum_cons] at h
    intro x hx
    rcases List.mem_cons.mp hx with rfl | hx
    · omega
    · exact ih (by omega) x hx

/-- Σ (x-cx)(y-cy) = Σxy - cy Σx - cx Σy + n cx cy -/
theorem codev_expand (cx cy : Rat) (b : List (Rat × Rat)) :
    codev cx cy b = codev 0 0 b - cy * rsum (fsts b) - cx * rsum (snds b) + (b.length : Rat) * cx * cy := by
  induction b with
  | nil => simp [codev, rsum, fsts, snds]
  | cons r rs ih =>
    have h1 : codev cx cy (r :: rs) = (r.1 - cx) * (r.2 - cy) + codev cx cy rs := rfl
    have h2 : codev 0 0 (r :: rs) = (r.1 - 0) * (r.2 - 0) + codev 0 0 rs := rfl
    have h3 : rsum (fsts (r :: rs)) = r.1 + rsum (fsts rs) := rfl
    have h4 : rsum (snds (r :: rs)) = r.2 + rsum (snds rs) := rfl
    rw [h1, h2, h3, h4, ih]
    push_cast [List.length_cons]
    ring

/-- co-moment about the means = Σxy - Σx Σy / n -/
theorem codev_mean (b : List (Rat × Rat)) (hb : b ≠ []) :
    codev (rsum (fsts b) / (b.length : Rat)) (rsum (snds b) / (b.length : Rat)) b
      = codev 0 0 b - rsum (fsts b) * rsum (snds b) / (b.length : Rat) := by
  have hn : (b.length : Rat) ≠ 0 := by
    have : b.length ≠ 0 := by cases b with | nil => exact absurd rfl hb | cons => simp
    exact_mod_cast this
  rw [codev_expand]
  field_simp
  ring

theorem sqdev_mean (xs : List Rat) (hb : xs ≠ []) :
    sqdev (rsum xs / (xs.length : Rat)) xs = sqdev 0 xs - rsum xs * rsum xs / (xs.length : Rat) := by
  have hn : (xs.length : Rat) ≠ 0 := by
    have : xs.length ≠ 0 := by cases xs with | nil => exact absurd rfl hb | cons => simp
    exact_mod_cast this
  rw [sqdev_expand]
  field_simp
  ring

theorem codev_single (r : Rat × Rat) : codev (r.1 / 1) (r.2 / 1) [r] = 0 := by
  simp [codev, rsum]

/-! ## the one-step Chan identity and the cumulative merge -/

theorem chan_step (N n : Nat) (SX SY sx sy : Rat) (hN : N = 0 → SX = 0 ∧ SY = 0) (hn : n = 0 → sx = 0 ∧ sy = 0)
    (p : CP) (hp : p.n = n ∧ p.sx = sx ∧ p.sy = sy) :
    chanTerm N SX SY p + (SX + sx) * (SY + sy) / ((N + n : Nat) : Rat) = SX * SY / (N : Rat) + sx * sy / (n : Rat) := by
  obtain ⟨h1, h2, h3⟩ := hp
  subst h1 h2 h3
  unfold chanTerm
  by_cases hN0 : N = 0
  · obtain ⟨a, b⟩ := hN hN0
    subst hN0 a b
    simp
  · by_cases hn0 : p.n = 0
    · obtain ⟨a, b⟩ := hn hn0
      simp [hn0, a, b]
    · have h1 : (N : Rat) ≠ 0 := by exact_mod_cast hN0
      have h2 : (p.n : Rat) ≠ 0 := by exact_mod_cast hn0
      have h3 : (N : Rat) + (p.n : Rat) ≠ 0 := by
        have : N + p.n ≠ 0 := by omega
        exact_mod_cast this
      simp only [hN0, hn0, or_self, if_false]
      push_cast
      field_simp
      ring

/-- well-formed partial results: nothing observed ⇒ the sums and second moments are 0 (true of every chunk result,
    preserved by combine) -/
def WF (p : CP) : Prop := p.n = 0 → p.sx = 0 ∧ p.sy = 0 ∧ p.mx = 0 ∧ p.my = 0

theorem chanTerms_spec : ∀ (ps : List CP) (N : Nat) (SX SY : Rat), (N = 0 → SX = 0 ∧ SY = 0) → (∀ p ∈ ps, WF p) →
    chanTerms N SX SY ps
      + (SX + rsum (ps.map (·.sx))) * (SY + rsum (ps.map (·.sy))) / ((N + nsum (ps.map (·.n)) : Nat) : Rat)
      = SX * SY / (N : Rat) + rsum (ps.map fun p => p.sx * p.sy / (p.n : Rat)) := by
  intro ps
  induction ps with
  | nil => intro N SX SY _ _; simp [chanTerms, rsum, nsum]
  | cons p ps ih =>
    intro N SX SY hN hwf
    have hp : WF p := hwf p (by simp)
    have hps : ∀ q ∈ ps, WF q := fun q hq => hwf q (by simp [hq])
    have hstep := chan_step N p.n SX SY p.sx p.sy hN (fun h => ⟨(hp h).1, (hp h).2.1⟩) p ⟨rfl, rfl, rfl⟩
    have hN' : N + p.n = 0 → SX + p.sx = 0 ∧ SY + p.sy = 0 := by
      intro h
      have h1 : N = 0 := by omega
      have h2 : p.n = 0 := by omega
      obtain ⟨a, b⟩ := hN h1
      obtain ⟨c, d, _⟩ := hp h2
      simp [a, b, c, d]
    have hi := ih (N + p.n) (SX + p.sx) (SY + p.sy) hN' hps
    simp only [chanTerms, List.map_cons, rsum_cons, nsum_cons]
    have e1 : SX + (p.sx + rsum (ps.map (·.sx))) = SX + p.sx + rsum (ps.map (·.sx)) := by ring
    have e2 : SY + (p.sy + rsum (ps.map (·.sy))) = SY + p.sy + rsum (ps.map (·.sy)) := by ring
    have e3 : N + (p.n + nsum (ps.map (·.n))) = N + p.n + nsum (ps.map (·.n)) := by omega
    rw [e1, e2, e3]
    linarith

/-! ## second moments: Σ_t n_t (s_t/n_t - mu)² -/

def devTerm (mu : Rat) (n : Nat) (s : Rat) : Rat :=
  if n = 0 then 0 else (n : Rat) * ((s / (n : Rat) - mu) * (s / (n : Rat) - mu))

theorem devTerm_sum (mu : Rat) : ∀ (l : List (Nat × Rat)), (∀ e ∈ l, e.1 = 0 → e.2 = 0) →
    rsum (l.map fun e => devTerm mu e.1 e.2)
      = rsum (l.map fun e => e.2 * e.2 / (e.1 : Rat)) - 2 * mu * rsum (l.map (·.2)) + (nsum (l.map (·.1)) : Rat) * mu * mu := by
  intro l
  induction l with
  | nil => intro _; simp [rsum, nsum]
  | cons e es ih =>
    intro h
    have he := h e (by simp)
    have hi := ih (fun x hx => h x (by simp [hx]))
    simp only [List.map_cons, rsum_cons, nsum_cons, hi]
    push_cast
    unfold devTerm
    by_cases h0 : e.1 = 0
    · simp [h0, he h0]
    · have h1 : (e.1 : Rat) ≠ 0 := by exact_mod_cast h0
      simp only [h0, if_false]
      field_simp
      ring

/-- with `mu` the global mean the deviations fold into Σ s²/n - S²/N -/
theorem devTerm_sum_mean (l : List (Nat × Rat)) (h : ∀ e ∈ l, e.1 = 0 → e.2 = 0) :
    rsum (l.map fun e => devTerm (rsum (l.map (·.2)) / (nsum (l.map (·.1)) : Rat)) e.1 e.2)
      + rsum (l.map (·.2)) * rsum (l.map (·.2)) / (nsum (l.map (·.1)) : Rat)
      = rsum (l.map fun e => e.2 * e.2 / (e.1 : Rat)) := by
  rw [devTerm_sum _ l h]
  by_cases hN : nsum (l.map (·.1)) = 0
  · have hz : ∀ e ∈ l, e.2 = 0 := by
      intro e he
      exact h e he (nsum_eq_zero hN e.1 (List.mem_map.mpr ⟨e, he, rfl⟩))
    have hs : rsum (l.map (·.2)) = 0 := by
      have : l.map (·.2) = l.map (fun _ => (0 : Rat)) := List.map_congr_left (fun e he => hz e he)
      rw [this]
      clear this hz h hN
      induction l with
      | nil => rfl
      | cons e es ih => simp only [List.map_cons, rsum_cons, ih]; ring
    simp [hN, hs]
  · have h1 : (nsum (l.map (·.1)) : Rat) ≠ 0 := by exact_mod_cast hN
    field_simp
    ring


/-! ## the co-moment monoid (n, Σx, Σy, Σxy, Σx², Σy²) -/

@[ext] structure CM where
  n : Nat
  sx : Rat
  sy : Rat
  sxy : Rat
  sxx : Rat
  syy : Rat

def coMon : Mon CM where
  op a b := ⟨a.n + b.n, a.sx + b.sx, a.sy + b.sy, a.sxy + b.sxy, a.sxx + b.sxx, a.syy + b.syy⟩
  e := ⟨0, 0, 0, 0, 0, 0⟩
  assoc := by intro a b c; ext <;> simp [add_assoc]
  left_id := by intro a; ext <;> simp
  right_id := by intro a; ext <;> simp

/-- the sums of the pairwise-complete rows of a block -/
def coMu (p : List PRow) : CM :=
  let b := both p
  ⟨b.length, rsum (fsts b), rsum (snds b), codev 0 0 b, sqdev 0 (fsts b), sqdev 0 (snds b)⟩

theorem both_append (p q : List PRow) : both (p ++ q) = both p ++ both q := by
  simp [both, List.filterMap_append]

theorem codev_append (cx cy : Rat) (a b : List (Rat × Rat)) : codev cx cy (a ++ b) = codev cx cy a + codev cx cy b := by
  simp [codev, List.map_append, rsum_append]

theorem coMu_hom : Hom coMon coMu := by
  constructor
  · simp [coMu, both, coMon, rsum, fsts, snds, codev, sqdev]
  · intro p q
    simp only [coMu, both_append, coMon, fsts, snds, List.map_append, List.length_append, rsum_append, codev_append, sqdev_append]

/-- what a partial result stands for -/
def coH (p : CP) : CM :=
  ⟨p.n, p.sx, p.sy, p.c.getD 0 + p.sx * p.sy / (p.n : Rat), p.mx + p.sx * p.sx / (p.n : Rat), p.my + p.sy * p.sy / (p.n : Rat)⟩

theorem fold_coMon (l : List CM) :
    coMon.fold l = ⟨nsum (l.map (·.n)), rsum (l.map (·.sx)), rsum (l.map (·.sy)), rsum (l.map (·.sxy)),
      rsum (l.map (·.sxx)), rsum (l.map (·.syy))⟩ := by
  induction l with
  | nil => rfl
  | cons x xs ih =>
    have : coMon.fold (x :: xs) = coMon.op x (coMon.fold xs) := rfl
    rw [this, ih]
    rfl

theorem length_fsts (b : List (Rat × Rat)) : (fsts b).length = b.length := by simp [fsts]
theorem length_snds (b : List (Rat × Rat)) : (snds b).length = b.length := by simp [snds]

theorem pairChunk_wf (p : List PRow) : WF (pairChunk p) := by
  intro h
  have hb : both p = [] := List.length_eq_zero_iff.mp h
  simp [pairChunk, hb, fsts, snds, rsum, sqdev]

theorem pairChunk_coH (p : List PRow) : coH (pairChunk p) = coMu p := by
  rcases hb : both p with _ | ⟨r, _ | ⟨r2, rest⟩⟩
  · simp [coH, coMu, pairChunk, hb, fsts, snds, rsum, sqdev, codev]
  · ext <;> simp [coH, coMu, pairChunk, hb, fsts, snds, rsum, sqdev, codev]
  · have hne : both p ≠ [] := by rw [hb]; simp
    have hf : fsts (both p) ≠ [] := by rw [hb]; simp [fsts]
    have hs : snds (both p) ≠ [] := by rw [hb]; simp [snds]
    have hlen : ¬ (both p).length < 2 := by rw [hb]; simp
    have e1 := codev_mean (both p) hne
    have e2 := sqdev_mean (fsts (both p)) hf
    have e3 := sqdev_mean (snds (both p)) hs
    rw [length_fsts] at e2
    rw [length_snds] at e3
    ext
    · rfl
    · rfl
    · rfl
    · simp only [coH, coMu, pairChunk, hlen, if_false, Option.getD_some]
      rw [e1]; ring
    · simp only [coH, coMu, pairChunk]
      rw [e2]; ring
    · simp only [coH, coMu, pairChunk]
      rw [e3]; ring

theorem rsum_map_zero_of {α : Type} (f : α → Rat) (l : List α) (h : ∀ x ∈ l, f x = 0) : rsum (l.map f) = 0 := by
  induction l with
  | nil => rfl
  | cons x xs ih =>
    simp only [List.map_cons, rsum_cons, h x (by simp), ih (fun y hy => h y (by simp [hy]))]
    ring

theorem mTerm_eq (mu : Rat) (p : CP) (hp : p.n = 0 → p.mx = 0) :
    mTerm mu p.n p.sx p.mx = p.mx + devTerm mu p.n p.sx := by
  unfold mTerm devTerm
  by_cases h : p.n = 0
  · simp [h, hp h]
  · simp [h]

theorem rsum_add_map {α : Type} (f g : α → Rat) (l : List α) :
    rsum (l.map fun x => f x + g x) = rsum (l.map f) + rsum (l.map g) := (rsum_map_add f g l).symm

/-- **the cumulative Chan merge is the sum in the co-moment monoid** (on well-formed partial results) -/
theorem pairCombine_spec (bs : List CP) (hbs : bs ≠ []) (hwf : ∀ b ∈ bs, WF b) :
    WF (pairCombine bs) ∧ coH (pairCombine bs) = coMon.fold (bs.map coH) := by
  have hN0 : nsum (bs.map (·.n)) = 0 → ∀ b ∈ bs, b.n = 0 := fun h b hb =>
    nsum_eq_zero h b.n (List.mem_map.mpr ⟨b, hb, rfl⟩)
  constructor
  · intro h
    have hn : nsum (bs.map (·.n)) = 0 := h
    have hz := hN0 hn
    refine ⟨?_, ?_, ?_, ?_⟩
    · exact rsum_map_zero_of _ bs (fun b hb => (hwf b hb (hz b hb)).1)
    · exact rsum_map_zero_of _ bs (fun b hb => (hwf b hb (hz b hb)).2.1)
    · exact rsum_map_zero_of _ bs (fun b hb => by simp [mTerm, hz b hb])
    · exact rsum_map_zero_of _ bs (fun b hb => by simp [mTerm, hz b hb])
  · rw [fold_coMon]
    simp only [List.map_map]
    -- the two second-moment components
    have hmx : rsum (bs.map fun p => mTerm (rsum (bs.map (·.sx)) / (nsum (bs.map (·.n)) : Rat)) p.n p.sx p.mx)
        + rsum (bs.map (·.sx)) * rsum (bs.map (·.sx)) / (nsum (bs.map (·.n)) : Rat)
        = rsum (bs.map fun p => p.mx + p.sx * p.sx / (p.n : Rat)) := by
      have h1 : (bs.map fun p => mTerm (rsum (bs.map (·.sx)) / (nsum (bs.map (·.n)) : Rat)) p.n p.sx p.mx)
          = bs.map fun p => p.mx + devTerm (rsum (bs.map (·.sx)) / (nsum (bs.map (·.n)) : Rat)) p.n p.sx :=
        List.map_congr_left (fun p hp => mTerm_eq _ p (fun h => (hwf p hp h).2.2.1))
      have h2 := devTerm_sum_mean (bs.map fun p => (p.n, p.sx)) (by
        intro e he
        obtain ⟨p, hp, rfl⟩ := List.mem_map.mp he
        exact fun h => (hwf p hp h).1)
      simp only [List.map_map, Function.comp_def] at h2
      rw [h1, rsum_add_map, rsum_add_map]
      linarith
    have hmy : rsum (bs.map fun p => mTerm (rsum (bs.map (·.sy)) / (nsum (bs.map (·.n)) : Rat)) p.n p.sy p.my)
        + rsum (bs.map (·.sy)) * rsum (bs.map (·.sy)) / (nsum (bs.map (·.n)) : Rat)
        = rsum (bs.map fun p => p.my + p.sy * p.sy / (p.n : Rat)) := by
      have h1 : (bs.map fun p => mTerm (rsum (bs.map (·.sy)) / (nsum (bs.map (·.n)) : Rat)) p.n p.sy p.my)
          = bs.map fun p => p.my + devTerm (rsum (bs.map (·.sy)) / (nsum (bs.map (·.n)) : Rat)) p.n p.sy := by
        apply List.map_congr_left
        intro p hp
        unfold mTerm devTerm
        by_cases h : p.n = 0
        · simp [h, (hwf p hp h).2.2.2]
        · simp [h]
      have h2 := devTerm_sum_mean (bs.map fun p => (p.n, p.sy)) (by
        intro e he
        obtain ⟨p, hp, rfl⟩ := List.mem_map.mp he
        exact fun h => (hwf p hp h).2.1)
      simp only [List.map_map, Function.comp_def] at h2
      rw [h1, rsum_add_map, rsum_add_map]
      linarith
    -- the co-moment component
    have hc : chanOf bs
        + rsum (bs.map (·.sx)) * rsum (bs.map (·.sy)) / (nsum (bs.map (·.n)) : Rat)
        = rsum (bs.map fun p => p.sx * p.sy / (p.n : Rat)) := by
      cases bs with
      | nil => exact absurd rfl hbs
      | cons p0 ps =>
        have h0 : WF p0 := hwf p0 (by simp)
        have := chanTerms_spec ps p0.n p0.sx p0.sy (fun h => ⟨(h0 h).1, (h0 h).2.1⟩) (fun q hq => hwf q (by simp [hq]))
        simp only [chanOf, List.map_cons, rsum_cons, nsum_cons]
        linarith
    ext
    · rfl
    · rfl
    · rfl
    · simp only [coH, pairCombine, Option.getD_some, Function.comp_def]
      rw [rsum_add_map]
      linarith
    · simp only [coH, pairCombine, Function.comp_def]
      exact hmx
    · simp only [coH, pairCombine, Function.comp_def]
      exact hmy


/-! ## var: `(n, Σx, Σx²)` -/

def varMon : Mon (Nat × Rat × Rat) where
  op a b := (a.1 + b.1, a.2.1 + b.2.1, a.2.2 + b.2.2)
  e := (0, 0, 0)
  assoc := by intro a b c; simp [add_assoc]
  left_id := by intro a; simp
  right_id := by intro a; simp

def varMu (p : List Cell) : Nat × Rat × Rat := ((ratValid p).length, rsum (ratValid p), sqdev 0 (ratValid p))

def varH (p : P) : Nat × Rat × Rat := (p.n, p.total, p.m2 + p.total * p.total / (p.n : Rat))

/-- well-formed moment partial: nothing observed ⇒ total 0 -/
def WFP (p : P) : Prop := p.n = 0 → p.total = 0

theorem ratValid_append (p q : List Cell) : ratValid (p ++ q) = ratValid p ++ ratValid q := by
  simp [ratValid, valid, List.filterMap_append]

theorem varMu_hom : Hom varMon varMu := by
  constructor
  · simp [varMu, ratValid, valid, varMon, rsum, sqdev]
  · intro p q
    simp only [varMu, ratValid_append, varMon, List.length_append, rsum_append, sqdev_append]

theorem fold_varMon (l : List (Nat × Rat × Rat)) :
    varMon.fold l = (nsum (l.map (·.1)), rsum (l.map (·.2.1)), rsum (l.map (·.2.2))) := by
  induction l with
  | nil => rfl
  | cons x xs ih =>
    have : varMon.fold (x :: xs) = varMon.op x (varMon.fold xs) := rfl
    rw [this, ih]
    rfl

theorem dfVarChunk_spec (p : List Cell) : WFP (dfVarChunk p) ∧ varH (dfVarChunk p) = varMu p := by
  constructor
  · intro h
    have hb : ratValid p = [] := List.length_eq_zero_iff.mp h
    simp [dfVarChunk, momChunk, hb, rsum]
  · by_cases hb : ratValid p = []
    · simp [varH, varMu, dfVarChunk, momChunk, hb, rsum, sqdev]
    · have e := sqdev_mean (ratValid p) hb
      simp only [varH, varMu, dfVarChunk, momChunk]
      refine Prod.ext rfl (Prod.ext rfl ?_)
      show sqdev (rsum (ratValid p) / ((ratValid p).length : Rat)) (ratValid p)
        + rsum (ratValid p) * rsum (ratValid p) / ((ratValid p).length : Rat) = sqdev 0 (ratValid p)
      rw [e]; ring

theorem inner_devTerm (mu : Rat) (p : P) : (p.n : Rat) * (inner mu p * inner mu p) = devTerm mu p.n p.total := by
  unfold inner devTerm
  by_cases h : p.n = 0
  · simp [h]
  · simp [h]

/-- **`moment_combine` is the sum in the (n, Σx, Σx²) monoid** (on well-formed partial results) -/
theorem momCombine_spec (ps : List P) (hwf : ∀ p ∈ ps, WFP p) :
    WFP (momCombine ps) ∧ varH (momCombine ps) = varMon.fold (ps.map varH) := by
  constructor
  · intro h
    have hn : nsum (ps.map (·.n)) = 0 := h
    exact rsum_map_zero_of _ ps (fun p hp => hwf p hp (nsum_eq_zero hn p.n (List.mem_map.mpr ⟨p, hp, rfl⟩)))
  · rw [fold_varMon]
    simp only [List.map_map]
    have h2 := devTerm_sum_mean (ps.map fun p => (p.n, p.total)) (by
      intro e he
      obtain ⟨p, hp, rfl⟩ := List.mem_map.mp he
      exact hwf p hp)
    simp only [List.map_map, Function.comp_def] at h2
    have h1 : (ps.map fun p => ((p.n : Nat) : Rat) * (inner (rsum (ps.map (·.total)) / ((nsum (ps.map (·.n)) : Nat) : Rat)) p
          * inner (rsum (ps.map (·.total)) / ((nsum (ps.map (·.n)) : Nat) : Rat)) p))
        = ps.map fun p => devTerm (rsum (ps.map (·.total)) / ((nsum (ps.map (·.n)) : Nat) : Rat)) p.n p.total :=
      List.map_congr_left (fun p _ => inner_devTerm _ p)
    refine Prod.ext rfl (Prod.ext rfl ?_)
    show rsum (ps.map (·.m2)) + rsum (ps.map fun p => ((p.n : Nat) : Rat) * (inner (rsum (ps.map (·.total)) / ((nsum (ps.map (·.n)) : Nat) : Rat)) p
          * inner (rsum (ps.map (·.total)) / ((nsum (ps.map (·.n)) : Nat) : Rat)) p))
        + rsum (ps.map (·.total)) * rsum (ps.map (·.total)) / ((nsum (ps.map (·.n)) : Nat) : Rat)
      = rsum (ps.map fun p => p.m2 + p.total * p.total / (p.n : Rat))
    rw [h1, rsum_add_map]
    linarith

/-- what `moment_agg` makes of the monoid value -/
def varFin (ddof : Nat) (m : Nat × Rat × Rat) : Option Rat :=
  if m.1 ≤ ddof then none else some ((m.2.2 - m.2.1 * m.2.1 / (m.1 : Rat)) / ((m.1 - ddof : Nat) : Rat))

theorem momAgg_fin (ddof : Nat) (ps : List P) : momAgg ddof ps = varFin ddof (varH (momCombine ps)) := by
  simp only [momAgg, varFin, varH]
  by_cases h : (momCombine ps).n ≤ ddof
  · simp only [h, if_true]
  · simp only [h, if_false]
    congr 2
    ring

theorem varFin_mu (ddof : Nat) (p : List Cell) : varFin ddof (varMu p) = varK ddof p := by
  simp only [varFin, varMu, varK, varSpec]
  by_cases h : (ratValid p).length ≤ ddof
  · simp only [h, if_true]
  · simp only [h, if_false]
    have hne : ratValid p ≠ [] := by
      intro h0
      rw [h0] at h
      simp at h
    rw [sqdev_mean (ratValid p) hne]

/-! ## nunique -/

theorem mem_dedup (k : Cell) : ∀ l : List Cell, k ∈ dedup l ↔ k ∈ l := by
  intro l
  induction l with
  | nil => simp [dedup]
  | cons x xs ih =>
    simp only [dedup, List.mem_cons, List.mem_filter, ih, bne_iff_ne, ne_eq]
    by_cases h : k = x
    · simp [h]
    · simp [h]

theorem nodup_dedup : ∀ l : List Cell, (dedup l).Nodup := by
  intro l
  induction l with
  | nil => simp [dedup]
  | cons x xs ih =>
    simp only [dedup, List.nodup_cons, List.mem_filter, bne_self_eq_false, Bool.false_eq_true, and_false, not_false_eq_true, true_and]
    exact List.Nodup.sublist List.filter_sublist ih

theorem dedup_perm_of_mem {a b : List Cell} (h : ∀ k, k ∈ a ↔ k ∈ b) : (dedup a).Perm (dedup b) :=
  (List.perm_ext_iff_of_nodup (nodup_dedup a) (nodup_dedup b)).mpr (fun k => by rw [mem_dedup, mem_dedup, h])

/-- the count `nunique` reports only depends on the SET of values -/
theorem nuCount_congr (dropna : Bool) {a b : List Cell} (h : ∀ k, k ∈ a ↔ k ∈ b) :
    (if dropna then countK (dedup a) else (dedup a).length) = (if dropna then countK (dedup b) else (dedup b).length) := by
  have hp := dedup_perm_of_mem h
  cases dropna with
  | false => simpa using hp.length_eq
  | true =>
    simp only [if_true, countK, valid]
    exact (hp.filterMap id).length_eq

/-- membership in a block as a predicate: the monoid of value SETS under union -/
def setMon : Mon (Cell → Bool) where
  op f g := fun k => f k || g k
  e := fun _ => false
  assoc := by intro a b c; funext k; simp [Bool.or_assoc]
  left_id := by intro a; funext k; simp
  right_id := by intro a; funext k; simp

def memFn (l : List Cell) : Cell → Bool := fun k => l.contains k

theorem memFn_hom : Hom setMon memFn := by
  constructor
  · funext k; simp [memFn, setMon]
  · intro p q; funext k; simp [memFn, setMon]

theorem memFn_eq_iff {a b : List Cell} : memFn a = memFn b ↔ ∀ k, k ∈ a ↔ k ∈ b := by
  constructor
  · intro h k
    have := congrFun h k
    simp only [memFn] at this
    constructor
    · intro ha
      have h1 : a.contains k = true := by simpa using ha
      rw [this] at h1
      simpa using h1
    · intro hb
      have h1 : b.contains k = true := by simpa using hb
      rw [← this] at h1
      simpa using h1
  · intro h
    funext k
    simp only [memFn]
    by_cases hk : k ∈ a
    · have hb := (h k).mp hk
      simp [hk, hb]
    · have hb : k ∉ b := fun hb => hk ((h k).mpr hb)
      simp [hk, hb]

theorem memFn_dedup (l : List Cell) : memFn (dedup l) = memFn l :=
  memFn_eq_iff.mpr (fun k => mem_dedup k l)

end Dask.CoMoment
