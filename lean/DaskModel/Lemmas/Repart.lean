import DaskModel.Model.Repart
/-! Helper lemmas for C44/C41: cutting a list at a non-decreasing boundary vector and gluing the
    pieces back together. Core Lean only. -/
namespace Dask.Repart

/-- the pieces `xs[a:b]` for consecutive boundaries (what both `toFewerLayer` and `cut` compute) -/
def chunks {β : Type} (xs : List β) (bs : List Nat) : List (List β) :=
  (pairs bs).map fun (a, b) => pySlice xs a b

theorem cut_eq_chunks {β : Type} (xs : List β) (bs : List Nat) : cut xs bs = chunks xs bs := rfl

theorem pairs_length : ∀ (bs : List Nat), (pairs bs).length = bs.length - 1
  | [] => rfl
  | [_] => rfl
  | a :: b :: rest => by
    simp only [pairs, List.length_cons, pairs_length (b :: rest)]
    omega

theorem chunks_length {β : Type} (xs : List β) (bs : List Nat) : (chunks xs bs).length = bs.length - 1 := by
  simp [chunks, pairs_length]

theorem pySlice_append {β : Type} (xs : List β) {a b c : Nat} (hab : a ≤ b) (hbc : b ≤ c) :
    pySlice xs a b ++ pySlice xs b c = pySlice xs a c := by
  unfold pySlice
  have h1 : c - a = (b - a) + (c - b) := by omega
  have h2 : xs.drop b = (xs.drop a).drop (b - a) := by
    rw [List.drop_drop]; congr 1; omega
  rw [h1, h2, List.take_add]

/-- gluing the pieces of a non-decreasing boundary vector gives the slice between its ends -/
theorem chunks_flatten {β : Type} (xs : List β) :
    ∀ (bs : List Nat) (b0 bl : Nat), bs.head? = some b0 → bs.getLast? = some bl → bs.Pairwise (· ≤ ·) →
      (chunks xs bs).flatten = pySlice xs b0 bl
  | [], _, _, h, _, _ => by cases h
  | [a], b0, bl, h0, hl, _ => by
    simp only [List.head?_cons, Option.some.injEq] at h0
    simp only [List.getLast?_singleton, Option.some.injEq] at hl
    subst h0; subst hl
    simp [chunks, pairs, pySlice]
  | a :: b :: rest, b0, bl, h0, hl, hp => by
    simp only [List.head?_cons, Option.some.injEq] at h0
    subst h0
    have hl' : (b :: rest).getLast? = some bl := by simpa [List.getLast?_cons_cons] using hl
    have hp' := (List.pairwise_cons.mp hp).2
    have hab : a ≤ b := (List.pairwise_cons.mp hp).1 b List.mem_cons_self
    have hbl : b ≤ bl := by
      rcases List.mem_of_getLast? hl' with hm
      rcases List.mem_cons.mp hm with h | h
      · omega
      · exact (List.pairwise_cons.mp hp').1 bl h
    have ih := chunks_flatten xs (b :: rest) b bl rfl hl' hp'
    have : chunks xs (a :: b :: rest) = pySlice xs a b :: chunks xs (b :: rest) := rfl
    rw [this, List.flatten_cons, ih]
    exact pySlice_append xs hab hbl

theorem pySlice_full {β : Type} (xs : List β) : pySlice xs 0 xs.length = xs := by
  simp [pySlice]

/-- looking up the partitions `range(s, s+n)` succeeds when they exist, and yields the slice -/
theorem mapM_range' {β : Type} (parts : List β) :
    ∀ (n s : Nat), s + n ≤ parts.length →
      (List.range' s n).mapM (fun j => parts[j]?) = some ((parts.drop s).take n)
  | 0, s, _ => by simp
  | n + 1, s, h => by
    have hs : s < parts.length := by omega
    have ih := mapM_range' parts n (s + 1) (by omega)
    simp only [List.range'_succ, List.mapM_cons, ih, List.getElem?_eq_getElem hs,
      Option.pure_def, Option.bind_eq_bind, Option.bind_some]
    rw [List.drop_eq_getElem_cons hs, List.take_succ_cons]

/-- `evalLayer` of a ToFewer-style layer is the list of glued chunks -/
theorem evalLayer_toFewerLayer {α : Type} (parts : List (List α)) :
    ∀ (bs : List Nat), (∀ b ∈ bs, b ≤ parts.length) → bs.Pairwise (· ≤ ·) →
      evalLayer parts (toFewerLayer bs) = some ((chunks parts bs).map List.flatten)
  | [], _, _ => by simp [evalLayer, toFewerLayer, chunks, pairs]
  | [a], _, _ => by simp [evalLayer, toFewerLayer, chunks, pairs]
  | a :: b :: rest, hle, hp => by
    have hab : a ≤ b := (List.pairwise_cons.mp hp).1 b List.mem_cons_self
    have hb : b ≤ parts.length := hle b (by simp)
    have ih := evalLayer_toFewerLayer parts (b :: rest) (fun x hx => hle x (List.mem_cons_of_mem _ hx))
      (List.pairwise_cons.mp hp).2
    unfold evalLayer toFewerLayer at ih ⊢
    simp only [pairs, List.map_cons, List.mapM_cons, chunks] at ih ⊢
    rw [ih, mapM_range' parts (b - a) a (by omega)]
    simp [pySlice]

/-- in a non-decreasing list every element is `≤` the last one -/
theorem le_last_of_mono : ∀ (bs : List Nat) (l : Nat), bs.Pairwise (· ≤ ·) → bs.getLast? = some l → ∀ a ∈ bs, a ≤ l
  | [], _, _, h, _, _ => by cases h
  | [x], l, _, h, a, ha => by
    simp only [List.getLast?_singleton, Option.some.injEq] at h
    simp only [List.mem_singleton] at ha
    omega
  | x :: y :: rest, l, hp, h, a, ha => by
    have h' : (y :: rest).getLast? = some l := by simpa [List.getLast?_cons_cons] using h
    have hp' := (List.pairwise_cons.mp hp).2
    rcases List.mem_cons.mp ha with rfl | ha
    · exact (List.pairwise_cons.mp hp).1 l (List.mem_of_getLast? h')
    · exact le_last_of_mono (y :: rest) l hp' h' a ha

/-- hypothesis on a raw boundary vector (what `int(i * (old / new))` is checked against on every run) -/
structure BoundsOK (raw : List Nat) (total : Nat) : Prop where
  head0 : raw.head? = some 0
  mono : raw.Pairwise (· ≤ ·)
  last_le : ∀ l, raw.getLast? = some l → l ≤ total
  two : 2 ≤ raw.length

theorem clean_spec {raw : List Nat} {total : Nat} (h : BoundsOK raw total) :
    ∃ bs, cleanBoundaries raw total = some bs ∧ bs.length = raw.length ∧ bs.head? = some 0 ∧
      bs.getLast? = some total ∧ bs.Pairwise (· ≤ ·) ∧ ∀ b ∈ bs, b ≤ total := by
  obtain ⟨h0, hm, hl, h2⟩ := h
  match raw, h0, hm, hl, h2 with
  | x :: y :: rest, h0, hm, hl, _ =>
    simp only [List.head?_cons, Option.some.injEq] at h0
    subst h0
    obtain ⟨l, hlast⟩ : ∃ l, (0 :: y :: rest).getLast? = some l := by
      simp [List.getLast?_cons_cons]
      exact ⟨_, rfl⟩
    have hle := hl l hlast
    have hall := le_last_of_mono _ l hm hlast
    unfold cleanBoundaries
    simp only [Nat.lt_irrefl, if_false, gt_iff_lt, hlast]
    by_cases hlt : l < total
    · simp only [hlt, if_true]
      refine ⟨_, rfl, ?_, ?_, ?_, ?_, ?_⟩
      · simp
      · simp
      · rw [List.getLast?_append]; simp
      · rw [List.pairwise_append]
        refine ⟨List.Pairwise.sublist (List.dropLast_sublist _) hm, List.pairwise_singleton _ _, ?_⟩
        intro a ha b hb
        simp only [List.mem_singleton] at hb
        subst hb
        have := hall a ((List.dropLast_sublist _).subset ha)
        omega
      · intro b hb
        simp only [List.mem_append, List.mem_singleton] at hb
        rcases hb with hb | hb
        · have := hall b ((List.dropLast_sublist _).subset hb); omega
        · omega
    · have : l = total := by omega
      subst this
      simp only [hlt, if_false]
      exact ⟨_, rfl, rfl, rfl, hlast, hm, hall⟩

theorem walk2_length (b c : List Nat) (lastElem : Bool) (bLast : Nat) (lastDistinct : Bool) (k : Nat) :
    ∀ (bs : List Nat) (j i : Nat) (out : List (List Nat)),
      walk2 b c lastElem bLast lastDistinct k bs j i = some out → out.length = bs.length
  | [], _, _, out, h => by simp [walk2] at h; subst h; rfl
  | bj :: rest, j, i, out, h => by
    simp only [walk2, Option.bind_eq_bind, Option.bind_eq_some_iff, Option.pure_def, Option.some.injEq] at h
    obtain ⟨⟨i1, tmp1⟩, _, ⟨i2, tmp2⟩, _, more, hmore, rfl⟩ := h
    simp [walk2_length b c lastElem bLast lastDistinct k rest (j + 1) i2 more hmore]

/-- **`repartition(divisions=b)` produces exactly `len(b) − 1` partitions** (whenever the layer is built) -/
theorem divisionsLayer_count (a b : List Nat) (force : Bool) (L : DLayer)
    (h : divisionsLayer a b force = some L) : L.out.length + 1 = b.length := by
  unfold divisionsLayer at h
  simp only [Option.bind_eq_bind, Option.bind_eq_some_iff, Option.pure_def, Option.some.injEq] at h
  obtain ⟨⟨a0, aL, bL, bL2⟩, hg, s, _, ⟨c, d⟩, _, d', _, out, hout, rfl⟩ := h
  have := walk2_length _ _ _ _ _ _ _ _ _ _ hout
  simp only [this, List.length_drop]
  have hb : 2 ≤ b.length := by
    apply Nat.le_of_not_lt
    intro hcon
    unfold dlGuards at hg
    split at hg
    · cases hg
    · simp [hcon] at hg
  omega

end Dask.Repart
