import DaskModel.Lemmas.PartQuant
import DaskModel.Lemmas.RepartFloat
import Mathlib.Tactic.Ring
import Mathlib.Tactic.Linarith
/-! Lemmas about `Model/PartQuant.lean`, part 2: `process_val_weights`. (C45 extension round.) -/
namespace Dask.PQ

theorem strictVals_vals {s : Summary} (h : StrictVals s) : (vals s).Pairwise (· < ·) :=
  List.pairwise_map.mpr h

theorem head_le_of_sorted {V : List Int} (h : V.Pairwise (· ≤ ·)) {lo : Int} (hlo : V.head? = some lo) :
    ∀ x ∈ V, lo ≤ x := by
  obtain ⟨ys, rfl⟩ := List.head?_eq_some_iff.mp hlo
  intro x hx
  rcases List.mem_cons.mp hx with rfl | hx
  · exact Int.le_refl _
  · exact (List.pairwise_cons.mp h).1 x hx

theorem le_getLast_of_sorted {V : List Int} (h : V.Pairwise (· ≤ ·)) {hi : Int} (hhi : V.getLast? = some hi) :
    ∀ x ∈ V, x ≤ hi := by
  obtain ⟨ys, rfl⟩ := List.getLast?_eq_some_iff.mp hhi
  intro x hx
  rcases List.mem_append.mp hx with hx | hx
  · exact (List.pairwise_append.mp h).2.2 x hx hi (by simp)
  · simp only [List.mem_singleton] at hx; omega

/-- the divisions are `sort(X)` for a multiset `X` of summarised values that contains the first and the last one -/
theorem span_of_sorted_subset {V X : List Int} (hV : V.Pairwise (· ≤ ·)) (hsub : ∀ x ∈ X, x ∈ V) {lo hi : Int}
    (hlo : V.head? = some lo) (hhi : V.getLast? = some hi) (hloX : lo ∈ X) (hhiX : hi ∈ X) :
    (sortInts X).head? = some lo ∧ (sortInts X).getLast? = some hi :=
  ⟨sorted_head_eq (sortInts_sorted X) ((mem_sortInts X lo).mpr hloX)
      (fun x hx => head_le_of_sorted hV hlo x (hsub x ((mem_sortInts X x).mp hx))),
   sorted_getLast_eq (sortInts_sorted X) ((mem_sortInts X hi).mpr hhiX)
      (fun x hx => le_getLast_of_sorted hV hhi x (hsub x ((mem_sortInts X x).mp hx)))⟩

/-! ### cumulative weights -/

theorem length_cumsum (acc : Int) (ws : List Int) : (cumsum acc ws).length = ws.length := by
  induction ws generalizing acc with
  | nil => rfl
  | cons w ws ih => simp [cumsum, ih]

theorem cumsum_gt (acc : Int) (ws : List Int) (h : ∀ w ∈ ws, 0 < w) : ∀ x ∈ cumsum acc ws, acc < x := by
  induction ws generalizing acc with
  | nil => intro x hx; simp [cumsum] at hx
  | cons w ws ih =>
    intro x hx
    have hw := h w (by simp)
    simp only [cumsum, List.mem_cons] at hx
    rcases hx with rfl | hx
    · omega
    · have := ih (acc + w) (fun w' hw' => h w' (List.mem_cons_of_mem _ hw')) x hx
      omega

theorem cumsum_strict (acc : Int) (ws : List Int) (h : ∀ w ∈ ws, 0 < w) : (cumsum acc ws).Pairwise (· < ·) := by
  induction ws generalizing acc with
  | nil => exact List.Pairwise.nil
  | cons w ws ih =>
    simp only [cumsum]
    exact List.pairwise_cons.mpr ⟨cumsum_gt _ ws (fun w' hw' => h w' (List.mem_cons_of_mem _ hw')),
      ih _ (fun w' hw' => h w' (List.mem_cons_of_mem _ hw'))⟩

/-- the first target `0.0` lies below every cumulative weight: `lower = 0` -/
theorem lowerIdx_zero (c : List Int) (den : Int) (hden : 0 < den) (hc : ∀ x ∈ c, 0 < x) : lowerIdx c (0, den) = 0 := by
  have : countLt c 0 den = 0 := by
    unfold countLt
    rw [List.length_eq_zero_iff, List.filter_eq_nil_iff]
    intro x hx
    have := hc x hx
    have : 0 < x * den := Int.mul_pos this hden
    simp only [decide_eq_true_eq]; omega
  unfold lowerIdx
  simp [this]

/-- the last target is the last cumulative weight exactly: `lower` is the last position -/
theorem lowerIdx_last (c : List Int) (T : Int) (k : Int) (hk : 0 < k) (hc : c.Pairwise (· < ·)) (hT : c.getLast? = some T) :
    lowerIdx c (k * T, k) = c.length - 1 := by
  obtain ⟨ys, rfl⟩ := List.getLast?_eq_some_iff.mp hT
  have hys : ∀ x ∈ ys, x < T := fun x hx => (List.pairwise_append.mp hc).2.2 x hx T (by simp)
  have h1 : countLt (ys ++ [T]) (k * T) k = ys.length := by
    unfold countLt
    rw [List.filter_append]
    have e1 : ys.filter (fun x => decide (x * k < k * T)) = ys := by
      rw [List.filter_eq_self]
      intro x hx
      have := Int.mul_lt_mul_of_pos_right (hys x hx) hk
      simp only [decide_eq_true_eq]
      rw [Int.mul_comm k T]; exact this
    have e2 : [T].filter (fun x => decide (x * k < k * T)) = [] := by
      rw [List.filter_eq_nil_iff]
      intro x hx
      simp only [List.mem_singleton] at hx
      subst hx
      simp only [decide_eq_true_eq]
      rw [Int.mul_comm k x]; omega
    rw [e1, e2]; simp
  have h2 : countLe (ys ++ [T]) (k * T) k = ys.length + 1 := by
    unfold countLe
    have e : (ys ++ [T]).filter (fun x => decide (x * k ≤ k * T)) = ys ++ [T] := by
      rw [List.filter_eq_self]
      intro x hx
      have hle : x ≤ T := by
        rcases List.mem_append.mp hx with h | h
        · exact Int.le_of_lt (hys x h)
        · simp only [List.mem_singleton] at h; omega
      have := Int.mul_le_mul_of_nonneg_right hle (Int.le_of_lt hk)
      simp only [decide_eq_true_eq]
      rw [Int.mul_comm k T]; exact this
    rw [e]; simp
  unfold lowerIdx
  simp only [h1, h2, List.length_append, List.length_singleton]
  omega

theorem lowerIdx_lt (c : List Int) (q : Int × Int) (hc : c ≠ []) : lowerIdx c q < c.length := by
  unfold lowerIdx
  have h1 : countLe c q.1 q.2 ≤ c.length := List.length_filter_le _ _
  have h2 : 0 < c.length := List.length_pos_iff.mpr hc
  omega

/-! ### the targets -/

theorem length_qTargets (T : Int) (k : Nat) : (qTargets T k).length = k + 1 := by
  unfold qTargets
  split
  · rename_i h; subst h; rfl
  · simp

theorem first_qTarget (T : Int) (k : Nat) : ∃ den, 0 < den ∧ ((0 : Int), den) ∈ qTargets T k := by
  unfold qTargets
  split
  · exact ⟨1, by omega, by simp⟩
  · rename_i hk
    refine ⟨(k : Int), by omega, ?_⟩
    refine List.mem_map.mpr ⟨0, List.mem_range.mpr (by omega), ?_⟩
    simp

theorem last_qTarget (T : Int) (k : Nat) (hk : 0 < k) : ((k : Int) * T, (k : Int)) ∈ qTargets T k := by
  unfold qTargets
  have : k ≠ 0 := by omega
  simp only [this, if_false]
  exact List.mem_map.mpr ⟨k, List.mem_range.mpr (by omega), rfl⟩

/-! ### jumbo values -/

theorem jumbo_weight_count (S : Int) (n : Nat) (J : List P) (h : ∀ p ∈ J, isJumbo S n p = true) :
    (J.length : Int) * S ≤ (J.map (·.2)).sum * n := by
  induction J with
  | nil => simp
  | cons p J ih =>
    have hp := h p (by simp)
    unfold isJumbo at hp
    simp only [Bool.and_eq_true, decide_eq_true_eq] at hp
    have := ih (fun q hq => h q (List.mem_cons_of_mem _ hq))
    simp only [List.length_cons, List.map_cons, List.sum_cons]
    push_cast
    nlinarith [hp.2]

theorem sum_filter_split (p : P → Bool) (s : List P) :
    (s.map (·.2)).sum = ((s.filter p).map (·.2)).sum + ((s.filter (fun x => !p x)).map (·.2)).sum := by
  induction s with
  | nil => simp
  | cons a s ih =>
    by_cases h : p a = true
    · simp [h, ih]; omega
    · simp only [Bool.not_eq_true] at h
      simp [h, ih]; omega

theorem length_filter_split (p : P → Bool) (s : List P) :
    s.length = (s.filter p).length + (s.filter (fun x => !p x)).length := by
  induction s with
  | nil => simp
  | cons a s ih =>
    by_cases h : p a = true
    · simp [h]; omega
    · simp only [Bool.not_eq_true] at h
      simp [h]; omega

theorem sum_pos_of_pos {l : List Int} (h : ∀ w ∈ l, 0 < w) (hne : l ≠ []) : 0 < l.sum := by
  induction l with
  | nil => exact absurd rfl hne
  | cons a l ih =>
    have ha := h a (by simp)
    simp only [List.sum_cons]
    by_cases hl : l = []
    · subst hl; simp; exact ha
    · have := ih (fun w hw => h w (List.mem_cons_of_mem _ hw)) hl
      omega

theorem sum_nonneg_of_pos {l : List Int} (h : ∀ w ∈ l, 0 < w) : 0 ≤ l.sum := by
  by_cases hl : l = []
  · subst hl; simp
  · exact Int.le_of_lt (sum_pos_of_pos h hl)

/-- with positive weights and `npartitions ≥ 1`, fewer than `npartitions` values are jumbo as soon as one is not -/
theorem jumbo_lt (s : Summary) (n : Nat) (S : Int) (hSdef : S = (s.map (·.2)).sum) (hpos : PosW s)
    (htr : s.filter (fun p => !isJumbo S n p) ≠ []) :
    (s.filter (isJumbo S n)).length < n ∨ n = 0 := by
  by_cases hn : n = 0
  · exact Or.inr hn
  left
  have hcount := jumbo_weight_count S n (s.filter (isJumbo S n)) (fun p hp => (List.mem_filter.mp hp).2)
  have hsplit := sum_filter_split (isJumbo S n) s
  have htrpos : 0 < ((s.filter (fun p => !isJumbo S n p)).map (·.2)).sum := by
    apply sum_pos_of_pos
    · intro w hw
      obtain ⟨p, hp, rfl⟩ := List.mem_map.mp hw
      exact hpos p (List.mem_filter.mp hp).1
    · simpa using htr
  have hJnn : 0 ≤ ((s.filter (isJumbo S n)).map (·.2)).sum := by
    apply sum_nonneg_of_pos
    intro w hw
    obtain ⟨p, hp, rfl⟩ := List.mem_map.mp hw
    exact hpos p (List.mem_filter.mp hp).1
  by_contra hge
  have hge' : (n : Int) ≤ ((s.filter (isJumbo S n)).length : Int) := by omega
  have hS : 0 < S := by omega
  have hnpos : (0 : Int) < n := by omega
  -- n * S ≤ len * S ≤ sumJ * n < S * n
  have h1 : (n : Int) * S ≤ ((s.filter (isJumbo S n)).length : Int) * S :=
    Int.mul_le_mul_of_nonneg_right hge' (Int.le_of_lt hS)
  have h2 : ((s.filter (isJumbo S n)).map (·.2)).sum * n < S * n :=
    Int.mul_lt_mul_of_pos_right (by omega) hnpos
  have h3 : (n : Int) * S = S * n := Int.mul_comm _ _
  omega

theorem jumbo_le (s : Summary) (n : Nat) (S : Int) (hSdef : S = (s.map (·.2)).sum) (hpos : PosW s) (hne : s ≠ [])
    (hn : 0 < n) : (s.filter (isJumbo S n)).length ≤ n := by
  have hcount := jumbo_weight_count S n (s.filter (isJumbo S n)) (fun p hp => (List.mem_filter.mp hp).2)
  have hsplit := sum_filter_split (isJumbo S n) s
  have htrnn : 0 ≤ ((s.filter (fun p => !isJumbo S n p)).map (·.2)).sum := by
    apply sum_nonneg_of_pos
    intro w hw
    obtain ⟨p, hp, rfl⟩ := List.mem_map.mp hw
    exact hpos p (List.mem_filter.mp hp).1
  have hS : 0 < S := by
    rw [hSdef]
    apply sum_pos_of_pos
    · intro w hw
      obtain ⟨p, hp, rfl⟩ := List.mem_map.mp hw
      exact hpos p hp
    · simpa using hne
  by_contra hgt
  have hgt' : (n : Int) + 1 ≤ ((s.filter (isJumbo S n)).length : Int) := by omega
  have h1 : ((n : Int) + 1) * S ≤ ((s.filter (isJumbo S n)).length : Int) * S :=
    Int.mul_le_mul_of_nonneg_right hgt' (Int.le_of_lt hS)
  have h2 : ((s.filter (isJumbo S n)).map (·.2)).sum * n ≤ S * n :=
    Int.mul_le_mul_of_nonneg_right (by omega) (by omega)
  have h3 : ((n : Int) + 1) * S = S * n + S := by ring
  omega

/-! ### `pickTrimmed` -/

theorem pickTrimmed_spec {tr : Summary} {k : Nat} {trimmed : List Int} (h : pickTrimmed tr k = some trimmed) :
    trimmed.length = k + 1 ∧ (∀ b ∈ trimmed, b ∈ vals tr) := by
  unfold pickTrimmed at h
  simp only at h
  split at h
  · cases h
  · obtain ⟨h1, h2, _⟩ := mapM_some h
    refine ⟨by rw [h1, length_qTargets], ?_⟩
    intro b hb
    obtain ⟨q, _, hq⟩ := h2 b hb
    exact List.mem_of_getElem? hq

theorem pickTrimmed_first {tr : Summary} {k : Nat} {trimmed : List Int} (h : pickTrimmed tr k = some trimmed)
    (hpos : PosW tr) {p0 : P} (hp0 : tr.head? = some p0) : p0.1 ∈ trimmed := by
  unfold pickTrimmed at h
  simp only at h
  split at h
  · cases h
  · rename_i T hT
    obtain ⟨_, _, h3⟩ := mapM_some h
    obtain ⟨den, hden, hq⟩ := first_qTarget T k
    obtain ⟨b, hb, hf⟩ := h3 _ hq
    have hc : ∀ x ∈ cumsum 0 (tr.map (·.2)), 0 < x :=
      cumsum_gt 0 _ (fun w hw => by
        obtain ⟨p, hp, rfl⟩ := List.mem_map.mp hw
        exact hpos p hp)
    rw [lowerIdx_zero _ den hden hc] at hf
    obtain ⟨ys, rfl⟩ := List.head?_eq_some_iff.mp hp0
    simp at hf
    rw [hf]; exact hb

theorem pickTrimmed_last {tr : Summary} {k : Nat} {trimmed : List Int} (h : pickTrimmed tr k = some trimmed)
    (hpos : PosW tr) (hk : 0 < k) {pl : P} (hpl : tr.getLast? = some pl) : pl.1 ∈ trimmed := by
  unfold pickTrimmed at h
  simp only at h
  split at h
  · cases h
  · rename_i T hT
    obtain ⟨_, _, h3⟩ := mapM_some h
    obtain ⟨b, hb, hf⟩ := h3 _ (last_qTarget T k hk)
    have hstrict : (cumsum 0 (tr.map (·.2))).Pairwise (· < ·) :=
      cumsum_strict 0 _ (fun w hw => by
        obtain ⟨p, hp, rfl⟩ := List.mem_map.mp hw
        exact hpos p hp)
    rw [lowerIdx_last _ T (k : Int) (by omega) hstrict hT, length_cumsum, List.length_map] at hf
    have : (tr.map (·.1))[tr.length - 1]? = some pl.1 := by
      have := List.getLast?_eq_getElem? (l := tr.map (·.1))
      rw [List.length_map] at this
      rw [← this, List.getLast?_map, hpl]; rfl
    rw [this] at hf
    cases hf; exact hb

theorem mapM_total {α β : Type} {f : α → Option β} : ∀ (l : List α), (∀ a ∈ l, ∃ b, f a = some b) → ∃ r, l.mapM f = some r := by
  intro l
  induction l with
  | nil => intro _; exact ⟨[], by simp⟩
  | cons a l ih =>
    intro h
    obtain ⟨b, hb⟩ := h a (by simp)
    obtain ⟨r, hr⟩ := ih (fun a' ha' => h a' (List.mem_cons_of_mem _ ha'))
    exact ⟨b :: r, by rw [List.mapM_cons]; simp [hb, hr]⟩

theorem pickTrimmed_total (tr : Summary) (k : Nat) (hne : tr ≠ []) : ∃ trimmed, pickTrimmed tr k = some trimmed := by
  unfold pickTrimmed
  simp only
  have hc : cumsum 0 (tr.map (·.2)) ≠ [] := by
    intro h
    have := congrArg List.length h
    rw [length_cumsum, List.length_map] at this
    exact hne (List.length_eq_zero_iff.mp this)
  cases hT : (cumsum 0 (tr.map (·.2))).getLast? with
  | none => exact absurd (List.getLast?_eq_none_iff.mp hT) hc
  | some T =>
    simp only
    apply mapM_total
    intro q _
    have hlt := lowerIdx_lt (cumsum 0 (tr.map (·.2))) q hc
    rw [length_cumsum, List.length_map] at hlt
    exact ⟨(tr.map (·.1))[lowerIdx (cumsum 0 (tr.map (·.2))) q]'(by simpa using hlt), by simp [hlt]⟩

end Dask.PQ
