import DaskModel.Lemmas.SlicePlan
/-! Integer index on a chunked axis. -/
namespace Dask.Slice1D

theorem cumFrom_get (ls : List Nat) : ∀ (acc : Int) (k : Nat), k < ls.length →
    (cumFrom acc ls)[k]? = some (acc + (((ls.take (k + 1)).sum : Nat) : Int)) := by
  induction ls with
  | nil => intro acc k h; simp at h
  | cons l ls ih =>
    intro acc k h
    cases k with
    | zero => simp [cumFrom]
    | succ k =>
      simp only [cumFrom, List.getElem?_cons_succ, List.take_succ_cons, List.sum_cons]
      rw [ih (acc + l) k (by simpa using h)]
      congr 1
      simp only [Int.natCast_add]
      omega

theorem sum_take_succ (ls : List Nat) (i : Nat) (l : Nat) (h : ls[i]? = some l) :
    (ls.take (i + 1)).sum = (ls.take i).sum + l := by
  induction ls generalizing i with
  | nil => simp at h
  | cons a ls ih =>
    cases i with
    | zero => simp at h; subst h; simp
    | succ i =>
      simp only [List.getElem?_cons_succ] at h
      simp only [List.take_succ_cons, List.sum_cons, ih i h]
      omega

/-- an in-bounds integer index addresses the block that holds it, at the right offset -/
theorem slice1dInt_spec (lengths : List Nat) (index : Int) (h0 : 0 ≤ index)
    (h1 : index < ((lengths.sum : Nat) : Int)) :
    ∃ i off l, slice1dInt lengths index = some (i, off) ∧ lengths[i]? = some l ∧ 0 ≤ off ∧ off < l ∧
      (((lengths.take i).sum : Nat) : Int) + off = index := by
  simp only [slice1dInt]
  generalize hi : bisectRight (cumFrom 0 lengths) index = i
  have hile : i ≤ lengths.length := by
    rw [← hi, ← cumFrom_length 0 lengths]; exact bisectRight_le_length _ _
  have hpre : (((lengths.take i).sum : Nat) : Int) ≤ index := by
    rcases bisectRight_prefix_le index lengths 0 with h | h
    · rw [hi] at h; omega
    · rw [hi] at h; rw [h]; simpa using h0
  have hilt : i < lengths.length := by
    rcases Nat.lt_or_ge i lengths.length with h | h
    · exact h
    · have : i = lengths.length := by omega
      rw [this, List.take_length] at hpre
      omega
  have hnext := bisectRight_next_gt index lengths 0 (by rw [hi]; exact hilt)
  rw [hi] at hnext
  obtain ⟨l, hl⟩ : ∃ l, lengths[i]? = some l := ⟨lengths[i], by simp [hilt]⟩
  have hsucc := sum_take_succ lengths i l hl
  by_cases hpos : 0 < i
  · simp only [hpos, if_true]
    have hget := cumFrom_get lengths 0 (i - 1) (by omega)
    have e : i - 1 + 1 = i := by omega
    rw [e] at hget
    rw [hget]
    refine ⟨i, _, l, rfl, hl, ?_, ?_, ?_⟩ <;> omega
  · have hz : i = 0 := by omega
    subst hz
    simp only [Nat.lt_irrefl, if_false]
    refine ⟨0, index, l, rfl, hl, h0, ?_, by simp⟩
    simp at hsucc hnext
    omega

end Dask.Slice1D
