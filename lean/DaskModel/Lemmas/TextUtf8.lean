import DaskModel.Model.TextBlocks
import DaskModel.Lemmas.TextSplit
import DaskModel.Lemmas.TextLines
/-! UTF-8 is self-synchronising (C50): the encoding is a prefix code whose continuation bytes cannot start a
match of an encoded delimiter, so splitting the bytes at the encoded delimiter is splitting the text; a border of
the encoded delimiter is the encoding of a border of the delimiter. -/
namespace Dask.TextBlocks

theorem utf8_shape (c : Nat) (hc : c < 0x110000) :
    ∃ l cs, utf8 c = l :: cs ∧ isCont l = false ∧ (∀ x ∈ cs, isCont x = true) := by
  unfold utf8
  split
  · refine ⟨c, [], rfl, ?_, by simp⟩
    simp [isCont] <;> omega
  · split
    · refine ⟨_, _, rfl, ?_, ?_⟩
      · simp [isCont] <;> omega
      · intro x hx; simp at hx; subst hx; simp [isCont] <;> omega
    · split
      · refine ⟨_, _, rfl, ?_, ?_⟩
        · simp [isCont] <;> omega
        · intro x hx; simp at hx; rcases hx with rfl | rfl <;> (simp [isCont] <;> omega)
      · refine ⟨_, _, rfl, ?_, ?_⟩
        · simp [isCont] <;> omega
        · intro x hx; simp at hx; rcases hx with rfl | rfl | rfl <;> (simp [isCont] <;> omega)

/-- UTF-8 is a prefix code -/
theorem utf8_prefix_inj (c c' : Nat) (hc : c < 0x110000) (hc' : c' < 0x110000) (r r' : List Nat)
    (h : utf8 c ++ r = utf8 c' ++ r') : c = c' ∧ r = r' := by
  unfold utf8 at h
  split at h <;> split at h <;> (try split at h) <;> (try split at h) <;> (try split at h) <;> (try split at h) <;>
    simp only [List.cons_append, List.nil_append, List.cons.injEq] at h <;>
    first
      | (obtain ⟨h1, h2⟩ := h; exact ⟨by omega, h2⟩)
      | (obtain ⟨h1, h2, h3⟩ := h; exact ⟨by omega, h3⟩)
      | (obtain ⟨h1, h2, h3, h4⟩ := h; exact ⟨by omega, h4⟩)
      | (obtain ⟨h1, h2, h3, h4, h5⟩ := h; exact ⟨by omega, h5⟩)
      | (exfalso; obtain ⟨h1, _⟩ := h; omega)


theorem encode_nil : encode [] = [] := rfl
theorem encode_cons (c : Nat) (cs : List Nat) : encode (c :: cs) = utf8 c ++ encode cs := by simp [encode]
theorem encode_append (a b : List Nat) : encode (a ++ b) = encode a ++ encode b := by simp [encode]

theorem utf8_ne_nil (c : Nat) : utf8 c ≠ [] := by
  unfold utf8; split <;> (try split) <;> (try split) <;> simp

theorem encode_eq_nil {t : List Nat} : encode t = [] ↔ t = [] := by
  cases t with
  | nil => simp [encode_nil]
  | cons c cs => simp [encode_cons, utf8_ne_nil]

theorem ValidText.tail {c : Nat} {cs : List Nat} (h : ValidText (c :: cs)) : ValidText cs :=
  fun x hx => h x (List.mem_cons_of_mem _ hx)
theorem ValidText.head {c : Nat} {cs : List Nat} (h : ValidText (c :: cs)) : c < 0x110000 := h c (by simp)
theorem ValidText.append {a b : List Nat} (ha : ValidText a) (hb : ValidText b) : ValidText (a ++ b) := by
  intro x hx; rcases List.mem_append.mp hx with h | h
  · exact ha x h
  · exact hb x h
theorem ValidText.drop {t : List Nat} (h : ValidText t) (n : Nat) : ValidText (t.drop n) :=
  fun x hx => h x (List.mem_of_mem_drop hx)
theorem ValidText.take {t : List Nat} (h : ValidText t) (n : Nat) : ValidText (t.take n) :=
  fun x hx => h x (List.mem_of_mem_take hx)

/-- the encoding of a text is injective and prefix-compatible: `encode d` is a prefix of `encode t` exactly
    when `d` is a prefix of `t` -/
theorem encode_prefix_iff {d t : List Nat} (hd : ValidText d) (ht : ValidText t) :
    encode d <+: encode t ↔ d <+: t := by
  constructor
  · intro h
    induction d generalizing t with
    | nil => exact List.nil_prefix
    | cons c cs ih =>
      cases t with
      | nil =>
        obtain ⟨r, hr⟩ := h
        rw [encode_nil, encode_cons] at hr
        have := congrArg List.length hr
        have hne := utf8_ne_nil c
        cases hu : utf8 c with
        | nil => exact absurd hu hne
        | cons _ _ => rw [hu] at this; simp at this
      | cons c' cs' =>
        obtain ⟨r, hr⟩ := h
        rw [encode_cons, encode_cons, List.append_assoc] at hr
        obtain ⟨hcc, hrest⟩ := utf8_prefix_inj c c' hd.head ht.head _ _ hr
        subst hcc
        have := ih hd.tail ht.tail ⟨r, hrest⟩
        exact (List.prefix_cons_inj c).mpr this
  · rintro ⟨r, rfl⟩
    exact ⟨encode r, (encode_append d r).symm⟩

theorem encode_injective {a b : List Nat} (ha : ValidText a) (hb : ValidText b) (h : encode a = encode b) : a = b := by
  have h1 := (encode_prefix_iff ha hb).mp (by rw [h]; exact List.prefix_refl _)
  have h2 := (encode_prefix_iff hb ha).mp (by rw [h]; exact List.prefix_refl _)
  exact List.IsPrefix.eq_of_length_le h1 h2.length_le

/-- the head of the encoding of a non-empty text is not a continuation byte -/
theorem encode_head_not_cont {d : List Nat} (hd : ValidText d) (hne : d ≠ []) :
    ∃ l rest, encode d = l :: rest ∧ isCont l = false := by
  cases d with
  | nil => exact absurd rfl hne
  | cons c cs =>
    obtain ⟨l, conts, hu, hl, _⟩ := utf8_shape c hd.head
    exact ⟨l, conts ++ encode cs, by rw [encode_cons, hu]; rfl, hl⟩

/-- scanning over continuation bytes: a delimiter that starts with a lead byte cannot match there -/
theorem pySplitAux_conts {e : List Nat} {l : Nat} {erest : List Nat} (he : e = l :: erest) (hl : isCont l = false)
    (conts : List Nat) (hc : ∀ x ∈ conts, isCont x = true) (acc rest : List Nat) :
    pySplitAux e 0 acc (conts ++ rest) = pySplitAux e 0 (conts.reverse ++ acc) rest := by
  induction conts generalizing acc with
  | nil => simp
  | cons x xs ih =>
    have hx : isCont x = true := hc x (by simp)
    have hnp : ¬ e <+: x :: (xs ++ rest) := by
      rintro ⟨r, hr⟩
      rw [he] at hr
      have : l = x := by simpa using (List.cons.inj hr).1
      rw [this, hx] at hl; cases hl
    rw [List.cons_append, pySplitAux_nomatch acc x _ hnp, ih (fun y hy => hc y (List.mem_cons_of_mem _ hy))]
    simp

/-- one code point that does not start a match is copied byte by byte -/
theorem pySplitAux_char {d : List Nat} (hd : ValidText d) (hne : d ≠ []) (c : Nat) (cs : List Nat)
    (ht : ValidText (c :: cs)) (hnp : ¬ d <+: c :: cs) (acc : List Nat) :
    pySplitAux (encode d) 0 acc (encode (c :: cs)) = pySplitAux (encode d) 0 ((utf8 c).reverse ++ acc) (encode cs) := by
  obtain ⟨l, erest, he, hl⟩ := encode_head_not_cont hd hne
  obtain ⟨l0, conts, hu, _, hconts⟩ := utf8_shape c ht.head
  have hnpb : ¬ encode d <+: encode (c :: cs) := fun h => hnp ((encode_prefix_iff hd ht).mp h)
  rw [encode_cons, hu] at hnpb ⊢
  have hnpb' : ¬ encode d <+: l0 :: (conts ++ encode cs) := by simpa using hnpb
  rw [List.cons_append, pySplitAux_nomatch acc l0 (conts ++ encode cs) hnpb', pySplitAux_conts he hl conts hconts]
  simp

/-- **splitting the bytes at the encoded delimiter is splitting the text** -/
theorem pySplitAux_encode {d : List Nat} (hd : ValidText d) (hne : d ≠ []) (n : Nat) (t : List Nat) (hn : t.length ≤ n)
    (ht : ValidText t) (accT accB : List Nat) (hacc : accB.reverse = encode accT.reverse) :
    pySplitAux (encode d) 0 accB (encode t) = (pySplitAux d 0 accT t).map encode := by
  induction n generalizing t accT accB with
  | zero =>
    have : t = [] := List.length_eq_zero_iff.mp (by omega)
    subst this
    simp [encode_nil, pySplitAux_nil, hacc]
  | succ n ih =>
    cases t with
    | nil => simp [encode_nil, pySplitAux_nil, hacc]
    | cons c cs =>
      by_cases hp : d <+: c :: cs
      · have hpb : encode d <+: encode (c :: cs) := (encode_prefix_iff hd ht).mpr hp
        have hneb : encode d ≠ [] := fun h => hne (encode_eq_nil.mp h)
        rw [pySplitAux_match hne accT _ hp, pySplitAux_match hneb accB _ hpb]
        obtain ⟨r, hr⟩ := hp
        have hdrop : (c :: cs).drop d.length = r := by rw [← hr]; simp
        have hdropb : (encode (c :: cs)).drop (encode d).length = encode r := by rw [← hr, encode_append]; simp
        rw [hdrop, hdropb, List.map_cons, hacc]
        congr 1
        have hlen : r.length ≤ n := by
          have := congrArg List.length hr
          have : 0 < d.length := List.length_pos_iff.mpr hne
          simp only [List.length_append, List.length_cons] at *
          omega
        exact ih r hlen (by rw [← hdrop]; exact ht.drop _) [] [] (by simp [encode_nil])
      · rw [pySplitAux_nomatch accT c cs hp, pySplitAux_char hd hne c cs ht hp accB]
        apply ih cs (by simpa using hn) ht.tail
        simp only [List.reverse_append, List.reverse_reverse, List.reverse_cons, hacc, encode_append, encode_cons,
          encode_nil, List.append_nil]

/-- a position of the encoded text that holds a non-continuation byte is a character boundary -/
theorem encode_boundary (t : List Nat) (ht : ValidText t) (j l : Nat) (more : List Nat)
    (h : (encode t).drop j = l :: more) (hl : isCont l = false) :
    ∃ i, i ≤ t.length ∧ (encode (t.take i)).length = j ∧ (encode t).drop j = encode (t.drop i) := by
  induction t generalizing j with
  | nil => simp [encode_nil] at h
  | cons c cs ih =>
    obtain ⟨l0, conts, hu, _, hconts⟩ := utf8_shape c ht.head
    by_cases hj0 : j = 0
    · subst hj0; exact ⟨0, by simp, by simp [encode_nil], by simp⟩
    · by_cases hjm : j < (utf8 c).length
      · exfalso
        rw [encode_cons, hu] at h
        rw [hu] at hjm
        obtain ⟨j', rfl⟩ : ∃ j', j = j' + 1 := ⟨j - 1, by omega⟩
        simp only [List.cons_append, List.drop_succ_cons, List.length_cons] at h hjm
        have hj' : j' < conts.length := by omega
        rw [List.drop_append, show j' - conts.length = 0 by omega, List.drop_zero] at h
        have hmem : l ∈ conts := by
          have : (conts.drop j') ≠ [] := by simp; omega
          cases hd : conts.drop j' with
          | nil => exact absurd hd this
          | cons x xs =>
            rw [hd] at h
            have : x = l := by simpa using (List.cons.inj h).1
            subst this
            exact List.mem_of_mem_drop (by rw [hd]; simp)
        rw [hconts l hmem] at hl; cases hl
      · have hge : (utf8 c).length ≤ j := by omega
        have hdrop : (encode (c :: cs)).drop j = (encode cs).drop (j - (utf8 c).length) := by
          rw [encode_cons, List.drop_append, List.drop_eq_nil_of_le hge]; rfl
        rw [hdrop] at h
        obtain ⟨i, hi, hlen, heq⟩ := ih ht.tail (j - (utf8 c).length) h
        refine ⟨i + 1, by simpa using hi, ?_, ?_⟩
        · simp only [List.take_succ_cons, encode_cons, List.length_append, hlen]; omega
        · rw [hdrop, heq]; rfl

/-- a border of the encoded delimiter is the encoding of a border of the delimiter -/
theorem borderFree_encode (d : List Nat) (hd : ValidText d) (hbf : BorderFree d) : BorderFree (encode d) := by
  unfold BorderFree at hbf ⊢
  cases hb : hasBorder (encode d) with
  | false => rfl
  | true =>
    exfalso
    simp only [hasBorder, List.any_eq_true, List.mem_range, Bool.and_eq_true, decide_eq_true_eq, beq_iff_eq] at hb
    obtain ⟨k, hk, hk0, heq⟩ := hb
    have hdne : d ≠ [] := by rintro rfl; simp [encode_nil] at hk
    obtain ⟨l, erest, he, hl⟩ := encode_head_not_cont hd hdne
    -- the suffix starts with the head of the encoding: a lead byte
    have htake : (encode d).take k = l :: erest.take (k - 1) := by
      rw [he]; obtain ⟨k', rfl⟩ : ∃ k', k = k' + 1 := ⟨k - 1, by omega⟩; simp
    obtain ⟨i, hi, hlen, hdrop⟩ := encode_boundary d hd ((encode d).length - k) l (erest.take (k - 1))
      (by rw [← heq, htake]) hl
    have hpre : encode (d.drop i) <+: encode d := by rw [← hdrop, ← heq]; exact List.take_prefix _ _
    have hp : d.drop i <+: d := (encode_prefix_iff (hd.drop i) hd).mp hpre
    -- i is strictly between 0 and |d|
    have hi0 : 0 < i := by
      rcases Nat.eq_zero_or_pos i with h0 | h0
      · subst h0; simp [encode_nil] at hlen; omega
      · exact h0
    have hid : i < d.length := by
      rcases Nat.lt_or_ge i d.length with h | h
      · exact h
      · have : d.drop i = [] := List.drop_eq_nil_of_le h
        rw [this, encode_nil] at hdrop
        have := congrArg List.length hdrop
        simp at this; omega
    have hwit : hasBorder d = true := by
      simp only [hasBorder, List.any_eq_true, List.mem_range, Bool.and_eq_true, decide_eq_true_eq, beq_iff_eq]
      refine ⟨d.length - i, by omega, by omega, ?_⟩
      rw [show d.length - (d.length - i) = i by omega]
      obtain ⟨r, hr⟩ := hp
      have hl2 : (d.drop i).length = d.length - i := by simp
      calc d.take (d.length - i) = (d.drop i ++ r).take (d.length - i) := by rw [hr]
        _ = d.drop i := by rw [List.take_append_of_le_length (by omega), List.take_of_length_le (by omega)]
    rw [hbf] at hwit; cases hwit

theorem lastPart_map_encode (parts : List (List Nat)) :
    lastPart (parts.map encode) = (lastPart parts).map encode := by
  simp only [lastPart, List.length_map, ← List.map_drop, List.filter_map]
  congr 1
  apply List.filter_congr
  intro p _
  cases p with
  | nil => simp [encode_nil]
  | cons c cs =>
    have : encode (c :: cs) ≠ [] := fun h => by simpa using encode_eq_nil.mp h
    cases h : encode (c :: cs) with
    | nil => exact absurd h this
    | cons _ _ => simp [h]

end Dask.TextBlocks
