import DaskModel.Lemmas.SliceSize
/-! The items emitted by the loops of `_slice_1d` have the shape `new_blockdim` expects. -/
namespace Dask.Slice1D
open Dask.SetItem

theorem posLoop_good (step : Int) (hs : 0 < step) :
    ∀ (ls pre post : List Nat) (s e : Int), 0 ≤ s → (s ≤ e ∨ s < step) →
      ∀ it ∈ posLoop step ls pre.length s e, GoodItem (pre ++ ls ++ post) it := by
  intro ls
  induction ls with
  | nil => intro pre post s e _ _ it hit; simp [posLoop] at hit
  | cons l ls ih =>
    intro pre post s e hs0 hor it hit
    have happ : pre ++ l :: ls ++ post = (pre ++ [l]) ++ ls ++ post := by simp
    have hlen : (pre ++ [l]).length = pre.length + 1 := by simp
    by_cases he0 : e ≤ 0
    · rw [posLoop_nil_of_stop_nonpos step _ _ _ _ he0] at hit; cases hit
    · by_cases hlt : s < (l : Int)
      · have hc : s < (l : Int) ∧ 0 < e := ⟨hlt, by omega⟩
        simp only [posLoop, hc, and_self, if_true, List.mem_cons] at hit
        rcases hit with rfl | hit
        · refine ⟨l, by simp, Or.inr ⟨s, min e l, step, rfl, Or.inl ⟨hs, hs0, by omega, by omega, by omega, ?_⟩⟩⟩
          rcases hor with h | h <;> omega
        · have := ih (pre ++ [l]) post ((s - l) % step) (e - l) (Int.emod_nonneg _ (by omega))
            (Or.inr (Int.emod_lt_of_pos _ hs)) it
          rw [hlen, ← happ] at this
          exact this hit
      · have hc : ¬ (s < (l : Int) ∧ 0 < e) := by omega
        simp only [posLoop, hc, if_false] at hit
        have := ih (pre ++ [l]) post (s - l) (e - l) (by omega) (by rcases hor with h | h <;> omega) it
        rw [hlen, ← happ] at this
        exact this hit

theorem negLoop_good (step stop : Int) (hs : step < 0) :
    ∀ (rev low post : List Nat) (r : Int),
      ∀ it ∈ negLoop step stop ((low.sum : Nat) : Int) low.length rev r, GoodItem (low ++ rev.reverse ++ post) it := by
  intro rev
  induction rev with
  | nil => intro low post r it hit; simp [negLoop] at hit
  | cons l rev ih =>
    intro low post r it hit
    have happ : low ++ (l :: rev).reverse ++ post = low ++ rev.reverse ++ (l :: post) := by simp
    simp only [negLoop] at hit
    split at hit
    · rename_i hc
      simp only [List.mem_cons] at hit
      rcases hit with rfl | hit
      · refine ⟨l, ?_, Or.inr ⟨_, _, step, rfl, Or.inr ⟨hs, by omega, by omega, by omega, by omega⟩⟩⟩
        have : low.length + rev.length = (low ++ rev.reverse).length := by simp
        rw [happ]
        simp only [this]
        rw [List.append_assoc low rev.reverse (l :: post)] 
        simp
      · rw [happ]; exact ih low (l :: post) _ it hit
    · rw [happ]; exact ih low (l :: post) r it hit

theorem slice1dRaw_good (n : Nat) (lengths : List Nat) (s : PSlice) (hsum : lengths.sum = n)
    (hpos : 0 < stepOf s → 0 ≤ (startStop n s).1 ∧ (startStop n s).1 ≤ (startStop n s).2) :
    ∀ it ∈ slice1dRaw n lengths s, GoodItem lengths it := by
  unfold slice1dRaw
  generalize hss : startStop n s = p at hpos ⊢
  rcases p with ⟨start, stop⟩
  by_cases hp : 0 < stepOf s
  · obtain ⟨h0, hle⟩ := hpos hp
    simp only at h0 hle
    simp only [hp, if_true]
    generalize hist : bisectRight (cumFrom 0 lengths) start = istart
    generalize hbl : bisectLeft (cumFrom 0 lengths) stop = bl
    have histart_le : istart ≤ lengths.length := by
      rw [← hist, ← cumFrom_length 0 lengths]; exact bisectRight_le_length _ _
    have hoff : (((lengths.take istart).sum : Nat) : Int) ≤ start := by
      rcases bisectRight_prefix_le start lengths 0 with h | h
      · rw [hist] at h; omega
      · rw [hist] at h; rw [h]; simpa using h0
    have hlen : (lengths.take istart).length = istart := by rw [List.length_take]; omega
    have hsplit : lengths = lengths.take istart ++ (lengths.drop istart).take (min (bl + 1) lengths.length - istart)
        ++ (lengths.drop istart).drop (min (bl + 1) lengths.length - istart) := by
      rw [List.append_assoc, List.take_append_drop, List.take_append_drop]
    intro it hit
    have := posLoop_good (stepOf s) hp ((lengths.drop istart).take (min (bl + 1) lengths.length - istart))
      (lengths.take istart) ((lengths.drop istart).drop (min (bl + 1) lengths.length - istart))
      (start - (((lengths.take istart).sum : Nat) : Int)) (stop - (((lengths.take istart).sum : Nat) : Int))
      (by omega) (Or.inl (by omega)) it
    rw [hlen, ← hsplit] at this
    exact this hit
  · simp only [hp, if_false]
    have hneg : stepOf s < 0 := by have := stepOf_ne_zero s; omega
    rcases lengths with _ | ⟨l0, ls0⟩
    · intro it hit; cases hit
    · simp only []
      generalize hl : l0 :: ls0 = lengths at hsum ⊢
      generalize hbs : bisectRight (cumFrom 0 lengths) start = bs
      generalize hbe : bisectRight (cumFrom 0 lengths) stop = be
      have hlenpos : 0 < lengths.length := by rw [← hl]; simp
      have hbe_le : be ≤ lengths.length := by
        rw [← hbe, ← cumFrom_length 0 lengths]; exact bisectRight_le_length _ _
      have hlo : (max ((be : Int) - 1) (-1) + 1).toNat = be := by omega
      rw [hlo]
      generalize hist : min bs (lengths.length - 1) = istart
      by_cases hcase : be ≤ istart + 1
      · have hsplit : lengths = lengths.take be ++ ((lengths.take (istart + 1)).drop be) ++ lengths.drop (istart + 1) := by
          have h1 : (lengths.take (istart + 1)).take be = lengths.take be := by
            rw [List.take_take, Nat.min_eq_left hcase]
          rw [← h1, List.take_append_drop, List.take_append_drop]
        have hlowlen : (lengths.take be).length = be := by rw [List.length_take]; omega
        intro it hit
        have := negLoop_good (stepOf s) stop hneg ((lengths.take (istart + 1)).drop be).reverse
          (lengths.take be) (lengths.drop (istart + 1)) start it
        rw [List.reverse_reverse, ← hsplit, hlowlen] at this
        exact this hit
      · have hvis : (lengths.take (istart + 1)).drop be = [] := by
          apply List.drop_eq_nil_of_le
          rw [List.length_take]; omega
        rw [hvis]
        intro it hit
        simp [negLoop] at hit

theorem tidy_good (lengths : List Nat) (d : List (Nat × PSlice)) (h : ∀ it ∈ d, GoodItem lengths it) :
    ∀ it ∈ tidy lengths d, GoodItem lengths it := by
  intro it hit
  simp only [tidy, List.mem_map] at hit
  obtain ⟨⟨k, v⟩, hkv, rfl⟩ := hit
  have hg := h (k, v) hkv
  obtain ⟨l, hl, hc⟩ := hg
  simp only at hl
  simp only [hl]
  split
  · exact ⟨l, hl, Or.inl rfl⟩
  · exact ⟨l, hl, hc⟩

/-- **`new_blockdim` is right**: the lazily reported block sizes are the numbers of positions the planned
    pieces read, piece by piece in output order. -/
theorem newBlockdim_spec (lengths : List Nat) (s : PSlice) (hne : lengths ≠ []) (hn : Normal lengths.sum s)
    (hcl : 0 < stepOf s → (startStop lengths.sum s).1 ≤ (startStop lengths.sum s).2) :
    newBlockdim lengths.sum lengths s
      = some ((slice1d lengths.sum lengths s).map fun it => ((blockDen lengths it).length : Int)) := by
  unfold newBlockdim
  by_cases hc : s = colon
  · subst hc
    simp only [if_true, slice1d, List.map_map]
    congr 1
    have : ∀ (ls pre : List Nat),
        ls.map (fun (l : Nat) => (l : Int))
          = (List.range' pre.length ls.length).map ((fun it => ((blockDen (pre ++ ls) it).length : Int)) ∘ fun i => (i, colon)) := by
      intro ls
      induction ls with
      | nil => intro pre; rfl
      | cons l ls ih =>
        intro pre
        have happ : pre ++ l :: ls = (pre ++ [l]) ++ ls := by simp
        have hlen : (pre ++ [l]).length = pre.length + 1 := by simp
        simp only [List.length_cons, List.range'_succ, List.map_cons]
        congr 1
        · simp only [Function.comp, blockDen, getElem?_append_length, pySliceIdx_colon, List.length_map]
          have := rangeUp_length (l : Int) 1 (by omega) 0 (by omega)
          rw [this]; simp [ceilDivPos]
        · have := ih (pre ++ [l])
          rw [hlen, ← happ] at this
          exact this
    have h := this lengths []
    simp only [List.length_nil, List.nil_append] at h
    rw [List.range_eq_range']
    exact h
  · simp only [hc, if_false]
    rw [outputOrder_slice1d]
    apply mapM_itemSize
    unfold slice1d
    simp only [hc, if_false]
    have hraw := slice1dRaw_good lengths.sum lengths s rfl (fun hp => by
      obtain ⟨_, h0, _⟩ := pySliceIdx_normal_pos hn hp
      exact ⟨h0, hcl hp⟩)
    split
    · intro it hit
      simp only [List.mem_singleton] at hit
      subst hit
      obtain ⟨l, ls, rfl⟩ : ∃ l ls, lengths = l :: ls := by
        cases lengths with
        | nil => exact absurd rfl hne
        | cons l ls => exact ⟨l, ls, rfl⟩
      exact ⟨l, by simp, Or.inr ⟨0, 0, 1, rfl, Or.inl ⟨by omega, by omega, by omega, by omega, by omega, by omega⟩⟩⟩
    · exact tidy_good lengths _ hraw


theorem sum_map_length {α : Type} (f : α → List Int) : ∀ (d : List α),
    (d.map fun it => ((f it).length : Int)).sum = ((d.flatMap f).length : Int) := by
  intro d
  induction d with
  | nil => rfl
  | cons x d ih => simp only [List.map_cons, List.sum_cons, List.flatMap_cons, List.length_append, ih]; omega

end Dask.Slice1D
