import DaskModel.Lemmas.SchedComplete
/-! System level: `fire_tasks` (pop loop + batching arithmetic), processing of a completed batch, one
iteration of the main loop, under the adversarial choice of the batch that completes. -/
namespace Dask.Sched
variable {α : Type}

/-- `den` is a recursive evaluation of the graph -/
structure IsDen (g : Graph) (P : Params α) (den : Key → α) : Prop where
  task : ∀ k deps, g.get? k = some (.task deps) → den k = P.apply k (deps.map den)
  data : ∀ k, g.get? k = some .data → den k = P.dataVal k

theorem mapM_option_eq_some {β γ : Type} (f : β → Option γ) (h : β → γ) (l : List β)
    (hf : ∀ x ∈ l, f x = some (h x)) : l.mapM f = some (l.map h) := by
  induction l with
  | nil => rfl
  | cons a l ih =>
    rw [List.mapM_cons, hf a (by simp), ih (fun x hx => hf x (List.mem_cons_of_mem _ hx))]
    rfl

/-! ### events of the log -/
def preKeys (log : List (Ev × State α)) : List Key :=
  log.filterMap (fun p => match p.1 with | .pretask k => some k | _ => none)
def postKeys (log : List (Ev × State α)) : List Key :=
  log.filterMap (fun p => match p.1 with | .posttask k => some k | _ => none)

theorem preKeys_append (a b : List (Ev × State α)) : preKeys (a ++ b) = preKeys a ++ preKeys b := by
  simp [preKeys, List.filterMap_append]
theorem postKeys_append (a b : List (Ev × State α)) : postKeys (a ++ b) = postKeys a ++ postKeys b := by
  simp [postKeys, List.filterMap_append]

/-! ### the pop loop of `fire_tasks` -/
theorem popLoop_spec {g : Graph} {results : List Key} (P : Params α) {den : Key → α} (hden : IsDen g P den) :
    ∀ (n : Nat) (s : State α) (args : List (Key × α)) (log : List (Ev × State α)),
    Inv g results s → CacheSound den s → n ≤ s.ready.length →
    ∃ s' args' log', popLoop P n s args log = .ok (s', args ++ args', log ++ log') ∧
      Inv g results s' ∧
      args'.map (·.1) = s.ready.take n ∧ (∀ p ∈ args', p.2 = den p.1) ∧
      preKeys log' = s.ready.take n ∧ postKeys log' = [] ∧
      (∀ e ∈ log', ∃ k, e.1 = Ev.pretask k ∧ e.2.cache = s.cache ∧
        ∀ d ∈ e.2.depsOf k, e.2.cache.get? d = some (den d) ∧ done g e.2 d) ∧
      s'.ready = s.ready.drop n ∧ (∀ j, j ∈ s'.running ↔ j ∈ s.running ∨ j ∈ s.ready.take n) ∧
      s'.cache = s.cache ∧ s'.finished = s.finished ∧ s'.released = s.released ∧ s'.waiting = s.waiting ∧
      s'.dependencies = s.dependencies ∧ s'.dependents = s.dependents ∧ s'.waitingData = s.waitingData := by
  intro n
  induction n with
  | zero =>
    intro s args log h _ _
    exact ⟨s, [], [], by simp [popLoop], h, by simp, by simp, by simp [preKeys], by simp [postKeys], by simp,
      by simp, by simp, rfl, rfl, rfl, rfl, rfl, rfl, rfl⟩
  | succ n ih =>
    intro s args log h hcs hn
    cases hr : s.ready with
    | nil => rw [hr] at hn; simp at hn
    | cons key ready =>
      have hkr : key ∈ s.ready := by rw [hr]; simp
      have hkt := h.readyTask key hkr
      obtain ⟨deps, hdeps⟩ := hkt.1
      obtain ⟨deps', hg⟩ := hkt.2
      have hdd : deps = deps' := by
        have := h.depsGraph key deps hdeps
        simp [nodeDeps, hg] at this
        exact this
      subst hdd
      have hdc : ∀ d ∈ deps, s.cache.get? d = some (den d) := by
        intro d hd
        obtain ⟨v, hv⟩ := h.dep_cached (Or.inl hkr) (by rw [depsOf_of_get hdeps]; exact hd : d ∈ s.depsOf key)
        rw [hv, hcs d v hv]
      have hvals : deps.mapM (fun d => (popState s key ready).cache.get? d) = some (deps.map den) := by
        apply mapM_option_eq_some
        intro d hd
        exact hdc d hd
      have hinv1 : Inv g results (popState s key ready) := h.pop hr
      have hcs1 : CacheSound den (popState s key ready) := hcs
      have hn1 : n ≤ (popState s key ready).ready.length := by
        rw [hr] at hn
        simpa [popState] using hn
      obtain ⟨s', args', log', hpl, hinv', hargs, hvalsd, hpre, hpost, hev, hready, hrun, c1, c2, c3, c4, c5, c6, c7⟩ :=
        ih (popState s key ready) (args ++ [(key, P.apply key (deps.map den))])
          (log ++ [(Ev.pretask key, popState s key ready)]) hinv1 hcs1 hn1
      refine ⟨s', (key, P.apply key (deps.map den)) :: args', (Ev.pretask key, popState s key ready) :: log',
        ?_, hinv', ?_, ?_, ?_, ?_, ?_, ?_, ?_, c1, c2, c3, c4, c5, c6, c7⟩
      · unfold popLoop
        rw [hr]
        simp only []
        have hd1 : (popState s key ready).dependencies.get? key = some deps := hdeps
        simp only [popState] at hd1 hvals hpl
        rw [hd1]
        simp only []
        rw [hvals]
        simp only []
        rw [hpl]
        simp [List.append_assoc, popState]
      · simp [hargs, popState]
      · intro p hp
        rcases List.mem_cons.mp hp with rfl | hp
        · exact (hden.task key deps hg).symm
        · exact hvalsd p hp
      · simp [preKeys] at hpre ⊢
        simpa [popState] using hpre
      · simp [postKeys] at hpost ⊢
        exact hpost
      · intro e he
        rcases List.mem_cons.mp he with rfl | he
        · refine ⟨key, rfl, rfl, ?_⟩
          intro d hd
          have : (popState s key ready).depsOf key = deps := depsOf_of_get hdeps
          rw [this] at hd
          refine ⟨hdc d hd, ?_⟩
          exact hinv1.activeDone key (Or.inr (Or.inl (mem_sadd.mpr (Or.inl rfl)))) d (by rw [this]; exact hd)
        · obtain ⟨k', hk', hc', hr'⟩ := hev e he
          exact ⟨k', hk', hc', hr'⟩
      · simpa [popState] using hready
      · intro j
        rw [hrun j]
        simp only [popState, mem_sadd, List.take_succ_cons, List.mem_cons]
        constructor
        · rintro ((h1 | h1) | h1)
          · exact Or.inr (Or.inl h1)
          · exact Or.inl h1
          · exact Or.inr (Or.inr h1)
        · rintro (h1 | h1 | h1)
          · exact Or.inl (Or.inr h1)
          · exact Or.inl (Or.inl h1)
          · exact Or.inr h1

/-! ### batching arithmetic -/

theorem chunks_flatten {β : Type} (c : Nat) (args : List β) (n : Nat) :
    ((List.range n).map (fun i => (args.drop (i * c)).take c)).flatten = args.take (n * c) := by
  induction n with
  | zero => simp
  | succ n ih =>
    rw [List.range_succ, List.map_append, List.flatten_append, ih]
    simp only [List.map_cons, List.map_nil, List.flatten_cons, List.flatten_nil, List.append_nil]
    rw [Nat.succ_mul, List.take_add]

theorem takeWhile_nonempty_flatten {β : Type} (xs : List (List β))
    (h : xs.Pairwise (fun a b => a = [] → b = [])) :
    (xs.takeWhile (fun b => !b.isEmpty)).flatten = xs.flatten := by
  induction xs with
  | nil => rfl
  | cons x xs ih =>
    have hp := List.pairwise_cons.mp h
    rw [List.takeWhile_cons]
    cases x with
    | nil =>
      simp only [List.isEmpty_nil, Bool.not_true, Bool.false_eq_true, if_false, List.flatten_nil, List.flatten_cons,
        List.nil_append]
      symm
      rw [List.flatten_eq_nil_iff]
      intro l hl
      exact hp.1 l hl rfl
    | cons a x =>
      simp only [List.isEmpty_cons, Bool.not_false, if_true, List.flatten_cons]
      rw [ih hp.2]

theorem batches_flatten {β : Type} (c nb : Nat) (args : List β) (hc : 1 ≤ c) (hnb : args.length ≤ nb * c) :
    (batches c nb args).flatten = args := by
  unfold batches
  rw [takeWhile_nonempty_flatten, chunks_flatten, List.take_of_length_le hnb]
  rw [List.pairwise_map]
  apply List.Pairwise.imp _ List.pairwise_lt_range
  intro i j hij he
  rw [List.take_eq_nil_iff] at he ⊢
  rcases he with he | he
  · omega
  · right
    rw [List.drop_eq_nil_iff] at he ⊢
    have : i * c ≤ j * c := Nat.mul_le_mul_right c (Nat.le_of_lt hij)
    omega

theorem mem_takeWhile_sat {β : Type} (p : β → Bool) (l : List β) : ∀ x ∈ l.takeWhile p, p x = true := by
  induction l with
  | nil => simp
  | cons a l ih =>
    intro x hx
    rw [List.takeWhile_cons] at hx
    split at hx
    · rcases List.mem_cons.mp hx with rfl | hx
      · assumption
      · exact ih x hx
    · simp at hx

theorem batches_nonempty {β : Type} (c nb : Nat) (args : List β) : ∀ b ∈ batches c nb args, b ≠ [] := by
  intro b hb
  unfold batches at hb
  have := mem_takeWhile_sat _ _ b hb
  intro he
  subst he
  simp at this

theorem negFloorDivNeg_spec {a b : Int} (ha : 0 ≤ a) (hb : 0 < b) :
    ∃ q, negFloorDivNeg a b = .ok q ∧ 0 ≤ q ∧ a ≤ q * b ∧ (0 < a → 0 < q) ∧ (q - 1) * b < a := by
  have hb0 : b ≠ 0 := Int.ne_of_gt hb
  have hnb : -b ≠ 0 := by omega
  unfold negFloorDivNeg pyFloorDiv
  simp only [hnb, if_false]
  rw [Int.fdiv_neg hb0, Int.fdiv_eq_ediv_of_nonneg a (Int.le_of_lt hb)]
  have hq0 : 0 ≤ a / b := Int.ediv_nonneg ha (Int.le_of_lt hb)
  by_cases hd : b ∣ a
  · simp only [hd, if_true]
    have hmul : a / b * b = a := Int.ediv_mul_cancel hd
    refine ⟨- -(a / b), rfl, by omega, ?_, ?_, ?_⟩
    · rw [Int.neg_neg, hmul]
      exact Int.le_refl a
    · intro hpos
      rw [Int.neg_neg]
      rcases Int.lt_or_eq_of_le hq0 with h1 | h1
      · exact h1
      · rw [← h1] at hmul
        omega
    · rw [Int.neg_neg, Int.sub_mul, hmul]
      omega
  · simp only [hd, if_false]
    have h1 := Int.lt_ediv_add_one_mul_self a hb
    have e : -(-(a / b) - 1) = a / b + 1 := by omega
    refine ⟨-(-(a / b) - 1), rfl, by omega, ?_, by omega, ?_⟩
    · rw [e]
      exact Int.le_of_lt h1
    · rw [e]
      have e2 : a / b + 1 - 1 = a / b := by omega
      rw [e2]
      have hle : a / b * b ≤ a := Int.ediv_mul_le a hb0
      rcases Int.lt_or_eq_of_le hle with h2 | h2
      · exact h2
      · exact absurd ⟨a / b, by rw [Int.mul_comm]; exact h2.symm⟩ hd

end Dask.Sched
