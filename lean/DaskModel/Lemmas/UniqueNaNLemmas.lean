import DaskModel.Model.UniqueNaN
import DaskModel.Lemmas.CountingLemmas
import DaskModel.Lemmas.CountingMoreLemmas
/-! Helper lemmas for the NaN extension of C27: `_unique_internal` on float rows splits into `_unique_internal` on the
    numeric rows and `_unique_internal` on the NaN rows (all given the value `0`), so that the Nat-level merge theorem
    carries over. -/
namespace Dask.UniqueNaN
open Dask.Chunks Dask.Counting

@[simp] theorem isNan_none : isNan none = true := rfl
@[simp] theorem isNan_some (a : Nat) : isNan (some a) = false := by simp [isNan, ieq]

/-- the loop's selection (IEEE `==` plus the `v != v` branch) is equality of values with NaN = NaN -/
theorem mask_eq_beq (v : FV) (r : FRow) : mask v r = (r.value == v) := by
  cases v with
  | none => cases h : r.value <;> simp [mask, h]
  | some a => cases h : r.value <;> simp [mask, ieq, h]

/-- the numeric rows -/
def nums (rows : List FRow) : List URow := rows.filterMap (fun r => r.value.map (fun v => ⟨v, r.index, r.count⟩))
/-- the NaN rows, with the value `0` -/
def nanU (rows : List FRow) : List URow :=
  rows.filterMap (fun r => if isNan r.value then some ⟨0, r.index, r.count⟩ else none)
def lift (r : URow) : FRow := ⟨some r.value, r.index, r.count⟩
def toNan (r : URow) : FRow := ⟨none, r.index, r.count⟩

theorem nums_append (a b : List FRow) : nums (a ++ b) = nums a ++ nums b := by simp [nums]
theorem nanU_append (a b : List FRow) : nanU (a ++ b) = nanU a ++ nanU b := by simp [nanU]

theorem nums_flatten : ∀ (rs : List (List FRow)), nums rs.flatten = (rs.map nums).flatten
  | [] => rfl
  | r :: rs => by simp [nums_append, nums_flatten rs]
theorem nanU_flatten : ∀ (rs : List (List FRow)), nanU rs.flatten = (rs.map nanU).flatten
  | [] => rfl
  | r :: rs => by simp [nanU_append, nanU_flatten rs]

theorem nums_map_lift (l : List URow) : nums (l.map lift) = l := by
  induction l with
  | nil => rfl
  | cons a l ih => simp only [nums, List.map_cons, List.filterMap_cons, lift, Option.map] at ih ⊢; rw [ih]
theorem nums_map_toNan (l : List URow) : nums (l.map toNan) = [] := by
  induction l with
  | nil => rfl
  | cons a l ih => simp only [nums, List.map_cons, List.filterMap_cons, toNan, Option.map] at ih ⊢; rw [ih]
theorem nanU_map_lift (l : List URow) : nanU (l.map lift) = [] := by
  induction l with
  | nil => rfl
  | cons a l ih => simp only [nanU, List.map_cons, List.filterMap_cons, lift, isNan_some] at ih ⊢; simpa using ih
theorem nanU_map_toNan (l : List URow) (h : ∀ r ∈ l, r.value = 0) : nanU (l.map toNan) = l := by
  induction l with
  | nil => rfl
  | cons a l ih =>
    have ha := h a (by simp)
    have ih := ih (fun r hr => h r (by simp [hr]))
    simp only [nanU, List.map_cons, List.filterMap_cons, toNan, isNan_none, if_true] at ih ⊢
    rw [ih]
    cases a with
    | mk v i c => simp at ha; subst ha; rfl

theorem nanU_value (rows : List FRow) : ∀ r ∈ nanU rows, r.value = 0 := by
  intro r hr
  simp only [nanU, List.mem_filterMap] at hr
  obtain ⟨x, _, hx⟩ := hr
  split at hx
  · cases hx; rfl
  · cases hx

/-! selections -/
theorem sel_some (f : FRow → Nat) (g : URow → Nat) (hfg : ∀ r v, g ⟨v, r.index, r.count⟩ = f r) (v : Nat) :
    ∀ rows : List FRow, (rows.filter (mask (some v))).map f = ((nums rows).filter (fun r => r.value == v)).map g
  | [] => rfl
  | r :: rows => by
    have ih := sel_some f g hfg v rows
    cases hv : r.value with
    | none =>
      have : mask (some v) r = false := by simp [mask_eq_beq, hv]
      simp only [List.filter_cons, this, nums, List.filterMap_cons, hv, Option.map] at ih ⊢
      exact ih
    | some a =>
      have hm : mask (some v) r = (a == v) := by simp [mask_eq_beq, hv]
      simp only [List.filter_cons, hm, nums, List.filterMap_cons, hv, Option.map] at ih ⊢
      by_cases h : a = v
      · simp only [h, beq_self_eq_true, if_true, List.map_cons, ih, hfg]
      · have hb : (a == v) = false := by simpa using h
        simp only [hb, Bool.false_eq_true, if_false]
        exact ih

theorem sel_nan (f : FRow → Nat) (g : URow → Nat) (hfg : ∀ r v, g ⟨v, r.index, r.count⟩ = f r) :
    ∀ rows : List FRow, (rows.filter (mask none)).map f = (nanU rows).map g
  | [] => rfl
  | r :: rows => by
    have ih := sel_nan f g hfg rows
    cases hv : r.value with
    | none =>
      have : mask none r = true := by simp [mask_eq_beq, hv]
      simp only [List.filter_cons, this, nanU, List.filterMap_cons, hv, isNan_none, if_true, List.map_cons] at ih ⊢
      rw [ih, hfg]
    | some a =>
      have : mask none r = false := by simp [mask_eq_beq, hv]
      simp only [List.filter_cons, this, nanU, List.filterMap_cons, hv, isNan_some] at ih ⊢
      simpa using ih

theorem numsOf_values : ∀ rows : List FRow, numsOf (rows.map (·.value)) = (nums rows).map (·.value)
  | [] => rfl
  | r :: rows => by
    have ih := numsOf_values rows
    cases hv : r.value <;>
      simp only [numsOf, nums, List.map_cons, List.filterMap_cons, hv, id, Option.map] at ih ⊢
    · exact ih
    · rw [ih]

theorem any_nan_values : ∀ rows : List FRow, (rows.map (·.value)).any isNan = !(nanU rows).isEmpty
  | [] => rfl
  | r :: rows => by
    have ih := any_nan_values rows
    cases hv : r.value <;>
      simp only [nanU, List.map_cons, List.any_cons, List.filterMap_cons, hv, isNan_none, isNan_some, if_true] at ih ⊢
    · simp
    · simpa using ih

/-- `_unique_internal` on rows that all carry the value `0` -/
theorem uniqueInternal_zero (l : List URow) (h : ∀ r ∈ l, r.value = 0) :
    uniqueInternal l = if l.isEmpty then [] else [⟨0, minList (l.map (·.index)), sum (l.map (·.count))⟩] := by
  cases l with
  | nil => rfl
  | cons a t =>
    have hu : uniq ((a :: t).map (·.value)) = [0] := by
      apply sorted_ext _ _ (sorted_uniq _) (by simp)
      intro x
      rw [mem_uniq]
      constructor
      · intro hx
        obtain ⟨r, hr, rfl⟩ := List.mem_map.1 hx
        simp [h r hr]
      · intro hx
        simp only [List.mem_singleton] at hx
        subst hx
        exact List.mem_map.2 ⟨a, by simp, h a (by simp)⟩
    have hf : (a :: t).filter (fun r => r.value == 0) = a :: t :=
      List.filter_eq_self.2 (fun r hr => by simp [h r hr])
    unfold uniqueInternal
    rw [hu]
    simp only [List.map_cons, List.map_nil, idxOf, cntOf, hf, List.isEmpty_cons, Bool.false_eq_true, if_false]

theorem uniqueInternal_value_zero (l : List URow) (h : ∀ r ∈ l, r.value = 0) : ∀ r ∈ uniqueInternal l, r.value = 0 := by
  intro r hr
  rw [uniqueInternal_zero l h] at hr
  split at hr
  · cases hr
  · simp only [List.mem_singleton] at hr; subst hr; rfl

/-- **the split**: numeric rows and NaN rows are reduced independently -/
theorem uniqueInternalF_split (rows : List FRow) :
    uniqueInternalF rows = (uniqueInternal (nums rows)).map lift ++ (uniqueInternal (nanU rows)).map toNan := by
  unfold uniqueInternalF npUnique
  rw [List.map_append, List.map_map, numsOf_values, any_nan_values]
  congr 1
  · unfold uniqueInternal
    rw [List.map_map]
    apply List.map_congr_left
    intro v _
    simp only [Function.comp, lift, idxOf, cntOf]
    rw [sel_some (·.index) (·.index) (fun _ _ => rfl), sel_some (·.count) (·.count) (fun _ _ => rfl)]
  · rw [uniqueInternal_zero _ (nanU_value rows)]
    cases hn : (nanU rows).isEmpty
    · simp only [Bool.not_false, if_true, List.map_cons, List.map_nil, Bool.false_eq_true, if_false, toNan]
      rw [sel_nan (·.index) (·.index) (fun _ _ => rfl), sel_nan (·.count) (·.count) (fun _ _ => rfl)]
    · simp

theorem nums_uniqueInternalF (rows : List FRow) : nums (uniqueInternalF rows) = uniqueInternal (nums rows) := by
  rw [uniqueInternalF_split, nums_append, nums_map_lift, nums_map_toNan, List.append_nil]

theorem nanU_uniqueInternalF (rows : List FRow) : nanU (uniqueInternalF rows) = uniqueInternal (nanU rows) := by
  rw [uniqueInternalF_split, nanU_append, nanU_map_lift,
    nanU_map_toNan _ (uniqueInternal_value_zero _ (nanU_value rows)), List.nil_append]

theorem nums_parts : ∀ rs : List (List FRow),
    nums ((rs.map uniqueInternalF).flatten) = ((rs.map nums).map uniqueInternal).flatten
  | [] => rfl
  | r :: rs => by
    simp only [List.map_cons, List.flatten_cons, nums_append, nums_uniqueInternalF, nums_parts rs]
theorem nanU_parts : ∀ rs : List (List FRow),
    nanU ((rs.map uniqueInternalF).flatten) = ((rs.map nanU).map uniqueInternal).flatten
  | [] => rfl
  | r :: rs => by
    simp only [List.map_cons, List.flatten_cons, nanU_append, nanU_uniqueInternalF, nanU_parts rs]

theorem rowsOfF_append : ∀ (a b : List FV) (off : Nat),
    rowsOfF off (a ++ b) = rowsOfF off a ++ rowsOfF (off + a.length) b
  | [], b, off => by simp [rowsOfF]
  | x :: a, b, off => by
    simp only [List.cons_append, rowsOfF, List.length_cons]
    rw [rowsOfF_append a b (off + 1)]
    have : off + 1 + a.length = off + (a.length + 1) := by omega
    rw [this]

theorem chunkRowsF_eq : ∀ (bs : List (List FV)) (off : Nat),
    ∃ rs : List (List FRow), chunkRowsF off bs = rs.map uniqueInternalF ∧ rs.flatten = rowsOfF off bs.flatten
  | [], off => ⟨[], rfl, by simp [rowsOfF]⟩
  | b :: bs, off => by
    obtain ⟨rs, h1, h2⟩ := chunkRowsF_eq bs (off + b.length)
    refine ⟨rowsOfF off b :: rs, by simp [chunkRowsF, h1], ?_⟩
    simp only [List.flatten_cons, h2, rowsOfF_append]

/-! ### NumPy's terms: first index and multiplicity, NaN = NaN -/

def selF (rows : List FRow) (v : FV) : List Nat := (rows.filter (fun r => r.value == v)).map (·.index)

theorem selF_ge (v : FV) : ∀ (xs : List FV) (off : Nat), ∀ i ∈ selF (rowsOfF off xs) v, off ≤ i
  | [], _ => by simp [selF, rowsOfF]
  | x :: t, off => by
    intro i hi
    have ih := selF_ge v t (off + 1)
    unfold selF at hi ih
    simp only [rowsOfF, List.filter_cons] at hi
    split at hi
    · simp only [List.map_cons, List.mem_cons] at hi
      rcases hi with hi | hi
      · omega
      · have := ih i hi; omega
    · have := ih i hi; omega

theorem idxF (v : FV) : ∀ (xs : List FV) (off : Nat), v ∈ xs → minList (selF (rowsOfF off xs) v) = off + xs.idxOf v
  | [], _, h => by simp at h
  | x :: t, off, h => by
    by_cases hx : x = v
    · subst hx
      have e : selF (rowsOfF off (x :: t)) x = off :: selF (rowsOfF (off + 1) t) x := by
        simp [selF, rowsOfF]
      rw [e, List.idxOf_cons_self, Nat.add_zero]
      have e' : minList (off :: selF (rowsOfF (off + 1) t) x) = (selF (rowsOfF (off + 1) t) x).foldl min off := rfl
      rw [e', foldl_min_eq]
      split
      · rfl
      · rename_i hne
        have := le_minList_of_all hne (selF_ge x t (off + 1))
        omega
    · have hb : (x == v) = false := by simpa using hx
      have e : selF (rowsOfF off (x :: t)) v = selF (rowsOfF (off + 1) t) v := by
        simp [selF, rowsOfF, hb]
      have hv : v ∈ t := by
        rcases List.mem_cons.1 h with h | h
        · exact absurd h.symm hx
        · exact h
      have ih := idxF v t (off + 1) hv
      rw [e, ih, List.idxOf_cons, hb]
      simp only [cond_false]; omega

theorem cntF (v : FV) : ∀ (xs : List FV) (off : Nat),
    sum (((rowsOfF off xs).filter (fun r => r.value == v)).map (·.count)) = xs.count v
  | [], _ => rfl
  | x :: t, off => by
    have ih := cntF v t (off + 1)
    simp only [rowsOfF, List.filter_cons, List.count_cons]
    by_cases hx : x = v
    · subst hx
      simp only [beq_self_eq_true, if_true, List.map_cons, sum, List.foldr_cons] at ih ⊢
      omega
    · have hb : (x == v) = false := by simpa using hx
      simp only [hb, Bool.false_eq_true, if_false, Nat.add_zero]
      exact ih

theorem values_rowsOfF : ∀ (xs : List FV) (off : Nat), (rowsOfF off xs).map (·.value) = xs
  | [], _ => rfl
  | x :: t, off => by simp [rowsOfF, values_rowsOfF t]

theorem mem_npUnique (xs : List FV) (v : FV) : v ∈ npUnique xs ↔ v ∈ xs := by
  unfold npUnique
  cases v with
  | none =>
    simp only [List.mem_append, List.mem_map, reduceCtorEq, and_false, exists_false, false_or]
    by_cases h : none ∈ xs
    · have : xs.any isNan = true := List.any_eq_true.2 ⟨none, h, rfl⟩
      simp [this, h]
    · have : xs.any isNan = false := by
        rw [Bool.eq_false_iff]
        intro ha
        obtain ⟨x, hx, hn⟩ := List.any_eq_true.1 ha
        cases x with
        | none => exact h hx
        | some a => simp at hn
      simp [this, h]
  | some a =>
    have : some a ∉ (if xs.any isNan = true then [none] else []) := by split <;> simp
    simp only [List.mem_append, this, or_false, List.mem_map, Option.some.injEq, exists_eq_right, mem_uniq, numsOf,
      List.mem_filterMap, id]

/-! ### `return_inverse` -/

theorem matchF_eq_beq (v u : FV) : matchF v u = (v == u) := by
  cases v <;> cases u <;> simp [matchF, ieq]

theorem inverseF_aux (v : FV) : ∀ (u : List FV) (off : Nat), u.Nodup →
    sum ((List.range u.length).map (fun j => if (v == u.getD j none) = true then off + j else 0))
      = if v ∈ u then off + u.idxOf v else 0
  | [], off, _ => by simp [sum]
  | a :: u, off, h => by
    have ⟨p, q⟩ := List.nodup_cons.1 h
    rw [List.length_cons, List.range_succ_eq_map, List.map_cons, List.map_map, sum_cons]
    have ih := inverseF_aux v u (off + 1) q
    have hcomp : ((fun j => if (v == (a :: u).getD j none) = true then off + j else 0) ∘ Nat.succ)
        = (fun j => if (v == u.getD j none) = true then off + 1 + j else 0) := by
      funext j; simp only [Function.comp, List.getD_cons_succ]; split <;> omega
    rw [hcomp, ih]
    by_cases hav : a = v
    · subst hav
      simp [p]
    · have hva : ¬ v = a := fun e => hav e.symm
      have hb1 : (v == a) = false := by simpa using hva
      simp only [List.getD_cons_zero, hb1, Bool.false_eq_true, if_false, Nat.zero_add, List.mem_cons, hva, false_or]
      split
      · have hbeq : (a == v) = false := by simpa using hav
        rw [List.idxOf_cons, hbeq]; simp only [cond_false]; omega
      · rfl

theorem nodup_npUnique (xs : List FV) : (npUnique xs).Nodup := by
  unfold npUnique
  rw [List.nodup_append]
  refine ⟨?_, by split <;> simp, ?_⟩
  · have hs := sorted_uniq (numsOf xs)
    show List.Pairwise (· ≠ ·) _
    rw [List.pairwise_map]
    exact hs.imp (fun h e => by have := Option.some.inj e; omega)
  · intro a ha b hb
    obtain ⟨n, _, rfl⟩ := List.mem_map.1 ha
    split at hb
    · simp only [List.mem_singleton] at hb; subst hb; simp
    · simp at hb

theorem inverseOfF_eq (xs : List FV) (v : FV) (hv : v ∈ xs) :
    inverseOfF (npUnique xs) v = (npUnique xs).idxOf v := by
  unfold inverseOfF
  have h := inverseF_aux v (npUnique xs) 0 (nodup_npUnique xs)
  simp only [Nat.zero_add, (mem_npUnique xs v).2 hv, if_true] at h
  rw [← h]
  congr 1
  apply List.map_congr_left
  intro j _
  rw [matchF_eq_beq]

end Dask.UniqueNaN
