import DaskModel.Model.PartQuant
/-! Lemmas about `Model/PartQuant.lean`, part 1: `merge_sorted`, the compress loop, `merge_and_compress_summaries`,
    `rv.sort()`, `Option`-`mapM`. (C45 extension round.) -/
namespace Dask.PQ

/-- values of a summary -/
def vals (s : Summary) : List Int := s.map (·.1)

/-- what `percentiles_summary` hands over: values in non-decreasing order -/
def ValSorted (s : Summary) : Prop := s.Pairwise (fun a b => a.1 ≤ b.1)
/-- what `merge_and_compress_summaries` hands over: values strictly increasing -/
def StrictVals (s : Summary) : Prop := s.Pairwise (fun a b => a.1 < b.1)
/-- all weights positive -/
def PosW (s : Summary) : Prop := ∀ p ∈ s, 0 < p.2

theorem StrictVals.valSorted {s : Summary} (h : StrictVals s) : ValSorted s :=
  List.Pairwise.imp (fun h => Int.le_of_lt h) h

theorem mem_vals {s : Summary} {v : Int} : v ∈ vals s ↔ ∃ p ∈ s, p.1 = v := by
  simp [vals]

/-! ### merge_sorted -/

theorem mem_merge2 {a : P} {xs ys : List P} : a ∈ merge2 xs ys ↔ a ∈ xs ∨ a ∈ ys := List.mem_merge

theorem pairLt_false {a b : P} (h : pairLt b a = false) : a.1 ≤ b.1 := by
  unfold pairLt at h
  simp only [Bool.or_eq_false_iff, decide_eq_false_iff_not] at h
  omega

theorem pairLt_true {a b : P} (h : pairLt b a = true) : b.1 ≤ a.1 := by
  unfold pairLt at h
  simp only [Bool.or_eq_true, decide_eq_true_eq, Bool.and_eq_true, beq_iff_eq] at h
  omega

theorem merge2_valSorted : ∀ (xs ys : List P), ValSorted xs → ValSorted ys → ValSorted (merge2 xs ys) := by
  intro xs
  induction xs with
  | nil => intro ys _ hy; simpa [merge2, List.nil_merge] using hy
  | cons x xs ihx =>
    intro ys
    induction ys with
    | nil => intro hx _; simpa [merge2] using hx
    | cons y ys ihy =>
      intro hx hy
      unfold merge2
      rw [List.cons_merge_cons]
      have hx' := List.pairwise_cons.mp hx
      have hy' := List.pairwise_cons.mp hy
      split
      · rename_i hle
        have hxy : x.1 ≤ y.1 := pairLt_false (by simpa using hle)
        refine List.pairwise_cons.mpr ⟨?_, ihx (y :: ys) hx'.2 hy⟩
        intro z hz
        rcases (mem_merge2 (xs := xs) (ys := y :: ys)).mp hz with h | h
        · exact hx'.1 z h
        · rcases List.mem_cons.mp h with rfl | h
          · exact hxy
          · exact Int.le_trans hxy (hy'.1 z h)
      · rename_i hle
        have hyx : y.1 ≤ x.1 := pairLt_true (by simpa using hle)
        refine List.pairwise_cons.mpr ⟨?_, ihy hx hy'.2⟩
        intro z hz
        rcases (mem_merge2 (xs := x :: xs) (ys := ys)).mp hz with h | h
        · rcases List.mem_cons.mp h with rfl | h
          · exact hyx
          · exact Int.le_trans hyx (hx'.1 z h)
        · exact hy'.1 z h

theorem mem_take_or_drop {α : Type} (l : List α) (i : Nat) (s : α) : s ∈ l ↔ s ∈ l.take i ∨ s ∈ l.drop i := by
  conv => lhs; rw [← List.take_append_drop i l]
  exact List.mem_append

theorem mem_mergeSorted (seqs : List (List P)) (a : P) : a ∈ mergeSorted seqs ↔ ∃ s ∈ seqs, a ∈ s := by
  fun_induction mergeSorted seqs with
  | case1 => simp
  | case2 s => simp
  | case3 x y rest ih1 ih2 =>
    rw [mem_merge2, ih1, ih2]
    constructor
    · rintro (⟨s, hs, ha⟩ | ⟨s, hs, ha⟩)
      · exact ⟨s, (mem_take_or_drop _ _ s).mpr (Or.inl hs), ha⟩
      · exact ⟨s, (mem_take_or_drop _ _ s).mpr (Or.inr hs), ha⟩
    · rintro ⟨s, hs, ha⟩
      rcases (mem_take_or_drop _ ((x :: y :: rest).length / 2) s).mp hs with h | h
      · exact Or.inl ⟨s, h, ha⟩
      · exact Or.inr ⟨s, h, ha⟩

theorem mergeSorted_valSorted (seqs : List (List P)) (h : ∀ s ∈ seqs, ValSorted s) : ValSorted (mergeSorted seqs) := by
  fun_induction mergeSorted seqs with
  | case1 => exact List.Pairwise.nil
  | case2 s => exact h s (by simp)
  | case3 x y rest ih1 ih2 =>
    exact merge2_valSorted _ _ (ih1 fun s hs => h s (List.mem_of_mem_take hs)) (ih2 fun s hs => h s (List.mem_of_mem_drop hs))

/-! ### the compress loop -/

theorem mem_vals_compressGo (pv pw : Int) (rest : List P) (v : Int) :
    v ∈ vals (compressGo pv pw rest) ↔ v = pv ∨ v ∈ vals rest := by
  induction rest generalizing pv pw with
  | nil => simp [compressGo, vals]
  | cons p rest ih =>
    obtain ⟨x, w⟩ := p
    unfold compressGo
    split
    · rename_i hx
      rw [ih]
      simp only [vals, List.map_cons, List.mem_cons]
      subst hx
      constructor
      · rintro (h | h)
        · exact Or.inl h
        · exact Or.inr (Or.inr h)
      · rintro (h | h | h)
        · exact Or.inl h
        · exact Or.inl h
        · exact Or.inr h
    · have := ih x w
      simp only [vals, List.map_cons, List.mem_cons] at this ⊢
      rw [this]

theorem compressGo_strict (pv pw : Int) (rest : List P) (hge : ∀ p ∈ rest, pv ≤ p.1) (hs : ValSorted rest) :
    StrictVals (compressGo pv pw rest) := by
  induction rest generalizing pv pw with
  | nil => simp [compressGo, StrictVals]
  | cons p rest ih =>
    obtain ⟨x, w⟩ := p
    have hs' := List.pairwise_cons.mp hs
    unfold compressGo
    split
    · rename_i hx
      subst hx
      exact ih x (pw + w) (fun p hp => hge p (List.mem_cons_of_mem _ hp)) hs'.2
    · rename_i hx
      have hlt : pv < x := by
        have := hge (x, w) (by simp)
        simp only at this
        omega
      refine List.pairwise_cons.mpr ⟨?_, ih x w (fun p hp => hs'.1 p hp) hs'.2⟩
      intro q hq
      have hq' : q.1 ∈ vals (compressGo x w rest) := mem_vals.mpr ⟨q, hq, rfl⟩
      rcases (mem_vals_compressGo x w rest q.1).mp hq' with h | h
      · simp only; omega
      · obtain ⟨r, hr, hr1⟩ := mem_vals.mp h
        have := hs'.1 r hr
        simp only at this ⊢
        omega

theorem compressGo_pos (pv pw : Int) (rest : List P) (hpw : 0 < pw) (hp : PosW rest) : PosW (compressGo pv pw rest) := by
  induction rest generalizing pv pw with
  | nil => intro p hp'; simp [compressGo] at hp'; subst hp'; exact hpw
  | cons p rest ih =>
    obtain ⟨x, w⟩ := p
    have hw : 0 < w := hp (x, w) (by simp)
    have hrest : PosW rest := fun q hq => hp q (List.mem_cons_of_mem _ hq)
    unfold compressGo
    split
    · exact ih pv (pw + w) (by omega) hrest
    · intro q hq
      rcases List.mem_cons.mp hq with rfl | hq
      · exact hpw
      · exact ih x w hw hrest q hq

theorem mem_vals_compress (l : List P) (v : Int) : v ∈ vals (compress l) ↔ v ∈ vals l := by
  cases l with
  | nil => simp [compress]
  | cons p rest =>
    obtain ⟨x, w⟩ := p
    simp only [compress, mem_vals_compressGo]
    simp [vals]

theorem compress_strict (l : List P) (h : ValSorted l) : StrictVals (compress l) := by
  cases l with
  | nil => exact List.Pairwise.nil
  | cons p rest =>
    obtain ⟨x, w⟩ := p
    have h' := List.pairwise_cons.mp h
    exact compressGo_strict x w rest (fun p hp => h'.1 p hp) h'.2

theorem compress_pos (l : List P) (h : PosW l) : PosW (compress l) := by
  cases l with
  | nil => intro p hp; simp [compress] at hp
  | cons p rest =>
    obtain ⟨x, w⟩ := p
    exact compressGo_pos x w rest (h (x, w) (by simp)) (fun q hq => h q (List.mem_cons_of_mem _ hq))

/-! ### merge_and_compress_summaries -/

theorem mac_strict (ss : List Summary) (h : ∀ s ∈ ss, ValSorted s) : StrictVals (mergeAndCompress ss) := by
  unfold mergeAndCompress
  simp only
  split
  · exact List.Pairwise.nil
  · exact compress_strict _ (mergeSorted_valSorted _ fun s hs => h s (List.mem_filter.mp hs).1)

theorem mac_pos (ss : List Summary) (h : ∀ s ∈ ss, PosW s) : PosW (mergeAndCompress ss) := by
  unfold mergeAndCompress
  simp only
  split
  · intro p hp; simp at hp
  · apply compress_pos
    intro p hp
    obtain ⟨s, hs, hps⟩ := (mem_mergeSorted _ p).mp hp
    exact h s (List.mem_filter.mp hs).1 p hps

theorem mem_vals_mac (ss : List Summary) (v : Int) : v ∈ vals (mergeAndCompress ss) ↔ ∃ s ∈ ss, v ∈ vals s := by
  unfold mergeAndCompress
  simp only
  split
  · rename_i hemp
    have hnil : ss.filter (fun s => !s.isEmpty) = [] := by simpa using hemp
    constructor
    · intro h; simp [vals] at h
    · rintro ⟨s, hs, hv⟩
      obtain ⟨p, hp, _⟩ := mem_vals.mp hv
      have : s ∈ ss.filter (fun s => !s.isEmpty) := by
        refine List.mem_filter.mpr ⟨hs, ?_⟩
        cases s with
        | nil => simp at hp
        | cons _ _ => simp
      rw [hnil] at this
      simp at this
  · rw [mem_vals_compress]
    constructor
    · intro h
      obtain ⟨p, hp, rfl⟩ := mem_vals.mp h
      obtain ⟨s, hs, hps⟩ := (mem_mergeSorted _ p).mp hp
      exact ⟨s, (List.mem_filter.mp hs).1, mem_vals.mpr ⟨p, hps, rfl⟩⟩
    · rintro ⟨s, hs, hv⟩
      obtain ⟨p, hp, rfl⟩ := mem_vals.mp hv
      refine mem_vals.mpr ⟨p, (mem_mergeSorted _ p).mpr ⟨s, List.mem_filter.mpr ⟨hs, ?_⟩, hp⟩, rfl⟩
      cases s with
      | nil => simp at hp
      | cons _ _ => simp

/-! ### `rv.sort()` -/

theorem mem_insertInt (x : Int) (l : List Int) (y : Int) : y ∈ insertInt x l ↔ y = x ∨ y ∈ l := by
  induction l with
  | nil => simp [insertInt]
  | cons a l ih =>
    unfold insertInt
    split
    · simp
    · simp only [List.mem_cons, ih]
      constructor
      · rintro (h | h | h)
        · exact Or.inr (Or.inl h)
        · exact Or.inl h
        · exact Or.inr (Or.inr h)
      · rintro (h | h | h)
        · exact Or.inr (Or.inl h)
        · exact Or.inl h
        · exact Or.inr (Or.inr h)

theorem insertInt_sorted (x : Int) (l : List Int) (h : l.Pairwise (· ≤ ·)) : (insertInt x l).Pairwise (· ≤ ·) := by
  induction l with
  | nil => simp [insertInt]
  | cons a l ih =>
    have h' := List.pairwise_cons.mp h
    unfold insertInt
    split
    · rename_i hxa
      refine List.pairwise_cons.mpr ⟨?_, h⟩
      intro y hy
      rcases List.mem_cons.mp hy with rfl | hy
      · exact hxa
      · exact Int.le_trans hxa (h'.1 y hy)
    · rename_i hxa
      refine List.pairwise_cons.mpr ⟨?_, ih h'.2⟩
      intro y hy
      rcases (mem_insertInt x l y).mp hy with rfl | hy
      · omega
      · exact h'.1 y hy

theorem length_insertInt (x : Int) (l : List Int) : (insertInt x l).length = l.length + 1 := by
  induction l with
  | nil => simp [insertInt]
  | cons a l ih => unfold insertInt; split <;> simp [ih]

theorem mem_sortInts (l : List Int) (y : Int) : y ∈ sortInts l ↔ y ∈ l := by
  induction l with
  | nil => simp [sortInts]
  | cons a l ih => simp [sortInts, mem_insertInt, ih]

theorem sortInts_sorted (l : List Int) : (sortInts l).Pairwise (· ≤ ·) := by
  induction l with
  | nil => simp [sortInts]
  | cons a l ih => exact insertInt_sorted a _ ih

theorem length_sortInts (l : List Int) : (sortInts l).length = l.length := by
  induction l with
  | nil => simp [sortInts]
  | cons a l ih => simp [sortInts, length_insertInt, ih]

/-- in a non-decreasing list the head is the least element: any member below everything is the head -/
theorem sorted_head_eq {l : List Int} (h : l.Pairwise (· ≤ ·)) {lo : Int} (hmem : lo ∈ l) (hlo : ∀ x ∈ l, lo ≤ x) :
    l.head? = some lo := by
  cases l with
  | nil => simp at hmem
  | cons a l =>
    have h' := List.pairwise_cons.mp h
    simp only [List.head?_cons, Option.some.injEq]
    have h1 := hlo a (by simp)
    rcases List.mem_cons.mp hmem with rfl | hm
    · rfl
    · have := h'.1 lo hm; omega

theorem sorted_getLast_eq {l : List Int} (h : l.Pairwise (· ≤ ·)) {hi : Int} (hmem : hi ∈ l) (hhi : ∀ x ∈ l, x ≤ hi) :
    l.getLast? = some hi := by
  induction l with
  | nil => simp at hmem
  | cons a l ih =>
    have h' := List.pairwise_cons.mp h
    cases l with
    | nil =>
      simp only [List.mem_singleton] at hmem
      simp [hmem]
    | cons b l =>
      rw [List.getLast?_cons_cons]
      have hb : hi ∈ b :: l := by
        rcases List.mem_cons.mp hmem with rfl | hm
        · have h1 := h'.1 b (by simp)
          have h2 := hhi b (by simp)
          have : b = hi := by omega
          simp [this]
        · exact hm
      exact ih h'.2 hb (fun x hx => hhi x (List.mem_cons_of_mem _ hx))

/-! ### `Option` mapM -/

theorem mapM_some {α β : Type} {f : α → Option β} : ∀ {l : List α} {r : List β}, l.mapM f = some r →
    r.length = l.length ∧ (∀ b ∈ r, ∃ a ∈ l, f a = some b) ∧ (∀ a ∈ l, ∃ b ∈ r, f a = some b) := by
  intro l
  induction l with
  | nil => intro r h; simp at h; subst h; simp
  | cons a l ih =>
    intro r h
    rw [List.mapM_cons] at h
    cases hfa : f a with
    | none => simp [hfa] at h
    | some b =>
      cases hl : l.mapM f with
      | none => simp [hfa, hl] at h
      | some bs =>
        simp [hfa, hl] at h
        subst h
        obtain ⟨h1, h2, h3⟩ := ih hl
        refine ⟨by simp [h1], ?_, ?_⟩
        · intro b' hb'
          rcases List.mem_cons.mp hb' with rfl | hb'
          · exact ⟨a, by simp, hfa⟩
          · obtain ⟨a', ha', hf⟩ := h2 b' hb'
            exact ⟨a', List.mem_cons_of_mem _ ha', hf⟩
        · intro a' ha'
          rcases List.mem_cons.mp ha' with rfl | ha'
          · exact ⟨b, by simp, hfa⟩
          · obtain ⟨b', hb', hf⟩ := h3 a' ha'
            exact ⟨b', List.mem_cons_of_mem _ hb', hf⟩

end Dask.PQ
