import DaskModel.Lemmas.ReshapeWalkLemmas
/-! Every branch of `reshape_rechunk`'s walk keeps the invariant; hence every returned plan is a proved plan (C24). -/
namespace Dask.Reshape
open Dask.Chunks Dask.Structural

theorem sfx_eq_drop_succ (r : List (Option (List Nat))) (n : Nat) (h : n ≠ 0) : sfx r n = sfx r (n - 1 + 1) := by
  have : n - 1 + 1 = n := by omega
  rw [this]

theorem dimAt_get {shape : List Nat} {n : Nat} (h0 : n ≠ 0) (hl : n ≤ shape.length) :
    shape[n - 1]? = some (dimAt shape n) := by
  unfold dimAt
  rw [if_neg h0, List.getD_eq_getElem?_getD, List.getElem?_eq_getElem (by omega)]; rfl

theorem mergeBranch_inv {inshape outshape : List Nat} {inchunks : List (List Nat)} (hv : ValidIn inshape inchunks)
    {st st' : RRState} {dout : Nat} (hinv : Inv inshape outshape st) (hni : st.ni ≠ 0) (hno : st.no ≠ 0)
    (hd : outshape[st.no - 1]? = some dout)
    (h : mergeBranch inshape inchunks st (st.ni - 1) (st.no - 1) dout = .ok st') : Inv inshape outshape st' := by
  have hi : st.ni - 1 < inshape.length := by have := hinv.bi; omega
  have ho : st.no - 1 < outshape.length := by have := hinv.bo; omega
  have e1 : st.ni - 1 + 1 = st.ni := by omega
  have e2 : st.no - 1 + 1 = st.no := by omega
  have hsi := hinv.si; have hso := hinv.so; have hg := hinv.g
  rw [← e1] at hsi hg
  rw [← e2] at hso hg
  generalize st.ni - 1 = i at *
  generalize st.no - 1 = o at *
  have hlen := hv.1
  unfold mergeBranch at h
  split at h
  · split at h <;> cases h
  · rename_i ileft hfl
    have hil : ileft < i := findLeft_lt inshape i dout i ileft hfl
    split at h
    · cases h
    · rename_i hprod
      have hprod : prod (slice inshape ileft (i + 1)) = dout := Decidable.not_not.1 hprod
      dsimp only at h
      -- the last axis of the group
      have hci : inchunks[i]? = some (inchunks.getD i []) := by
        rw [List.getD_eq_getElem?_getD, List.getElem?_eq_getElem (by omega)]; rfl
      obtain ⟨_, _, hsumi⟩ := hv.2 i _ hci
      split at h
      · -- "moving blocks around"
        rename_i hspecial
        injection h with h; subst h
        have hvl : (inchunks.take (i + 1)).length = i + 1 := by simp; omega
        have hpre : ∀ c ∈ slice inchunks ileft i, allOnes c = true := by
          intro c hc
          obtain ⟨k, hk1, hk2, hk3⟩ := mem_slice hc
          obtain ⟨_, hp, hs⟩ := hv.2 k c hk3
          have := List.all_eq_true.1 hspecial k (by simpa using hk2)
          simp only [beq_iff_eq] at this
          rw [List.getD_eq_getElem?_getD, hk3, List.getD_eq_getElem?_getD, hs] at this
          exact allOnes_of_pos c hp this
        have hgrp : slice inchunks ileft (i + 1) = slice inchunks ileft i ++ [inchunks.getD i []] :=
          slice_succ_right inchunks ileft i _ (by omega) hci
        have hdropv : (inchunks.take (i + 1)).drop ileft = slice inchunks ileft (i + 1) := by
          unfold slice; rw [List.drop_take]
        have hsfx : sfx (setRange st.ri 0 (inchunks.take (i + 1))) ileft = slice inchunks ileft (i + 1) ++ sfx st.ri (i + 1) := by
          have := sfx_setRange st.ri 0 (inchunks.take (i + 1)) ileft (by omega) (by rw [hvl, hinv.li]; omega)
          rw [Nat.zero_add, Nat.zero_add, hvl, hdropv] at this
          exact this
        have hrepsum : prod ((slice inchunks ileft i).map List.length) = prod (slice inshape ileft i) := by
          rw [← ValidIn_slice_sum hv ileft i (by omega)]
          congr 1
          apply List.map_congr_left
          intro c hc
          have := allOnes_eq (hpre c hc)
          conv => rhs; rw [this, sum_replicate_one]
        refine ⟨by simp [length_setRange, hinv.li], by simp [hinv.lo], by simp; omega, by simp; omega, ?_, ?_, ?_⟩
        · apply SumsOK_mono (a := 0) _ (Nat.zero_le _)
          apply SumsOK_setRange (start := 0)
          · rw [Nat.zero_add, hvl]; exact hsi
          · rw [Nat.zero_add, hvl, hinv.li]; omega
          · exact hinv.li
          · rw [Nat.zero_add, hvl]
            have := ValidIn_slice_sum hv 0 (i + 1) (by omega)
            unfold slice at this ⊢
            simpa using this
        · apply SumsOK_set_self _ hso (by rw [hinv.lo]; exact ho)
          rw [hd, sum_flatten_replicate, hrepsum, ← hprod]
          have h2 : slice inshape ileft (i + 1) = slice inshape ileft i ++ [sum (inchunks.getD i [])] :=
            slice_succ_right inshape ileft i _ (by omega) hsumi
          rw [h2, prod_append]
          simp [prod]
        · show groupsOK (sfx (setRange st.ri 0 (inchunks.take (i + 1))) ileft) (sfx (st.ro.set o _) o)
            ((i + 1 - ileft, 1) :: st.groups) = true
          rw [hsfx, sfx_set_self _ _ _ (by rw [hinv.lo]; exact ho)]
          have hl : (slice inchunks ileft (i + 1)).length = i + 1 - ileft := length_slice _ _ _ (by omega)
          rw [← hl]
          apply groupsOK_append _ _ [_] _ _ _ (contig_single _) _ hg
          · rw [hgrp]; exact contig_append_ones _ _ hpre
          · rw [lowerAll_single, hgrp, lowerAll_append_ones _ _ hpre]
      · -- the general merge: expand the leading axis, single chunks behind it, then smooth
        split at h
        · cases h
        · rename_i maxIn _
          split at h
          · cases h
          · rename_i g hsm
            injection h with h; subst h
            obtain ⟨hgs, hgc⟩ := smoothGroup_spec maxIn _ _ g hsm
            -- the group before smoothing
            have hcl : inchunks[ileft]? = some (inchunks.getD ileft []) := by
              rw [List.getD_eq_getElem?_getD, List.getElem?_eq_getElem (by omega)]; rfl
            obtain ⟨_, _, hsuml⟩ := hv.2 ileft _ hcl
            have hg0sum : (expandTuple (inchunks.getD ileft []) (prod ((slice inchunks (ileft + 1) (i + 1)).map List.length))
                :: (slice inshape (ileft + 1) (i + 1)).map (fun d => [d])).map sum = slice inshape ileft (i + 1) := by
              rw [List.map_cons, expandTuple_sum, map_sum_map_single]
              exact (slice_succ_left inshape ileft (i + 1) _ (by omega) hsuml).symm
            rw [hg0sum] at hgs
            have hgl : g.length = i + 1 - ileft := by
              have := congrArg List.length hgs
              rw [List.length_map, length_slice _ _ _ (by omega)] at this
              exact this
            have hgcontig : contig g = true :=
              hgc (contig_cons_singles _ _ (singles_map_single _))
            have hsfx : sfx (setRange st.ri ileft g) ileft = g ++ sfx st.ri (i + 1) := by
              have := sfx_setRange st.ri ileft g 0 (Nat.zero_le _) (by rw [hgl, hinv.li]; omega)
              rw [Nat.add_zero, List.drop_zero, hgl] at this
              have e : ileft + (i + 1 - ileft) = i + 1 := by omega
              rw [e] at this; exact this
            refine ⟨by simp [length_setRange, hinv.li], by simp [hinv.lo], by simp; omega, by simp; omega, ?_, ?_, ?_⟩
            · apply SumsOK_setRange
              · rw [hgl]
                have e : ileft + (i + 1 - ileft) = i + 1 := by omega
                rw [e]; exact hsi
              · rw [hgl, hinv.li]; omega
              · exact hinv.li
              · rw [hgl, hgs]
                have e : ileft + (i + 1 - ileft) = i + 1 := by omega
                rw [e]
            · apply SumsOK_set_self _ hso (by rw [hinv.lo]; exact ho)
              rw [hd, sum_lowerAll]
              unfold size
              rw [hgs, hprod]
            · show groupsOK (sfx (setRange st.ri ileft g) ileft) (sfx (st.ro.set o _) o) ((i + 1 - ileft, 1) :: st.groups) = true
              rw [hsfx, sfx_set_self _ _ _ (by rw [hinv.lo]; exact ho), ← hgl]
              exact groupsOK_append g _ [lowerAll g] _ _ hgcontig (contig_single _) (lowerAll_single _).symm hg


theorem contractTuple_spec' {cs : List Nat} {f : Nat} {r : List Nat} (h : contractTuple cs f = some r) :
    f ≠ 0 ∧ sum r = sum cs ∧ ∀ y ∈ r, f ∣ y := by
  unfold contractTuple at h
  split at h
  · cases h
  · rename_i hf
    split at h
    · cases h
    · rename_i hm
      injection h with h; subst h
      have := contractLoop_sum f (by omega) cs 0 (by omega)
      simp only [Nat.zero_add] at this
      have hm' : sum cs % f = 0 := by omega
      exact ⟨hf, by omega, fun y hy => (contractLoop_dvd f cs 0 y hy).1⟩

theorem sum_map_div_mul (f : Nat) : ∀ (r : List Nat), (∀ y ∈ r, f ∣ y) → sum (r.map (· / f)) * f = sum r
  | [], _ => by simp [sum]
  | y :: r, h => by
    simp only [List.map_cons, sum_cons, Nat.add_mul]
    rw [sum_map_div_mul f r (fun z hz => h z (by simp [hz])), Nat.div_mul_cancel (h y (by simp))]

theorem splitBranch_inv {inshape outshape : List Nat} {inchunks : List (List Nat)} (hv : ValidIn inshape inchunks)
    {st st' : RRState} {din : Nat} (hinv : Inv inshape outshape st) (hni : st.ni ≠ 0) (hno : st.no ≠ 0)
    (hd : inshape[st.ni - 1]? = some din)
    (h : splitBranch outshape inchunks st (st.ni - 1) (st.no - 1) din = .ok st') : Inv inshape outshape st' := by
  have hi : st.ni - 1 < inshape.length := by have := hinv.bi; omega
  have ho : st.no - 1 < outshape.length := by have := hinv.bo; omega
  have e1 : st.ni - 1 + 1 = st.ni := by omega
  have e2 : st.no - 1 + 1 = st.no := by omega
  have hsi := hinv.si; have hso := hinv.so; have hg := hinv.g
  rw [← e1] at hsi hg
  rw [← e2] at hso hg
  generalize st.ni - 1 = i at *
  generalize st.no - 1 = o at *
  have hlen := hv.1
  unfold splitBranch at h
  split at h
  · split at h <;> cases h
  · rename_i oleft hfl
    have hol : oleft < o := findLeft_lt outshape o din o oleft hfl
    split at h
    · cases h
    · rename_i hprod
      have hprod : prod (slice outshape oleft (o + 1)) = din := Decidable.not_not.1 hprod
      dsimp only at h
      split at h
      · cases h
      · rename_i contracted hcon
        obtain ⟨hcs0, hcsum, hcdvd⟩ := contractTuple_spec' hcon
        split at h
        · cases h
        · rename_i maxIn _
          split at h
          · cases h
          · rename_i g hsm
            injection h with h; subst h
            obtain ⟨hgs, hgc⟩ := smoothGroup_spec maxIn _ _ g hsm
            have hci : inchunks[i]? = some (inchunks.getD i []) := by
              rw [List.getD_eq_getElem?_getD, List.getElem?_eq_getElem (by omega)]; rfl
            obtain ⟨_, _, hsumi⟩ := hv.2 i _ hci
            rw [hd] at hsumi
            injection hsumi with hsumi
            -- the leading output axis of the group
            have hol' : outshape[oleft]? = some (outshape.getD oleft 0) := by
              rw [List.getD_eq_getElem?_getD, List.getElem?_eq_getElem (by omega)]; rfl
            have hsplit := slice_succ_left outshape oleft (o + 1) _ (by omega) hol'
            have hlead : sum (contracted.map (· / prod (slice outshape (oleft + 1) (o + 1)))) = outshape.getD oleft 0 := by
              have h1 := sum_map_div_mul _ contracted hcdvd
              rw [hcsum, ← hsumi, ← hprod, hsplit, prod_cons] at h1
              exact Nat.eq_of_mul_eq_mul_right (by omega) h1
            have hg0sum : (contracted.map (· / prod (slice outshape (oleft + 1) (o + 1)))
                :: (slice outshape (oleft + 1) (o + 1)).map (fun d => [d])).map sum = slice outshape oleft (o + 1) := by
              rw [List.map_cons, hlead, map_sum_map_single]
              exact hsplit.symm
            rw [hg0sum] at hgs
            have hgl : g.length = o + 1 - oleft := by
              have := congrArg List.length hgs
              rw [List.length_map, length_slice _ _ _ (by omega)] at this
              exact this
            have hgcontig : contig g = true :=
              hgc (contig_cons_singles _ _ (singles_map_single _))
            have hsfx : sfx (setRange st.ro oleft g) oleft = g ++ sfx st.ro (o + 1) := by
              have := sfx_setRange st.ro oleft g 0 (Nat.zero_le _) (by rw [hgl, hinv.lo]; omega)
              rw [Nat.add_zero, List.drop_zero, hgl] at this
              have e : oleft + (o + 1 - oleft) = o + 1 := by omega
              rw [e] at this; exact this
            refine ⟨by simp [hinv.li], by simp [length_setRange, hinv.lo], by simp; omega, by simp; omega, ?_, ?_, ?_⟩
            · apply SumsOK_set_self _ hsi (by rw [hinv.li]; exact hi)
              rw [hd, sum_lowerAll]
              unfold size
              rw [hgs, hprod]
            · apply SumsOK_setRange
              · rw [hgl]
                have e : oleft + (o + 1 - oleft) = o + 1 := by omega
                rw [e]; exact hso
              · rw [hgl, hinv.lo]; omega
              · exact hinv.lo
              · rw [hgl, hgs]
                have e : oleft + (o + 1 - oleft) = o + 1 := by omega
                rw [e]
            · show groupsOK (sfx (st.ri.set i _) i) (sfx (setRange st.ro oleft g) oleft) ((1, o + 1 - oleft) :: st.groups) = true
              rw [hsfx, sfx_set_self _ _ _ (by rw [hinv.li]; exact hi), ← hgl]
              exact groupsOK_append [lowerAll g] _ g _ _ (contig_single _) hgcontig (lowerAll_single _) hg


theorem rrStep_inv {inshape outshape : List Nat} {inchunks : List (List Nat)} (hv : ValidIn inshape inchunks)
    {st st' : RRState} (hinv : Inv inshape outshape st) (h : rrStep inshape outshape inchunks st = .ok st') :
    Inv inshape outshape st' := by
  unfold rrStep at h
  dsimp only at h
  split at h
  · -- equal lengths
    rename_i hc
    obtain ⟨hni, hno, hdd⟩ := hc
    split at h
    · cases h
    · rename_i c hc
      injection h with h; subst h
      have hi : st.ni - 1 < inshape.length := by have := hinv.bi; omega
      have ho : st.no - 1 < outshape.length := by have := hinv.bo; omega
      obtain ⟨_, _, hsum⟩ := hv.2 _ c hc
      have hdin := dimAt_get hni hinv.bi
      have hdout := dimAt_get hno hinv.bo
      rw [hsum] at hdin
      injection hdin with hdin
      rw [← hdd, ← hdin] at hdout
      have e1 : st.ni - 1 + 1 = st.ni := by omega
      have e2 : st.no - 1 + 1 = st.no := by omega
      refine ⟨by simp [hinv.li], by simp [hinv.lo], by simp; omega, by simp; omega, ?_, ?_, ?_⟩
      · exact SumsOK_set_self c (by rw [e1]; exact hinv.si) (by rw [hinv.li]; exact hi) hsum
      · exact SumsOK_set_self c (by rw [e2]; exact hinv.so) (by rw [hinv.lo]; exact ho) hdout
      · show groupsOK (sfx (st.ri.set (st.ni - 1) (some c)) (st.ni - 1)) (sfx (st.ro.set (st.no - 1) (some c)) (st.no - 1))
          ((1, 1) :: st.groups) = true
        rw [sfx_set_self _ _ _ (by rw [hinv.li]; exact hi), sfx_set_self _ _ _ (by rw [hinv.lo]; exact ho), e1, e2]
        exact groupsOK_append [c] _ [c] _ _ (contig_single c) (contig_single c) rfl hinv.g
  · split at h
    · -- an input axis of length one
      rename_i _ hc
      obtain ⟨hd1, hni⟩ := hc
      injection h with h; subst h
      have hi : st.ni - 1 < inshape.length := by have := hinv.bi; omega
      have e1 : st.ni - 1 + 1 = st.ni := by omega
      have hs : inshape[st.ni - 1]? = some (sum [1]) := by
        rw [dimAt_get hni hinv.bi, hd1]; rfl
      refine ⟨by simp [hinv.li], hinv.lo, by simp; omega, hinv.bo, ?_, hinv.so, ?_⟩
      · exact SumsOK_set_self [1] (by rw [e1]; exact hinv.si) (by rw [hinv.li]; exact hi) hs
      · show groupsOK (sfx (st.ri.set (st.ni - 1) (some [1])) (st.ni - 1)) (sfx st.ro st.no) ((1, 0) :: st.groups) = true
        rw [sfx_set_self _ _ _ (by rw [hinv.li]; exact hi), e1]
        exact groupsOK_append [[1]] _ [] _ _ (contig_single [1]) rfl rfl hinv.g
    · split at h
      · -- an output axis of length one
        rename_i _ _ hc
        obtain ⟨hd1, hno⟩ := hc
        injection h with h; subst h
        have ho : st.no - 1 < outshape.length := by have := hinv.bo; omega
        have e2 : st.no - 1 + 1 = st.no := by omega
        have hs : outshape[st.no - 1]? = some (sum [1]) := by
          rw [dimAt_get hno hinv.bo, hd1]; rfl
        refine ⟨hinv.li, by simp [hinv.lo], hinv.bi, by simp; omega, hinv.si, ?_, ?_⟩
        · exact SumsOK_set_self [1] (by rw [e2]; exact hinv.so) (by rw [hinv.lo]; exact ho) hs
        · show groupsOK (sfx st.ri st.ni) (sfx (st.ro.set (st.no - 1) (some [1])) (st.no - 1)) ((0, 1) :: st.groups) = true
          rw [sfx_set_self _ _ _ (by rw [hinv.lo]; exact ho), e2]
          exact groupsOK_append [] _ [[1]] _ _ rfl (contig_single [1]) rfl hinv.g
      · split at h
        · cases h
        · rename_i _ _ _ hc
          have hni : st.ni ≠ 0 := fun h0 => hc (Or.inl h0)
          have hno : st.no ≠ 0 := fun h0 => hc (Or.inr h0)
          split at h
          · exact mergeBranch_inv hv hinv hni hno (dimAt_get hno hinv.bo) h
          · exact splitBranch_inv hv hinv hni hno (dimAt_get hni hinv.bi) h


theorem rrLoop_inv {inshape outshape : List Nat} {inchunks : List (List Nat)} (hv : ValidIn inshape inchunks) :
    ∀ (fuel : Nat) (st st' : RRState), Inv inshape outshape st → rrLoop inshape outshape inchunks fuel st = .ok st' →
    Inv inshape outshape st' ∧ st'.ni = 0 ∧ st'.no = 0
  | 0, st, st', hinv, h => by
    unfold rrLoop at h
    split at h
    · rename_i hc; injection h with h; subst h; exact ⟨hinv, hc.1, hc.2⟩
    · cases h
  | fuel + 1, st, st', hinv, h => by
    unfold rrLoop at h
    split at h
    · rename_i hc; injection h with h; subst h; exact ⟨hinv, hc.1, hc.2⟩
    · split at h
      · cases h
      · rename_i st1 hstep
        exact rrLoop_inv hv fuel st1 st' (rrStep_inv hv hinv hstep) h

theorem SumsOK_zero_map {shape : List Nat} {r : List (Option (List Nat))} (hl : r.length = shape.length) (h : SumsOK shape r 0) :
    r = (sfx r 0).map some ∧ (sfx r 0).map sum = shape := by
  unfold sfx
  simp only [List.drop_zero, List.map_map]
  constructor
  · apply List.ext_getElem?
    intro k
    by_cases hk : k < shape.length
    · obtain ⟨c, h1, _⟩ := h k (Nat.zero_le _) hk
      rw [List.getElem?_map, h1]; rfl
    · rw [List.getElem?_eq_none (by omega), List.getElem?_eq_none (by simp; omega)]
  · apply List.ext_getElem?
    intro k
    by_cases hk : k < shape.length
    · obtain ⟨c, h1, h2⟩ := h k (Nat.zero_le _) hk
      rw [List.getElem?_map, h1, h2]; rfl
    · rw [List.getElem?_eq_none (by simp; omega), List.getElem?_eq_none (by omega)]

/-- **the walk only ever produces proved plans**: for valid input chunks, whatever `reshape_rechunk` returns (it may also raise
    NotImplementedError) assigns every axis, its chunk tuples add up to the two shapes, and it decomposes into contiguous
    groups with equal block sizes (`groupsOK`) -/
theorem reshapeRechunk_ok {inshape outshape : List Nat} {inchunks : List (List Nat)} (hv : ValidIn inshape inchunks)
    {ri ro : List (Option (List Nat))} {gs : List (Nat × Nat)}
    (h : reshapeRechunk inshape outshape inchunks = .ok (ri, ro, gs)) :
    ∃ ri' ro', ri = ri'.map some ∧ ro = ro'.map some ∧ ri'.map sum = inshape ∧ ro'.map sum = outshape ∧
      groupsOK ri' ro' gs = true := by
  unfold reshapeRechunk at h
  split at h
  · cases h
  · rename_i st hloop
    injection h with h
    injection h with h1 h2
    injection h2 with h2 h3
    subst h1; subst h2; subst h3
    have h0 : Inv inshape outshape (initState inshape outshape) := by
      refine ⟨by simp [initState], by simp [initState], Nat.le_refl _, Nat.le_refl _, ?_, ?_, ?_⟩
      · intro k h1 h2; simp only [initState] at h1; omega
      · intro k h1 h2; simp only [initState] at h1; omega
      · simp [sfx, groupsOK, initState]
    obtain ⟨hinv, hni, hno⟩ := rrLoop_inv hv _ _ st h0 hloop
    have hsi := hinv.si; have hso := hinv.so; have hg := hinv.g
    rw [hni] at hsi hg; rw [hno] at hso hg
    obtain ⟨a1, a2⟩ := SumsOK_zero_map hinv.li hsi
    obtain ⟨b1, b2⟩ := SumsOK_zero_map hinv.lo hso
    exact ⟨sfx st.ri 0, sfx st.ro 0, a1, b1, a2, b2, hg⟩


end Dask.Reshape
