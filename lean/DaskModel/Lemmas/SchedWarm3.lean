import DaskModel.Lemmas.SchedWarm2
/-! `startStateC_ok`: with a caller-supplied cache `start_state_from_dask` never raises on a graph that is closed modulo the
cache, and the state it returns is - up to the cache entries of keys it did not visit - a state satisfying the scheduler
invariant on the warm graph. -/
namespace Dask.Sched
variable {α : Type}

theorem Map.get?_filterKey {β : Type} (m : Map β) (q : Key → Bool) (k : Key) :
    Map.get? (m.filter (fun p => q p.1)) k = if q k then Map.get? m k else none := by
  induction m with
  | nil => simp
  | cons p m ih =>
    obtain ⟨k', v⟩ := p
    simp only [List.filter_cons]
    by_cases hq : q k' = true
    · simp only [hq, if_true]
      rw [Map.get?_cons, Map.get?_cons, ih]
      by_cases hk : k' = k
      · subst hk; simp [hq]
      · simp [hk]
    · simp only [hq, Bool.false_eq_true, if_false]
      rw [ih, Map.get?_cons]
      by_cases hk : k' = k
      · subst hk; simp [hq]
      · simp [hk]

/-- the cache restricted to the keys the traversal visited -/
def seenCache (s : InitSt α) : Map α := s.cache.filter (fun p => decide (p.1 ∈ s.seen))

theorem get?_seenCache (s : InitSt α) (k : Key) :
    (seenCache s).get? k = if k ∈ s.seen then s.cache.get? k else none := by
  unfold seenCache
  rw [Map.get?_filterKey s.cache (fun k => decide (k ∈ s.seen)) k]
  by_cases h : k ∈ s.seen <;> simp [h]

/-- the state `start_state_from_dask` builds, without the cache entries of keys it did not visit -/
def finalStateC (prio : Key → Nat) (s : InitSt α) : State α :=
  { dependencies := s.dependencies, dependents := s.dependents, waiting := s.waiting, waitingData := s.waitingData, cache := seenCache s, ready := sortAsc prio s.readySet }

theorem IInvC.startOK {cfgW : Cfg} {c0 : Map α} {P : Params α} {den : Key → α}
    (hden : IsDen cfgW.g (warmParams P c0) den) (hG : GraphOK cfgW.g cfgW.results)
    (hc0 : ∀ k, c0.has k = true → isData cfgW.g k)
    {s : InitSt α} (h : IInvC cfgW.g cfgW.results c0 P s) (hstack : s.stack = []) :
    StartOK cfgW den (finalStateC cfgW.prio s) := by
  have hseenIff : ∀ k, (finalStateC cfgW.prio s).seen k ↔ k ∈ s.seen := fun k => h.depsDom k
  have hdepsOf : ∀ k, k ∈ s.seen → (finalStateC cfgW.prio s).depsOf k = nodeDeps cfgW.g k := by
    intro k hk
    obtain ⟨ds, hds⟩ := (h.depsDom k).mpr hk
    show (s.dependencies.get? k).getD [] = _
    rw [hds]
    exact h.depsVal k ds hds
  have hdepsOf0 : ∀ k, k ∉ s.seen → (finalStateC cfgW.prio s).depsOf k = [] := by
    intro k hk
    show (s.dependencies.get? k).getD [] = _
    cases hc : s.dependencies.get? k with
    | none => rfl
    | some ds => exact absurd ((h.depsDom k).mp ⟨ds, hc⟩) hk
  have hdepSeen : ∀ k ∈ s.seen, ∀ d ∈ nodeDeps cfgW.g k, d ∈ s.seen := by
    intro k hk d hd
    rcases h.depCover k hk d hd with h1 | h1
    · exact h1
    · rw [hstack] at h1; cases h1
  have hdone : ∀ d, done cfgW.g (finalStateC cfgW.prio s) d ↔ isData cfgW.g d := by
    intro d
    unfold done
    show isData cfgW.g d ∨ d ∈ ([] : List Key) ↔ _
    simp
  have hCD : ∀ k ∈ s.seen, ∀ d ∈ nodeDeps cfgW.g k, (CDc cfgW.g c0 s d ↔ isData cfgW.g d) := by
    intro k hk d hd
    constructor
    · rintro (hc | hc)
      · exact hc.2
      · exact hc0 d hc
    · exact fun hc => Or.inl ⟨hdepSeen k hk d hd, hc⟩
  have hready : ∀ k, k ∈ (finalStateC cfgW.prio s).ready ↔ k ∈ s.readySet := fun k => mem_isort
  have hgraph : ∀ k ∈ s.seen, isData cfgW.g k ∨ isTask cfgW.g k := by
    intro k hk
    obtain ⟨nd, hnd⟩ := h.seenGraph k hk
    cases nd with
    | data => exact Or.inl hnd
    | task deps => exact Or.inr ⟨deps, hnd⟩
  have hdtsOf : ∀ d, (finalStateC cfgW.prio s).dtsOf d = (s.dependents.get? d).getD [] := fun d => rfl
  have hcache : ∀ d, (finalStateC cfgW.prio s).cache.get? d = if d ∈ s.seen then s.cache.get? d else none :=
    fun d => get?_seenCache s d
  have hval : ∀ d v, s.cache.get? d = some v → isData cfgW.g d ∧ v = den d := by
    intro d v hv
    rcases (h.cacheVal d v).mp hv with h1 | ⟨h0, _, hdat, hv'⟩
    · have hdat : isData cfgW.g d := hc0 d ((Map.has_iff c0 d).mpr ⟨v, h1⟩)
      refine ⟨hdat, ?_⟩
      rw [hden.data d hdat]
      show v = (c0.get? d).getD (P.dataVal d)
      rw [h1]; rfl
    · refine ⟨hdat, ?_⟩
      rw [hden.data d hdat, hv']
      show P.dataVal d = (c0.get? d).getD (P.dataVal d)
      rw [(Map.has_false_iff c0 d).mp h0]; rfl
  refine ⟨⟨⟨?_, ?_, ?_, ?_, ?_, ?_, ?_⟩, ?_, ?_, ?_, ?_, ?_, ?_, ?_, ?_, ?_, ?_, ?_, ?_, ?_, ?_, ?_, ?_, ?_, ?_, ?_, ?_, ?_⟩,
    ?_, rfl, rfl, ?_⟩
  · exact h.depsVal
  · intro k ds hds
    have := h.depsVal k ds hds
    subst this
    unfold nodeDeps
    cases hg : cfgW.g.get? k with
    | none => simp
    | some nd =>
      cases nd with
      | data => simp
      | task deps => simpa using hG.depsNodup k deps hg
  · intro k ds hds d hd
    have hk : k ∈ s.seen := (h.depsDom k).mp ⟨ds, hds⟩
    have := h.depsVal k ds hds
    subst this
    exact (hseenIff d).mpr (hdepSeen k hk d hd)
  · intro k hk
    exact hgraph k ((hseenIff k).mp hk)
  · exact h.dtsNodup
  · intro k hk
    exact h.dtsDom k ((hseenIff k).mp hk)
  · intro d j
    rw [hdtsOf, h.dtsVal d j]
    constructor
    · rintro ⟨h1, h2⟩
      rw [hdepsOf j h1]; exact h2
    · intro h1
      by_cases hj : j ∈ s.seen
      · rw [hdepsOf j hj] at h1; exact ⟨hj, h1⟩
      · rw [hdepsOf0 j hj] at h1; cases h1
  · exact nodup_isort h.readyNodup
  · exact List.nodup_nil
  · exact List.nodup_nil
  · exact List.nodup_nil
  · intro k hk
    obtain ⟨a, b, _⟩ := (h.readyIff k).mp ((hready k).mp hk)
    exact ⟨(hseenIff k).mpr a, b⟩
  · intro k hk; cases hk
  · intro k hk; cases hk
  · intro k w hw
    obtain ⟨a, b, _⟩ := h.waitIff k w hw
    exact ⟨(hseenIff k).mpr a, b⟩
  · intro k _ hk; cases hk
  · intro k _ hk; cases hk
  · intro k hk; cases hk
  · intro k w hw
    refine ⟨?_, (fun hk => by cases hk), (fun hk => by cases hk)⟩
    intro hk
    obtain ⟨_, _, hne, hex⟩ := h.waitIff k w hw
    obtain ⟨d, hd⟩ := List.exists_mem_of_ne_nil w hne
    obtain ⟨hdk, hncd⟩ := (hex d).mp hd
    exact hncd (((h.readyIff k).mp ((hready k).mp hk)).2.2 d hdk)
  · intro k hk ht
    have hks := (hseenIff k).mp hk
    by_cases hall : ∀ d ∈ nodeDeps cfgW.g k, CDc cfgW.g c0 s d
    · exact Or.inr (Or.inl ((hready k).mpr ((h.readyIff k).mpr ⟨hks, ht, hall⟩)))
    · left
      apply h.waitCover k hks ht
      apply Classical.byContradiction
      intro hno
      apply hall
      intro d hd
      apply Classical.byContradiction
      intro hc
      exact hno ⟨d, hd, hc⟩
  · intro k w hw
    obtain ⟨hks, _, hne, hex⟩ := h.waitIff k w hw
    refine ⟨hne, ?_⟩
    intro d
    rw [hex d, hdepsOf k hks, hdone]
    constructor
    · rintro ⟨h1, h2⟩
      exact ⟨h1, fun hc => h2 ((hCD k hks d h1).mpr hc)⟩
    · rintro ⟨h1, h2⟩
      exact ⟨h1, fun hc => h2 ((hCD k hks d h1).mp hc)⟩
  · intro k hk d hd
    rcases hk with h1 | h1 | h1
    · obtain ⟨hks, _, hall⟩ := (h.readyIff k).mp ((hready k).mp h1)
      rw [hdepsOf k hks] at hd
      exact (hdone d).mpr ((hCD k hks d hd).mp (hall d hd))
    · cases h1
    · cases h1
  · intro d l hl j
    have hl' : s.dependents.get? d = some l := by
      have : s.waitingData.get? d = some l := hl
      rw [h.wdEq] at this; exact this
    rw [hdtsOf, hl']
    simp only [Option.getD_some]
    constructor
    · intro hj; exact ⟨hj, fun hc => by cases hc⟩
    · intro hj; exact hj.1
  · intro d hd
    have hds := (hseenIff d).mp hd
    obtain ⟨l, hl⟩ := h.dtsDom d hds
    have : (finalStateC cfgW.prio s).waitingData.get? d = some l := by
      show s.waitingData.get? d = some l
      rw [h.wdEq]; exact hl
    rw [this]
    constructor
    · intro hc; cases hc
    · intro hc; cases hc
  · intro d hd; cases hd
  · -- cacheIff
    intro d hd
    have hds := (hseenIff d).mp hd
    rw [hdone, hcache d, if_pos hds]
    constructor
    · rintro ⟨v, hv⟩
      exact ⟨(hval d v hv).1, fun hc => by cases hc⟩
    · rintro ⟨hdat, _⟩
      exact (Map.has_iff s.cache d).mp ((h.has_iff_CDc d).mpr (Or.inl ⟨hds, hdat⟩))
  · intro d l hl hres
    have hl' : s.dependents.get? d = some l := by
      have : s.waitingData.get? d = some l := hl
      rw [h.wdEq] at this; exact this
    intro he
    subst he
    rcases h.dtsLive d [] hl' with h1 | h1
    · rcases h.needed d (Or.inl h1) with h2 | ⟨j, hj, hdj⟩
      · exact hres h2
      · have := (h.dtsVal d j).mpr ⟨hj, hdj⟩
        rw [hl'] at this
        cases this
    · exact h1 rfl
  · -- cacheSeen
    intro d v hv
    rw [hcache d] at hv
    by_cases hds : d ∈ s.seen
    · exact (hseenIff d).mpr hds
    · rw [if_neg hds] at hv; cases hv
  · -- sound
    intro d v hv
    rw [hcache d] at hv
    by_cases hds : d ∈ s.seen
    · rw [if_pos hds] at hv
      exact (hval d v hv).2
    · rw [if_neg hds] at hv; cases hv
  · intro r hr
    rcases h.resCover r hr with h1 | h1
    · exact (hseenIff r).mpr h1
    · rw [hstack] at h1; cases h1

/-- the keys the traversal visited are exactly the keys reachable from the request in the warm graph -/
theorem IInvC.seen_iff_reach {G : Graph} {results : List Key} {c0 : Map α} {P : Params α} {s : InitSt α}
    (h : IInvC G results c0 P s) (hstack : s.stack = []) (k : Key) : k ∈ s.seen ↔ Reach G results k := by
  constructor
  · intro hk; exact h.reach k (Or.inl hk)
  · intro hr
    induction hr with
    | base hr =>
      rcases h.resCover _ hr with h1 | h1
      · exact h1
      · rw [hstack] at h1; cases h1
    | step _ hkj ih =>
      rcases h.depCover _ ih _ hkj with h1 | h1
      · exact h1
      · rw [hstack] at h1; cases h1

/-- the fuel `startStateC` computes from `g` -/
def initFuelC (cfg : Cfg) (ks : List Key) : Nat :=
  ks.length + (cfg.g.map (fun p => match p.2 with | .data => 0 | .task deps => deps.length)).sum + 1

/-- **`startStateC_ok`**: `start_state_from_dask(dsk, cache=c0, keys=results)` on a graph that is closed modulo the cache
never raises; the state `st0` it returns has, besides entries for keys it did not visit, exactly the cache of a state `st1`
that satisfies the scheduler invariant ON THE WARM GRAPH; `st0` and `st1` agree in every other component. -/
theorem startStateC_ok (cfg : Cfg) (P : Params α) (c0 : Map α) {den : Key → α}
    (hden : IsDen (warmGraph cfg.g c0) (warmParams P c0) den) (hG : GraphOK (warmGraph cfg.g c0) cfg.results) :
    ∃ s : InitSt α, startStateC cfg P c0 (some cfg.results) = .ok (finalState cfg.prio s) ∧
      StartOK (warmCfg cfg c0) den (finalStateC cfg.prio s) ∧
      (∀ k, (finalStateC cfg.prio s).seen k ↔ Reach (warmGraph cfg.g c0) cfg.results k) ∧
      (∀ k v, s.cache.get? k = some v ↔
        (c0.get? k = some v ∨ (c0.has k = false ∧ k ∈ s.seen ∧ isData (warmGraph cfg.g c0) k ∧ v = P.dataVal k))) := by
  have hm : measure cfg.g ({ stack := cfg.results, cache := c0 } : InitSt α) < initFuelC cfg cfg.results := by
    have hf : initFuelC cfg cfg.results = cfg.results.length + remSum cfg.g [] + 1 := by
      rw [remSum_nil]
      rfl
    rw [hf]
    unfold measure
    show cfg.results.length + remSum cfg.g [] < _
    omega
  obtain ⟨s', hrun, hI, hst⟩ := initLoopC_spec (P := P) hG (initFuelC cfg cfg.results) _ (IInvC.init hG) hm
  refine ⟨s', ?_, ?_, fun k => (hI.depsDom k).trans (hI.seen_iff_reach hst k), hI.cacheVal⟩
  · have hdef : startStateC cfg P c0 (some cfg.results) =
        (match initLoop cfg.g P (initFuelC cfg cfg.results) { stack := cfg.results, cache := c0 } with
         | .error e => .error e
         | .ok s => .ok (finalState cfg.prio s)) := rfl
    rw [hdef, hrun]
  · exact IInvC.startOK (cfgW := warmCfg cfg c0) hden hG (fun k hk => warm_data_of_has hk) hI hst

end Dask.Sched
