import DaskModel.Model.GraphAlg
/-! Invariants of the explicit-stack DFS of `_toposort` (helper lemmas for Props/C07). -/
namespace Dask.GraphAlg

/-- `b` is a dependency of `a` -/
def Edge (g : Graph) (a b : Key) : Prop := ∃ ds, deps? g a = some ds ∧ b ∈ ds

/-- reachable from one of the start keys along dependency edges -/
inductive Reach (g : Graph) (keys : List Key) : Key → Prop
  | start {k} : k ∈ keys → Reach g keys k
  | step {a b} : Reach g keys a → Edge g a b → Reach g keys b

/-- consecutive elements are dependency edges -/
def ChainE (g : Graph) : List Key → Prop
  | a :: b :: rest => Edge g a b ∧ ChainE g (b :: rest)
  | _ => True

/-- `l` (most recent first) is a reversed topological order: each element is new and all its dependencies
    come later in `l` (= were completed earlier). -/
def TopoRev (g : Graph) : List Key → Prop
  | [] => True
  | k :: l => k ∉ l ∧ (∀ d, Edge g k d → d ∈ l) ∧ TopoRev g l

theorem nodup_reverse {l : List Key} (h : l.Nodup) : l.reverse.Nodup := by
  unfold List.Nodup at *; rw [List.pairwise_reverse]; exact h.imp (fun h => h.symm)

theorem TopoRev.nodup {g : Graph} : ∀ {l : List Key}, TopoRev g l → l.Nodup
  | [], _ => List.nodup_nil
  | _ :: _, ⟨h1, _, h3⟩ => List.nodup_cons.mpr ⟨h1, TopoRev.nodup h3⟩

theorem TopoRev.closed {g : Graph} : ∀ {l : List Key}, TopoRev g l → ∀ k ∈ l, ∀ d, Edge g k d → d ∈ l
  | [], _, k, hk, _, _ => by simp at hk
  | x :: l, ⟨_, h2, h3⟩, k, hk, d, hd => by
    rcases List.mem_cons.mp hk with rfl | hk
    · exact List.mem_cons_of_mem _ (h2 d hd)
    · exact List.mem_cons_of_mem _ (TopoRev.closed h3 k hk d hd)

/-- in a reversed topological order every dependency of `k` sits strictly after `k` -/
theorem TopoRev.split {g : Graph} : ∀ {l : List Key}, TopoRev g l → ∀ pre k post, l = pre ++ k :: post →
    ∀ d, Edge g k d → d ∈ post
  | [], _, pre, k, post, h, _, _ => by simp at h
  | x :: l, ⟨_, h2, h3⟩, pre, k, post, h, d, hd => by
    cases pre with
    | nil =>
      simp only [List.nil_append, List.cons.injEq] at h
      obtain ⟨rfl, rfl⟩ := h
      exact h2 d hd
    | cons p pre =>
      simp only [List.cons_append, List.cons.injEq] at h
      exact TopoRev.split h3 pre k post h.2 d hd

/-! ### invariant of the traversal -/

structure Inv (g : Graph) (keys : List Key) (s : St) : Prop where
  ord : s.ordered = s.completed
  topo : TopoRev g s.completed
  reachN : ∀ x ∈ s.nodes, Reach g keys x
  reachC : ∀ x ∈ s.completed, Reach g keys x

theorem mem_filter_not_completed {ds completed : List Key} {d : Key}
    (h : d ∈ ds.filter (fun d => !completed.contains d)) : d ∈ ds ∧ d ∉ completed := by
  simp only [List.mem_filter, Bool.not_eq_true', List.contains_eq_mem, decide_eq_false_iff_not] at h
  exact h

theorem step_inv {g : Graph} {keys : List Key} {s s' : St} (hi : Inv g keys s)
    (h : step g s = .cont s') : Inv g keys s' := by
  unfold step at h
  split at h
  · cases h; exact hi
  · rename_i cur rest hn
    split at h
    · cases h
      exact ⟨hi.ord, hi.topo, fun x hx => hi.reachN x (by simp [hn, hx]), hi.reachC⟩
    · rename_i hcc
      simp only at h
      split at h
      · cases h
      · rename_i ds hds
        split at h
        · cases h
        · split at h
          · rename_i hemp
            cases h
            have hcur : Reach g keys cur := hi.reachN cur (by simp [hn])
            refine ⟨by simp [hi.ord], ⟨?_, ?_, hi.topo⟩, fun x hx => hi.reachN x (by simp [hn, hx]), ?_⟩
            · simpa using hcc
            · rintro d ⟨ds', hds', hd⟩
              rw [hds] at hds'; cases hds'
              refine Classical.byContradiction fun hnc => ?_
              simp [List.isEmpty_iff] at hemp
              exact hnc (hemp d hd)
            · intro x hx
              rcases List.mem_cons.mp hx with rfl | hx
              · exact hcur
              · exact hi.reachC x hx
          · cases h
            have hcur : Reach g keys cur := hi.reachN cur (by simp [hn])
            refine ⟨hi.ord, hi.topo, ?_, hi.reachC⟩
            intro x hx
            simp only [List.mem_append, List.mem_reverse] at hx
            rcases hx with hx | hx
            · exact Reach.step hcur ⟨ds, hds, (mem_filter_not_completed hx).1⟩
            · exact hi.reachN x hx

/-- the stack is only popped past completed nodes -/
theorem step_keeps {g : Graph} {s s' : St} {k : Key} (h : step g s = .cont s')
    (hk : k ∈ s.completed ∨ k ∈ s.nodes) : k ∈ s'.completed ∨ k ∈ s'.nodes := by
  unfold step at h
  split at h
  · cases h; exact hk
  · rename_i cur rest hn
    rw [hn] at hk
    split at h
    · rename_i hc
      cases h
      rcases hk with hk | hk
      · exact Or.inl hk
      · rcases List.mem_cons.mp hk with rfl | hk
        · exact Or.inl (by simpa using hc)
        · exact Or.inr hk
    · simp only at h
      split at h
      · cases h
      · split at h
        · cases h
        · split at h
          · cases h
            rcases hk with hk | hk
            · exact Or.inl (List.mem_cons_of_mem _ hk)
            · rcases List.mem_cons.mp hk with rfl | hk
              · exact Or.inl (by simp)
              · exact Or.inr hk
          · cases h
            rcases hk with hk | hk
            · exact Or.inl hk
            · exact Or.inr (by simp [hn, hk])

theorem inner_inv {g : Graph} {keys : List Key} : ∀ (fuel : Nat) {s s' : St}, Inv g keys s →
    inner g fuel s = .ok s' → Inv g keys s' ∧ s'.nodes = [] ∧
      ∀ k, (k ∈ s.completed ∨ k ∈ s.nodes) → k ∈ s'.completed
  | 0, _, _, _, h => by simp [inner] at h
  | fuel + 1, s, s', hi, h => by
    unfold inner at h
    split at h
    · rename_i hemp
      cases h
      have hn : s.nodes = [] := by simpa [List.isEmpty_iff] using hemp
      refine ⟨hi, hn, ?_⟩
      intro k hk
      rcases hk with hk | hk
      · exact hk
      · simp [hn] at hk
    · split at h
      · rename_i s1 hs1
        obtain ⟨h1, h2, h3⟩ := inner_inv fuel (step_inv hi hs1) h
        exact ⟨h1, h2, fun k hk => h3 k (step_keeps hs1 hk)⟩
      · cases h

theorem outer_inv {g : Graph} {keys : List Key} (fuel : Nat) : ∀ (ks : List Key) {s s' : St}, Inv g keys s →
    s.nodes = [] → (∀ k ∈ ks, k ∈ keys) →
    outer g fuel ks s = .ok s' → Inv g keys s' ∧ (∀ k ∈ s.completed, k ∈ s'.completed) ∧ ∀ k ∈ ks, k ∈ s'.completed
  | [], s, s', hi, _, _, h => by
    simp only [outer, Except.ok.injEq] at h
    subst h
    exact ⟨hi, fun _ h => h, by simp⟩
  | key :: ks, s, s', hi, hn, hks, h => by
    unfold outer at h
    split at h
    · rename_i hc
      obtain ⟨h1, h2, h3⟩ := outer_inv fuel ks hi hn (fun k hk => hks k (List.mem_cons_of_mem _ hk)) h
      refine ⟨h1, h2, ?_⟩
      intro k hk
      rcases List.mem_cons.mp hk with rfl | hk
      · exact h2 _ (by simpa using hc)
      · exact h3 k hk
    · split at h
      · rename_i s1 hs1
        have hi0 : Inv g keys { s with nodes := [key] } :=
          ⟨hi.ord, hi.topo, fun x hx => by
            simp only [List.mem_singleton] at hx; subst hx
            exact Reach.start (hks _ (by simp)), hi.reachC⟩
        obtain ⟨a1, a2, a3⟩ := inner_inv fuel hi0 hs1
        obtain ⟨h1, h2, h3⟩ := outer_inv fuel ks a1 a2 (fun k hk => hks k (List.mem_cons_of_mem _ hk)) h
        refine ⟨h1, fun k hk => h2 k (a3 k (Or.inl hk)), ?_⟩
        intro k hk
        rcases List.mem_cons.mp hk with rfl | hk
        · exact h2 _ (a3 _ (Or.inr (by simp)))
        · exact h3 k hk
      · cases h

end Dask.GraphAlg

namespace Dask.GraphAlg

/-! ### the cycle branch -/

/-- a closed walk along dependency edges -/
def IsCycle (g : Graph) (c : List Key) : Prop := 2 ≤ c.length ∧ c.head? = c.getLast? ∧ ChainE g c

theorem argminPrio_mem (prio : List (Key × Int)) : ∀ (xs : List Key) {p : Key}, argminPrio prio xs = some p → p ∈ xs
  | [], _, h => by simp [argminPrio] at h
  | x :: xs, p, h => by
    unfold argminPrio at h
    split at h
    · cases h; simp
    · rename_i y hy
      split at h
      · cases h; simp
      · cases h; exact List.mem_cons_of_mem _ (argminPrio_mem prio xs hy)

theorem dependentsIn_edge {g : Graph} {inplay : List Key} {v p : Key} (h : p ∈ dependentsIn g inplay v) :
    p ∈ inplay ∧ Edge g p v := by
  unfold dependentsIn at h
  rw [List.mem_filter] at h
  refine ⟨h.1, ?_⟩
  have h2 := h.2
  split at h2
  · rename_i ds hds
    exact ⟨ds, hds, by simpa using h2⟩
  · cases h2

theorem walk_cycle {g : Graph} {inplay : List Key} {prio : List (Key × Int)} {target : Key} :
    ∀ (fuel : Nat) (acc : List Key) (prev : Key) {c : List Key},
      walk g inplay prio target fuel acc prev = .cycle c →
      acc.head? = some prev → ChainE g acc → acc.getLast? = some target → 2 ≤ acc.length →
      c.head? = some target ∧ c.getLast? = some target ∧ ChainE g c ∧ 2 ≤ c.length
  | 0, _, _, _, h, _, _, _, _ => by simp [walk] at h
  | fuel + 1, acc, prev, c, h, hh, hc, hl, hlen => by
    unfold walk at h
    split at h
    · rename_i hpt
      cases h
      exact ⟨by rw [hh, hpt], hl, hc, hlen⟩
    · split at h
      · cases h
      · rename_i last tl
        split at h
        · cases h
        · rename_i p hp
          have hm := argminPrio_mem prio _ hp
          have he := (dependentsIn_edge hm).2
          refine walk_cycle fuel (p :: last :: tl) p h rfl ⟨he, hc⟩ ?_ (by simp)
          simpa [List.getLast?_cons_cons] using hl

theorem extractCycle_cycle {g : Graph} {cur nxt : Key} {rest c : List Key}
    (h : extractCycle g (cur :: rest) nxt = .cycle c) (he : Edge g cur nxt) :
    c.head? = some nxt ∧ c.getLast? = some nxt ∧ ChainE g c ∧ 2 ≤ c.length := by
  unfold extractCycle at h
  simp only at h
  split at h
  · cases h
  · split at h
    · exact walk_cycle _ _ _ h rfl ⟨he, trivial⟩ (by simp) (by simp)
    · cases h

theorem ChainE.reach {g : Graph} {keys : List Key} : ∀ {c : List Key} {a : Key}, ChainE g (a :: c) →
    Reach g keys a → ∀ x ∈ a :: c, Reach g keys x
  | [], a, _, ha, x, hx => by simp at hx; subst hx; exact ha
  | b :: c, a, ⟨hab, hc⟩, ha, x, hx => by
    rcases List.mem_cons.mp hx with rfl | hx
    · exact ha
    · exact ChainE.reach hc (Reach.step ha hab) x hx

/-- a `.cycle c` answer of one step is a closed dependency walk through reachable keys -/
theorem step_cycle {g : Graph} {keys : List Key} {s : St} {c : List Key} (hi : Inv g keys s)
    (h : step g s = .done (.cycle c)) : IsCycle g c ∧ ∀ x ∈ c, Reach g keys x := by
  unfold step at h
  split at h
  · cases h
  · rename_i cur rest hn
    split at h
    · cases h
    · simp only at h
      split at h
      · cases h
      · rename_i ds hds
        split at h
        · rename_i nxt hnxt
          have hmem := List.mem_of_find?_eq_some hnxt
          have hd := (mem_filter_not_completed hmem).1
          have he : Edge g cur nxt := ⟨ds, hds, hd⟩
          rw [hn] at h
          simp only [StepRes.done.injEq] at h
          obtain ⟨h1, h2, h3, h4⟩ := extractCycle_cycle h he
          refine ⟨⟨h4, by rw [h1, h2], h3⟩, ?_⟩
          have hcur : Reach g keys cur := hi.reachN cur (by simp [hn])
          cases c with
          | nil => simp at h4
          | cons a c =>
            simp only [List.head?_cons, Option.some.injEq] at h1
            subst h1
            exact ChainE.reach h3 (Reach.step hcur he)
        · split at h <;> cases h

theorem inner_cycle {g : Graph} {keys : List Key} {c : List Key} : ∀ (fuel : Nat) {s : St}, Inv g keys s →
    inner g fuel s = .error (.cycle c) → IsCycle g c ∧ ∀ x ∈ c, Reach g keys x
  | 0, _, _, h => by simp [inner] at h
  | fuel + 1, s, hi, h => by
    unfold inner at h
    split at h
    · cases h
    · split at h
      · rename_i s1 hs1
        exact inner_cycle fuel (step_inv hi hs1) h
      · rename_i o ho
        simp only [Except.error.injEq] at h
        subst h
        exact step_cycle hi ho

theorem outer_cycle {g : Graph} {keys : List Key} {c : List Key} (fuel : Nat) : ∀ (ks : List Key) {s : St},
    Inv g keys s → s.nodes = [] → (∀ k ∈ ks, k ∈ keys) →
    outer g fuel ks s = .error (.cycle c) → IsCycle g c ∧ ∀ x ∈ c, Reach g keys x
  | [], _, _, _, _, h => by simp [outer] at h
  | key :: ks, s, hi, hn, hks, h => by
    unfold outer at h
    split at h
    · exact outer_cycle fuel ks hi hn (fun k hk => hks k (List.mem_cons_of_mem _ hk)) h
    · have hi0 : Inv g keys { s with nodes := [key] } :=
        ⟨hi.ord, hi.topo, fun x hx => by
          simp only [List.mem_singleton] at hx; subst hx
          exact Reach.start (hks _ (by simp)), hi.reachC⟩
      split at h
      · rename_i s1 hs1
        obtain ⟨a1, a2, _⟩ := inner_inv fuel hi0 hs1
        exact outer_cycle fuel ks a1 a2 (fun k hk => hks k (List.mem_cons_of_mem _ hk)) h
      · rename_i o ho
        simp only [Except.error.injEq] at h
        subst h
        exact inner_cycle fuel hi0 ho

end Dask.GraphAlg

namespace Dask.GraphAlg

/-- a non-empty dependency path -/
inductive Path (g : Graph) : Key → Key → Prop
  | single {a b} : Edge g a b → Path g a b
  | cons {a b c} : Edge g a b → Path g b c → Path g a c

theorem TopoRev.path_closed {g : Graph} {l : List Key} (h : TopoRev g l) {a b : Key} (p : Path g a b) :
    a ∈ l → b ∈ l := by
  induction p with
  | single e => exact fun ha => h.closed _ ha _ e
  | cons e _ ih => exact fun ha => ih (h.closed _ ha _ e)

theorem TopoRev.no_cycle {g : Graph} : ∀ {l : List Key}, TopoRev g l → ∀ a ∈ l, ¬ Path g a a
  | [], _, a, ha, _ => by simp at ha
  | x :: l, ⟨h1, h2, h3⟩, a, ha, p => by
    rcases List.mem_cons.mp ha with rfl | ha
    · cases p with
      | single e => exact h1 (h2 _ e)
      | cons e p' => exact h1 (h3.path_closed p' (h2 _ e))
    · exact TopoRev.no_cycle h3 a ha p

theorem IsCycle.path {g : Graph} {c : List Key} (h : IsCycle g c) : ∃ k ∈ c, Path g k k := by
  obtain ⟨hlen, hhl, hc⟩ := h
  -- general fact: a chain `a :: rest` with `rest ≠ []` is a path from `a` to its last element
  have key : ∀ (rest : List Key) (a : Key), rest ≠ [] → ChainE g (a :: rest) →
      ∀ z, (a :: rest).getLast? = some z → Path g a z := by
    intro rest
    induction rest with
    | nil => intro a h; exact absurd rfl h
    | cons b rest ih =>
      intro a _ hch z hz
      cases rest with
      | nil =>
        simp at hz; subst hz
        exact Path.single hch.1
      | cons b' rest' =>
        refine Path.cons hch.1 (ih b (by simp) hch.2 z ?_)
        simpa [List.getLast?_cons_cons] using hz
  cases c with
  | nil => simp at hlen
  | cons a rest =>
    cases rest with
    | nil => simp at hlen
    | cons b rest' =>
      refine ⟨a, by simp, key (b :: rest') a (by simp) hc a ?_⟩
      rw [← hhl]; simp

end Dask.GraphAlg

namespace Dask.GraphAlg

/-! ### `.ordered` is produced only by a completed traversal -/

theorem walk_ne_ordered {g : Graph} {ip : List Key} {pr : List (Key × Int)} {tg : Key} {xs : List Key} :
    ∀ (f : Nat) (acc : List Key) (prev : Key), walk g ip pr tg f acc prev ≠ .ordered xs
  | 0, _, _, h => by simp [walk] at h
  | f + 1, acc, prev, h => by
    unfold walk at h
    split at h
    · cases h
    · split at h
      · cases h
      · split at h
        · cases h
        · exact walk_ne_ordered f _ _ h

theorem extractCycle_ne_ordered {g : Graph} {nodes : List Key} {nxt : Key} {xs : List Key} :
    extractCycle g nodes nxt ≠ .ordered xs := by
  intro h
  unfold extractCycle at h
  split at h
  · cases h
  · simp only at h
    split at h
    · cases h
    · split at h
      · exact walk_ne_ordered _ _ _ h
      · cases h

theorem step_ne_ordered {g : Graph} {s : St} {xs : List Key} : step g s ≠ .done (.ordered xs) := by
  intro h
  unfold step at h
  split at h
  · cases h
  · split at h
    · cases h
    · simp only at h
      split at h
      · cases h
      · split at h
        · simp only [StepRes.done.injEq] at h
          exact extractCycle_ne_ordered h
        · split at h <;> cases h

theorem inner_ne_ordered {g : Graph} {xs : List Key} : ∀ (fuel : Nat) (s : St), inner g fuel s ≠ .error (.ordered xs)
  | 0, _, h => by simp [inner] at h
  | fuel + 1, s, h => by
    unfold inner at h
    split at h
    · cases h
    · split at h
      · exact inner_ne_ordered fuel _ h
      · rename_i o ho
        simp only [Except.error.injEq] at h
        subst h
        exact step_ne_ordered ho

theorem outer_ne_ordered {g : Graph} {xs : List Key} (fuel : Nat) :
    ∀ (ks : List Key) (s : St), outer g fuel ks s ≠ .error (.ordered xs)
  | [], _, h => by simp [outer] at h
  | key :: ks, s, h => by
    unfold outer at h
    split at h
    · exact outer_ne_ordered fuel ks _ h
    · split at h
      · exact outer_ne_ordered fuel ks _ h
      · rename_i o ho
        simp only [Except.error.injEq] at h
        subst h
        exact inner_ne_ordered _ _ ho

end Dask.GraphAlg
