import DaskModel.Lemmas.BagShuffle
/-! The staged shuffle preserves the multiset of elements (`List.Perm`), core Lean only. -/
namespace Dask.BagShuffle

/-! ### generic list facts -/

theorem flatMap_congr' {γ δ : Type} (l : List γ) (f g : γ → List δ) (h : ∀ x, x ∈ l → f x = g x) :
    l.flatMap f = l.flatMap g := by
  induction l with
  | nil => rfl
  | cons x xs ih =>
    simp only [List.flatMap_cons]
    rw [h x (by simp), ih (fun y hy => h y (List.mem_cons_of_mem _ hy))]

theorem flatMap_getD_range {γ : Type} (ps : List (List γ)) :
    ((List.range ps.length).flatMap fun u => ps.getD u []) = ps.flatten := by
  induction ps with
  | nil => simp
  | cons p ps ih =>
    rw [List.length_cons, List.range_succ_eq_map, List.flatMap_cons, List.flatMap_map]
    simp only [List.flatten_cons]
    congr 1

/-- a nested `flatMap` over `t < K`, `j < k` is one `flatMap` over `i < K * k` -/
theorem flatMap_range_mul {γ : Type} (K k : Nat) (hk : 0 < k) (F : Nat → Nat → List γ) :
    ((List.range K).flatMap fun t => (List.range k).flatMap fun j => F t j) =
      (List.range (K * k)).flatMap fun i => F (i / k) (i % k) := by
  induction K with
  | zero => simp
  | succ K ih =>
    rw [List.range_succ, List.flatMap_append, ih, Nat.succ_mul]
    simp only [List.flatMap_cons, List.flatMap_nil, List.append_nil]
    -- range (K*k + k) = range (K*k) ++ map (K*k + ·) (range k)
    have hr : List.range (K * k + k) = List.range (K * k) ++ (List.range k).map (K * k + ·) := by
      rw [List.range_add]
    rw [hr, List.flatMap_append, List.flatMap_map]
    congr 1
    apply flatMap_congr'
    intro j hj
    have hj' : j < k := List.mem_range.mp hj
    have h1 : (K * k + j) / k = K := by
      rw [Nat.mul_comm, Nat.mul_add_div hk, Nat.div_eq_of_lt hj']; rfl
    have h2 : (K * k + j) % k = j := by
      rw [Nat.mul_comm, Nat.mul_add_mod, Nat.mod_eq_of_lt hj']
    rw [h1, h2]

/-- a bijection of `[0, N)` permutes `range N` -/
theorem map_range_perm (N : Nat) (ψ ψi : Nat → Nat) (h1 : ∀ i, i < N → ψ i < N) (h2 : ∀ i, i < N → ψi i < N)
    (h3 : ∀ i, i < N → ψi (ψ i) = i) (h4 : ∀ i, i < N → ψ (ψi i) = i) :
    ((List.range N).map ψ).Perm (List.range N) := by
  rw [List.perm_ext_iff_of_nodup]
  · intro a
    simp only [List.mem_map, List.mem_range]
    constructor
    · rintro ⟨i, hi, rfl⟩; exact h1 i hi
    · intro ha; exact ⟨ψi a, h2 a ha, h4 a ha⟩
  · rw [List.Nodup, List.pairwise_map]
    refine List.Pairwise.imp_of_mem ?_ List.pairwise_lt_range
    intro a b ha hb hab heq
    have ha' := List.mem_range.mp ha
    have hb' := List.mem_range.mp hb
    have := congrArg ψi heq
    rw [h3 a ha', h3 b hb'] at this
    omega
  · exact List.nodup_range

theorem filter_or_perm {γ : Type} (p q : γ → Bool) (l : List γ) (hdisj : ∀ x, ¬ (p x = true ∧ q x = true)) :
    (l.filter p ++ l.filter q).Perm (l.filter fun x => p x || q x) := by
  induction l with
  | nil => simp
  | cons x xs ih =>
    simp only [List.filter_cons]
    by_cases hp : p x = true
    · have hq : q x = false := by
        cases hqx : q x with
        | false => rfl
        | true => exact absurd ⟨hp, hqx⟩ (hdisj x)
      simp only [hp, hq, if_true, Bool.true_or, Bool.false_eq_true, if_false, List.cons_append]
      exact List.Perm.cons x ih
    · have hp' : p x = false := by simpa using hp
      by_cases hq : q x = true
      · simp only [hp', hq, Bool.false_eq_true, if_false, if_true, Bool.false_or]
        exact (List.perm_middle).trans (List.Perm.cons x ih)
      · have hq' : q x = false := by simpa using hq
        simp only [hp', hq', Bool.false_eq_true, if_false, Bool.or_self]
        exact ih

/-- splitting a list by the value of `f` (values below `k`) and concatenating gives a permutation -/
theorem flatMap_filter_perm {γ : Type} (f : γ → Nat) (k : Nat) (l : List γ) :
    ((List.range k).flatMap fun d => l.filter fun x => f x == d).Perm (l.filter fun x => decide (f x < k)) := by
  induction k with
  | zero => simp
  | succ k ih =>
    rw [List.range_succ, List.flatMap_append]
    simp only [List.flatMap_cons, List.flatMap_nil, List.append_nil]
    refine (List.Perm.append_right _ ih).trans ?_
    refine (filter_or_perm _ _ l ?_).trans ?_
    · intro x ⟨h1, h2⟩
      simp only [decide_eq_true_eq, beq_iff_eq] at h1 h2; omega
    · apply List.Perm.of_eq
      apply List.filter_congr
      intro x _
      by_cases h : f x < k
      · have : f x < k + 1 := by omega
        simp [h, this]
      · by_cases h2 : f x = k
        · simp [h2]
        · have : ¬ f x < k + 1 := by omega
          simp [h, h2, this]

/-! ### one stage -/

theorem setDigit_setDigit (t s v w k : Nat) (hk : 0 < k) (hv : v < k) :
    setDigit (setDigit t s v k) s w k = setDigit t s w k := by
  rw [setDigit_eq (setDigit t s v k), setDigit_high t s v k hk hv, setDigit_low t s v k hk, ← setDigit_eq]

/-- **one stage is a permutation** of the elements (for `K = k^S`, `s < S`, all `K` partitions present) -/
theorem stageStep_perm {α : Type} (k S s : Nat) (hk : 0 < k) (hs : s < S) (ps : List (List (Nat × α)))
    (hlen : ps.length = k ^ S) : (stageStep k (k ^ S) s ps).flatten.Perm ps.flatten := by
  have hK : 0 < k ^ S := Nat.pow_pos hk
  -- encode (t, j) ↦ t * k + j
  let ψ : Nat → Nat := fun i => setDigit (i / k) s (i % k) k * k + digit (i / k) s k
  let ψi : Nat → Nat := fun i => setDigit (i / k) s (i % k) k * k + digit (i / k) s k
  have hdiv : ∀ a b, b < k → (a * k + b) / k = a := by
    intro a b hb; rw [Nat.mul_comm, Nat.mul_add_div hk, Nat.div_eq_of_lt hb]; rfl
  have hmod : ∀ a b, b < k → (a * k + b) % k = b := by
    intro a b hb; rw [Nat.mul_comm, Nat.mul_add_mod, Nat.mod_eq_of_lt hb]
  have hrange : ∀ i, i < k ^ S * k → ψ i < k ^ S * k := by
    intro i hi
    have ht : i / k < k ^ S := by rw [Nat.div_lt_iff_lt_mul hk]; exact hi
    have hj : i % k < k := Nat.mod_lt _ hk
    have h1 := setDigit_lt (i / k) s (i % k) k S hk hj hs ht
    have h2 : digit (i / k) s k < k := Nat.mod_lt _ hk
    show setDigit (i / k) s (i % k) k * k + digit (i / k) s k < k ^ S * k
    have : (setDigit (i / k) s (i % k) k + 1) * k ≤ k ^ S * k := Nat.mul_le_mul_right k h1
    rw [Nat.add_mul, Nat.one_mul] at this
    omega
  have hinv : ∀ i, i < k ^ S * k → ψi (ψ i) = i := by
    intro i hi
    have hj : i % k < k := Nat.mod_lt _ hk
    have h2 : digit (i / k) s k < k := Nat.mod_lt _ hk
    show setDigit ((setDigit (i / k) s (i % k) k * k + digit (i / k) s k) / k) s
        ((setDigit (i / k) s (i % k) k * k + digit (i / k) s k) % k) k * k +
        digit ((setDigit (i / k) s (i % k) k * k + digit (i / k) s k) / k) s k = i
    rw [hdiv _ _ h2, hmod _ _ h2, setDigit_setDigit _ _ _ _ _ hk hj, setDigit_self _ _ _ hk,
      digit_setDigit _ _ _ _ hk hj]
    have := Nat.div_add_mod i k
    rw [Nat.mul_comm] at this; exact this
  have hperm := map_range_perm (k ^ S * k) ψ ψi hrange hrange hinv hinv
  -- left side as a single flatMap over i < K * k
  have hL : (stageStep k (k ^ S) s ps).flatten =
      (List.range (k ^ S * k)).flatMap fun i =>
        (ps.getD (ψ i / k) []).filter fun e => digit e.1 s k == ψ i % k := by
    simp only [stageStep, List.flatten_eq_flatMap, List.flatMap_map, Function.comp_def, id]
    rw [flatMap_range_mul (k ^ S) k hk (fun t j => (ps.getD (setDigit t s j k) []).filter fun e =>
      digit e.1 s k == digit t s k)]
    apply flatMap_congr'
    intro i hi
    have h2 : digit (i / k) s k < k := Nat.mod_lt _ hk
    show _ = (ps.getD ((setDigit (i / k) s (i % k) k * k + digit (i / k) s k) / k) []).filter fun e =>
      digit e.1 s k == (setDigit (i / k) s (i % k) k * k + digit (i / k) s k) % k
    rw [hdiv _ _ h2, hmod _ _ h2]
  rw [hL]
  have hmapped : ((List.range (k ^ S * k)).flatMap fun i =>
        (ps.getD (ψ i / k) []).filter fun e => digit e.1 s k == ψ i % k) =
      ((List.range (k ^ S * k)).map ψ).flatMap fun i =>
        (ps.getD (i / k) []).filter fun e => digit e.1 s k == i % k := by
    rw [List.flatMap_map]
  rw [hmapped]
  refine (List.Perm.flatMap_right _ hperm).trans ?_
  rw [← flatMap_range_mul (k ^ S) k hk (fun u d => (ps.getD u []).filter fun e => digit e.1 s k == d)]
  -- inner: the pieces of one partition by digit value
  have hinner : ∀ u, ((List.range k).flatMap fun d => (ps.getD u []).filter fun e => digit e.1 s k == d).Perm
      (ps.getD u []) := by
    intro u
    refine (flatMap_filter_perm (fun e : Nat × α => digit e.1 s k) k (ps.getD u [])).trans ?_
    apply List.Perm.of_eq
    rw [List.filter_eq_self]
    intro e _
    simp [digit, Nat.mod_lt _ hk]
  have : ((List.range (k ^ S)).flatMap fun u => (List.range k).flatMap fun d =>
      (ps.getD u []).filter fun e => digit e.1 s k == d).Perm ((List.range (k ^ S)).flatMap fun u => ps.getD u []) := by
    generalize List.range (k ^ S) = us
    induction us with
    | nil => simp
    | cons u us ih => simp only [List.flatMap_cons]; exact (hinner u).append ih
  refine this.trans (List.Perm.of_eq ?_)
  rw [← hlen]; exact flatMap_getD_range ps

end Dask.BagShuffle

namespace Dask.BagShuffle

theorem start_flatten {α : Type} (K : Nat) (parts : List (List (Nat × α))) (hlen : parts.length ≤ K) :
    (start K parts).flatten = parts.flatten := by
  obtain ⟨d, rfl⟩ : ∃ d, K = parts.length + d := ⟨K - parts.length, by omega⟩
  simp only [start, List.flatten_eq_flatMap, List.flatMap_map, Function.comp_def, id]
  rw [List.range_add, List.flatMap_append, List.flatMap_map]
  have h1 := flatMap_getD_range parts
  simp only [List.flatten_eq_flatMap, id] at h1
  have h2 : ((List.range d).flatMap fun a => parts.getD (parts.length + a) []) = [] := by
    rw [List.flatMap_eq_nil_iff]
    intro a _
    simp [List.getD_eq_getElem?_getD]
  rw [h2, List.append_nil]
  simpa [Function.comp_def] using h1

theorem stagesFrom_perm {α : Type} (k S : Nat) (hk : 0 < k) (n s : Nat) (hns : s + n ≤ S)
    (ps : List (List (Nat × α))) (hlen : ps.length = k ^ S) :
    (stagesFrom k (k ^ S) n s ps).flatten.Perm ps.flatten := by
  induction n generalizing s ps with
  | zero => simp [stagesFrom]
  | succ n ih =>
    simp only [stagesFrom]
    exact (ih (s + 1) (by omega) _ (by simp [stageStep])).trans (stageStep_perm k S s hk (by omega) ps hlen)

end Dask.BagShuffle
