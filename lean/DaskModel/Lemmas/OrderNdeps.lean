import DaskModel.Model.Order
import DaskModel.Lemmas.OrderFrame
/-! Soundness of the Kahn-style count `ndependencies` (model in Model/Order.lean): the keys that receive a total form a
topological list (each key after all its dependencies), so none of them lies on or depends on a dependency cycle; and the
normalisation loop `strip` never removes a key that lies on a cycle. Needs nothing about `dependents`. -/
namespace Dask.Order
open Dask.GraphAlg

theorem lookup_isSome_iff_mem_keys {β : Type} : ∀ (r : List (Key × β)) (k : Key),
    (r.lookup k).isSome = true ↔ k ∈ r.map Prod.fst
  | [], k => by simp
  | (k0, v0) :: rest, k => by
    simp only [List.lookup, List.map_cons, List.mem_cons]
    by_cases h : k = k0
    · subst h; simp
    · have : (k == k0) = false := by simpa using h
      simp only [this, lookup_isSome_iff_mem_keys rest k]
      constructor
      · exact Or.inr
      · rintro (h' | h')
        · exact absurd h' h
        · exact h'

theorem lookup_some_of_mem_nodup {β : Type} : ∀ (r : List (Key × β)) (k : Key) (v : β), (r.map Prod.fst).Nodup →
    (k, v) ∈ r → r.lookup k = some v
  | [], _, _, _, h => by simp at h
  | (k0, v0) :: rest, k, v, hn, h => by
    simp only [List.map_cons, List.nodup_cons] at hn
    rcases List.mem_cons.mp h with h1 | h2
    · cases h1; simp [List.lookup]
    · have hne : (k == k0) = false := by
        rw [Bool.eq_false_iff]; intro hc
        have hkk : k = k0 := by simpa using hc
        exact hn.1 (List.mem_map.mpr ⟨(k, v), h2, hkk⟩)
      simp only [List.lookup, hne]
      exact lookup_some_of_mem_nodup rest k v hn.2 h2

theorem rset_keys (r : List (Key × Nat)) (k : Key) (v : Nat) :
    (rset r k v).map Prod.fst = if k ∈ r.map Prod.fst then r.map Prod.fst else k :: r.map Prod.fst := by
  unfold rset
  by_cases h : (r.lookup k).isSome = true
  · have hm := (lookup_isSome_iff_mem_keys r k).mp h
    simp only [h, if_true, hm]
    rw [List.map_map]
    apply List.map_congr_left
    intro e _
    by_cases he : e.1 = k <;> simp [he]
  · have hm : k ∉ r.map Prod.fst := fun hm => h ((lookup_isSome_iff_mem_keys r k).mpr hm)
    simp [h, hm]

theorem sumTotals_some_mem (r : List (Key × Nat)) : ∀ (ds : List Key) (s : Nat), sumTotals r ds = some s →
    ∀ d ∈ ds, d ∈ r.map Prod.fst
  | [], _, _, d, hd => by simp at hd
  | c :: cs, s, h, d, hd => by
    unfold sumTotals at h
    split at h
    · rename_i a b ha hb
      rcases List.mem_cons.mp hd with rfl | hd
      · exact (lookup_isSome_iff_mem_keys r d).mp (by simp [ha])
      · exact sumTotals_some_mem r cs b hb d hd
    · cases h

/-- the loop keeps `result`'s keys a topological list (newest first) of keys of `dependencies` -/
theorem ndLoop_sound (deps dnts : Graph) : ∀ (fuel : Nat) (st : NdSt) (total : List (Key × Nat)),
    TopoRev deps (st.result.map Prod.fst) → (∀ k ∈ st.result.map Prod.fst, k ∈ deps.map Prod.fst) →
    ndLoop deps dnts fuel st = some (some total) →
    TopoRev deps (total.map Prod.fst) ∧ ∀ k ∈ total.map Prod.fst, k ∈ deps.map Prod.fst
  | 0, _, _, _, _, h => by simp [ndLoop] at h
  | fuel + 1, st, total, ht, hk, h => by
    unfold ndLoop at h
    split at h
    · cases h; exact ⟨ht, hk⟩
    · rename_i key rest hcur
      split at h
      · cases h
      · rename_i ds hds
        split at h
        · cases h
        · rename_i s hs
          split at h
          · cases h
          · rename_i ps hps
            split at h
            · cases h
            · rename_i need' cur' hrel
              have hkey : key ∈ deps.map Prod.fst := lookup_some_mem_keys deps key ds hds
              refine ndLoop_sound deps dnts fuel _ total ?_ ?_ h
              · simp only [rset_keys]
                split
                · exact ht
                · rename_i hnot
                  refine ⟨hnot, ?_, ht⟩
                  rintro d ⟨ds', h1, h2⟩
                  unfold deps? at h1
                  rw [hds] at h1; cases h1
                  exact sumTotals_some_mem st.result ds s hs d h2
              · simp only [rset_keys]
                split
                · exact hk
                · intro k hk'
                  rcases List.mem_cons.mp hk' with rfl | hk'
                  · exact hkey
                  · exact hk k hk'

/-- a duplicate-free list of keys without dependencies is (trivially) a topological list -/
theorem topoRev_of_no_edges (g : Graph) : ∀ (l : List Key), l.Nodup → (∀ k ∈ l, ∀ d, ¬ Edge g k d) → TopoRev g l
  | [], _, _ => trivial
  | k :: l, hn, h => by
    have hn' := List.nodup_cons.mp hn
    exact ⟨hn'.1, fun d e => absurd e (h k (by simp) d),
      topoRev_of_no_edges g l hn'.2 (fun k' hk' => h k' (List.mem_cons_of_mem _ hk'))⟩

theorem ndRootKeys_nodup (deps : Graph) (hn : (deps.map Prod.fst).Nodup) : (ndRootKeys deps).Nodup := by
  unfold ndRootKeys
  exact hn.sublist ((List.filter_sublist (l := deps)).map Prod.fst)

theorem ndRootKeys_no_edges (deps : Graph) (hn : (deps.map Prod.fst).Nodup) :
    ∀ k ∈ ndRootKeys deps, deps.lookup k = some [] := by
  intro k hk
  unfold ndRootKeys at hk
  obtain ⟨⟨k', ds⟩, he, rfl⟩ := List.mem_map.mp hk
  rw [List.mem_filter] at he
  have : ds = [] := by simpa [List.isEmpty_iff] using he.2
  subst this
  exact lookup_some_of_mem_nodup deps k' [] hn he.1

theorem ndRootKeys_subset (deps : Graph) : ∀ k ∈ ndRootKeys deps, k ∈ deps.map Prod.fst := by
  intro k hk
  unfold ndRootKeys at hk
  obtain ⟨e, he, rfl⟩ := List.mem_map.mp hk
  exact List.mem_map.mpr ⟨e, (List.mem_filter.mp he).1, rfl⟩

/-- **soundness of `ndependencies`**: the keys of `total_dependencies`, newest first, are a topological list of keys of
    `dependencies` — whatever `dependents` is -/
theorem ndependencies_sound (deps dnts : Graph) (fuel : Nat) (hn : (deps.map Prod.fst).Nodup)
    {nn total : List (Key × Nat)} (h : ndependencies deps dnts fuel = some (.ok nn total)) :
    TopoRev deps (total.map Prod.fst) ∧ (∀ k ∈ total.map Prod.fst, k ∈ deps.map Prod.fst) ∧
      nn = deps.map (fun e => (e.1, e.2.length)) := by
  unfold ndependencies at h
  simp only at h
  split at h
  · cases h
  · rename_i need1 cur1 _
    split at h
    · cases h
    · cases h
    · rename_i tot hloop
      simp only [Option.some.injEq, NdRes.ok.injEq] at h
      obtain ⟨h1, h2⟩ := h
      subst h2
      have hkeys : ((ndRootKeys deps).map (fun k => (k, 1))).reverse.map Prod.fst = (ndRootKeys deps).reverse := by
        rw [List.map_reverse, List.map_map]
        congr 1
        exact List.map_id'' (fun _ => rfl) _
      have := ndLoop_sound deps dnts fuel _ tot
        (by
          simp only [hkeys]
          apply topoRev_of_no_edges deps _ (nodup_reverse (ndRootKeys_nodup deps hn))
          intro k hk d ⟨ds, h1, h2⟩
          have := ndRootKeys_no_edges deps hn k (List.mem_reverse.mp hk)
          unfold deps? at h1
          rw [this] at h1; cases h1; simp at h2)
        (by
          simp only [hkeys]
          intro k hk
          exact ndRootKeys_subset deps k (List.mem_reverse.mp hk))
        hloop
      exact ⟨this.1, this.2, h1.symm⟩

/-- a topological list that misses a key of the graph is strictly shorter than the graph -/
theorem length_lt_of_missing {l keys : List Key} (hn : l.Nodup) (hs : ∀ k ∈ l, k ∈ keys) {c : Key} (hc : c ∈ keys)
    (hnc : c ∉ l) : l.length < keys.length := by
  have : (c :: l).length ≤ keys.length := by
    apply List.Nodup.length_le_of_subset (List.nodup_cons.mpr ⟨hnc, hn⟩)
    intro x hx
    rcases List.mem_cons.mp hx with rfl | hx
    · exact hc
    · exact hs x hx
  simp only [List.length_cons] at this
  omega

/-! ### the normalisation loop keeps every cycle -/

theorem lookup_map_self {β : Type} (f : Key → β) : ∀ (l : List Key) (k : Key), k ∈ l →
    (l.map (fun k => (k, f k))).lookup k = some (f k)
  | [], _, h => by simp at h
  | x :: l, k, h => by
    simp only [List.map_cons, List.lookup]
    by_cases hk : k = x
    · subst hk; simp
    · have : (k == x) = false := by simpa using hk
      simp only [this]
      rcases List.mem_cons.mp h with h | h
      · exact absurd h hk
      · exact lookup_map_self f l k h

theorem aliveDeps_keys (g : Graph) (st : StripSt) : (aliveDeps g st).map Prod.fst = st.alive := by
  unfold aliveDeps
  rw [List.map_map]
  exact List.map_id'' (fun _ => rfl) _

theorem aliveDependents_keys (g : Graph) (st : StripSt) : (aliveDependents g st).map Prod.fst = st.alive := by
  unfold aliveDependents
  rw [List.map_map]
  exact List.map_id'' (fun _ => rfl) _

/-- an edge between two keys that lie on cycles survives the normalisation -/
theorem edge_alive {g : Graph} {st : StripSt} (hi : SInv g st) {a b : Key} (e : Edge g a b) (pa : Path g a a)
    (pb : Path g b b) : Edge (aliveDeps g st) a b := by
  have ha : a ∈ st.alive := by
    rcases hi.cover a (edge_mem_keys e) with h | h
    · exact h
    · exact absurd pa (hi.noCyc a h)
  refine ⟨curDeps g st a, ?_, ?_⟩
  · unfold deps? aliveDeps
    exact lookup_map_self (fun k => curDeps g st k) st.alive a ha
  · rw [curDeps_eq, List.mem_filter]
    refine ⟨edge_depsOf e, ?_⟩
    have : b ∉ st.removed := fun h => hi.noCyc b h pb
    simpa using this

theorem path_alive {g : Graph} {st : StripSt} (hi : SInv g st) {a b : Key} (p : Path g a b) :
    Path g b a → Path (aliveDeps g st) a b := by
  induction p with
  | single e =>
    intro q
    exact Path.single (edge_alive hi e ((Path.single e).trans q) (q.trans (Path.single e)))
  | cons e p ih =>
    intro q
    exact Path.cons (edge_alive hi e ((Path.cons e p).trans q) (p.trans (q.snoc e))) (ih (q.snoc e))

/-- **the cycle survives normalisation**: stripped leaves and removed data roots never lie on a cycle -/
theorem strip_keeps_cycle (g : Graph) (isTask : Key → Bool) (hn : (g.map Prod.fst).Nodup) {c : Key}
    (p : Path g c c) : Path (aliveDeps g (strip g isTask)) c c :=
  path_alive (strip_inv g isTask hn) p p

end Dask.Order
