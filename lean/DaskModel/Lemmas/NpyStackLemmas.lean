import DaskModel.Model.NpyStack
/-
Lemmas for `Props/C29xNpy.lean`: the key grid of the chunks `to_npy_stack` rechunks to is the single line of blocks
`(0,…,i,…,0)`; a set of save tasks with pairwise different file numbers leaves, in any order, each task's content in
its file and every other file untouched.
-/
namespace Dask.NpyStack
open Dask.Store

theorem flatMap_single {α β : Type} (f : α → β) (l : List α) : l.flatMap (fun x => [f x]) = l.map f := by
  induction l with
  | nil => rfl
  | cons a l ih => simp [List.flatMap_cons, ih]

/-- past the stacking axis every axis has one block -/
theorem product_npy_after (axis : Nat) : ∀ (cs : List (List Nat)) (s : Nat), axis < s →
    product ((numblocks (npyChunksFrom axis s cs)).map List.range) = [List.replicate cs.length 0] := by
  intro cs
  induction cs with
  | nil => intro s _; rfl
  | cons c cs ih =>
    intro s hs
    have hne : ¬ s = axis := by omega
    have ih' := ih (s + 1) (by omega)
    simp only [numblocks, List.map_map] at ih' ⊢
    simp [npyChunksFrom, hne, product, ih', List.replicate_succ, List.range_succ]

/-- the grid of `npyChunksFrom (s + a) s cs`: one line of blocks along the axis at offset `a` -/
theorem product_npy_line : ∀ (cs : List (List Nat)) (s a : Nat) (c : List Nat), cs[a]? = some c →
    product ((numblocks (npyChunksFrom (s + a) s cs)).map List.range)
      = (List.range c.length).map fun i => List.replicate a 0 ++ i :: List.replicate (cs.length - a - 1) 0 := by
  intro cs
  induction cs with
  | nil => intro s a c h; simp at h
  | cons c0 cs ih =>
    intro s a c h
    cases a with
    | zero =>
      simp only [List.getElem?_cons_zero, Option.some.injEq] at h
      subst h
      have hr := product_npy_after (s + 0) cs (s + 1) (by omega)
      simp only [numblocks, List.map_map, Nat.add_zero] at hr ⊢
      simp [npyChunksFrom, product, hr, flatMap_single]
    | succ a =>
      simp only [List.getElem?_cons_succ] at h
      have hne : ¬ s = s + (a + 1) := by omega
      have hrw : s + (a + 1) = (s + 1) + a := by omega
      have ih' := ih (s + 1) a c h
      simp only [numblocks, List.map_map] at ih' ⊢
      rw [hrw] at hne ⊢
      simp only [npyChunksFrom, hne, if_false, List.map_cons, Function.comp_apply, List.length_cons, List.length_nil, product, ih']
      simp [List.range_succ, List.replicate_succ, Function.comp_def]

theorem unitKey_inj {axis n i j : Nat} (h : unitKey axis n i = unitKey axis n j) : i = j := by
  unfold unitKey at h
  have := List.append_cancel_left h
  simpa using (List.cons.inj this).1

theorem unitKey_length {axis n : Nat} (h : axis < n) (i : Nat) : (unitKey axis n i).length = n := by
  simp [unitKey]; omega

/-- a file that no task writes keeps its content -/
theorem runSaves_not_mem {α : Type} (xx : List Nat → α) : ∀ (ts : List (Nat × List Nat)) (d : Dir α) (i : Nat),
    i ∉ ts.map Prod.fst → runSaves xx d ts i = d i := by
  intro ts
  induction ts with
  | nil => intro d i _; rfl
  | cons t ts ih =>
    intro d i hi
    simp only [List.map_cons, List.mem_cons, not_or] at hi
    simp only [runSaves, List.foldl_cons] at ih ⊢
    rw [ih _ _ hi.2]
    simp [Dir.save, hi.1]

/-- pairwise different file numbers: whatever the order, file `i` ends up holding the block of its task -/
theorem runSaves_mem {α : Type} (xx : List Nat → α) : ∀ (ts : List (Nat × List Nat)) (d : Dir α) (i : Nat) (k : List Nat),
    (ts.map Prod.fst).Nodup → (i, k) ∈ ts → runSaves xx d ts i = some (xx k) := by
  intro ts
  induction ts with
  | nil => intro d i k _ h; simp at h
  | cons t ts ih =>
    intro d i k hnd h
    simp only [List.map_cons, List.nodup_cons] at hnd
    simp only [List.mem_cons] at h
    rcases h with h | h
    · subst h
      have := runSaves_not_mem xx ts (Dir.save d i (xx k)) i hnd.1
      simp only [runSaves, List.foldl_cons] at this ⊢
      rw [this]
      simp [Dir.save]
    · have := ih (Dir.save d t.1 (xx t.2)) i k hnd.2 h
      simpa only [runSaves, List.foldl_cons] using this

/-- `dict(zip(keys, values))[f i]` for keys `f i` (injective `f`) -/
theorem lookup_map_inj {f : Nat → List Nat} (hf : ∀ i j, f i = f j → i = j) : ∀ (l : List Nat) (i : Nat), i ∈ l →
    (l.map fun j => (f j, j)).lookup (f i) = some i := by
  intro l
  induction l with
  | nil => intro i h; simp at h
  | cons j l ih =>
    intro i h
    simp only [List.map_cons, List.lookup_cons]
    by_cases hji : f i = f j
    · have := hf _ _ hji
      subst this
      simp
    · have hne : (f i == f j) = false := by simpa using hji
      rw [hne]
      simp only [List.mem_cons] at h
      rcases h with h | h
      · exact absurd (by rw [h]) hji
      · exact ih i h

end Dask.NpyStack
