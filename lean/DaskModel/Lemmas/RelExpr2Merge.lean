/- Extension round (C43): the Merge laws — projecting one side of a merge onto columns that keep the join keys and the
   origin of every column the parent reads does not change `parent(merge(x, y))`. -/
import DaskModel.Lemmas.RelExpr2Basic
namespace Dask.RelExpr2
open Dask.RelExpr (Cell BinOp getCell colIdx b2c notC Src)

/-- the cell an origin `(left?, source column)` denotes -/
def cellAt (cl cr : List String) (lr : List Cell) (rr : Option (List Cell)) (o : Bool × String) : Cell :=
  if o.1 then getCell cl lr o.2 else
    match rr with
    | some r => getCell cr r o.2
    | none => none

theorem mergedRow_eq (og : List (String × Bool × String)) (cl cr : List String) (lr : List Cell) (rr : Option (List Cell)) :
    mergedRow og cl cr lr rr = og.map (fun o => cellAt cl cr lr rr o.2) := rfl

theorem getCell_merged (og : List (String × Bool × String)) (h : Bool × String → Cell) (n : String) :
    getCell (og.map (·.1)) (og.map (fun o => h o.2)) n = ((lookO og n).map h).getD none := by
  rw [getCell_map_find og (·.1) (fun o => h o.2) n]
  unfold lookO
  cases og.find? (fun x => x.1 == n) <;> simp

theorem colIdx_merged (og : List (String × Bool × String)) (n : String) :
    (colIdx (og.map (·.1)) n).isSome = (lookO og n).isSome := by
  rw [colIdx_isSome]
  unfold lookO
  induction og with
  | nil => simp
  | cons o os ih =>
    simp only [List.map_cons, List.contains_cons, List.find?_cons]
    by_cases h : (o.1 == n) = true
    · have : n = o.1 := by simpa using (beq_iff_eq.mp h).symm
      simp [this]
    · have hne : ¬ o.1 = n := by simpa using h
      have hne' : (n == o.1) = false := by simpa using (fun e => hne e.symm)
      simp only [h, hne', Bool.false_or]
      exact ih

theorem hasCols_merged (og og' : List (String × Bool × String)) (cs : List String)
    (h : cs.all (fun n => lookO og' n == lookO og n) = true) :
    hasCols (og'.map (·.1)) cs = hasCols (og.map (·.1)) cs := by
  unfold hasCols
  apply all_congr_mem
  intro n hn
  rw [colIdx_merged, colIdx_merged]
  have := (List.all_eq_true.mp h) n hn
  rw [beq_iff_eq] at this
  rw [this]

theorem lookO_left_mem (on pl cr : List String) (n c : String) (h : lookO (origins on pl cr) n = some (true, c)) :
    pl.contains c = true := by
  unfold lookO at h
  cases hf : (origins on pl cr).find? (fun x => x.1 == n) with
  | none => simp [hf] at h
  | some o =>
    simp only [hf, Option.map_some, Option.some.injEq] at h
    have hm := List.mem_of_find?_eq_some hf
    simp only [origins, List.mem_append, List.mem_map, List.mem_filter] at hm
    rcases hm with ⟨c', hc', rfl⟩ | ⟨c', _, rfl⟩
    · simp only [Prod.mk.injEq, true_and] at h
      subst h
      simpa using hc'
    · simp at h

theorem lookO_right_mem (on cl pr : List String) (n c : String) (h : lookO (origins on cl pr) n = some (false, c)) :
    pr.contains c = true := by
  unfold lookO at h
  cases hf : (origins on cl pr).find? (fun x => x.1 == n) with
  | none => simp [hf] at h
  | some o =>
    simp only [hf, Option.map_some, Option.some.injEq] at h
    have hm := List.mem_of_find?_eq_some hf
    simp only [origins, List.mem_append, List.mem_map, List.mem_filter] at hm
    rcases hm with ⟨c', _, rfl⟩ | ⟨c', hc', rfl⟩
    · simp at h
    · simp only [Prod.mk.injEq, true_and] at h
      subst h
      simpa using hc'.1

theorem getCell_proj_mem (pl cl : List String) (r : List Cell) (c : String) (h : pl.contains c = true) :
    getCell pl (pl.map (getCell cl r)) c = getCell cl r c := by
  rw [getCell_map, h]; rfl

theorem keyEq_left (on pl cl cr : List String) (lr rr : List Cell) (hon : subsetS on pl = true) :
    keyEq on pl cr (pl.map (getCell cl lr)) rr = keyEq on cl cr lr rr := by
  unfold keyEq
  apply all_congr_mem
  intro k hk
  rw [getCell_proj_mem pl cl lr k (mem_of_all_contains hon hk)]

theorem keyEq_right (on pr cl cr : List String) (lr rr : List Cell) (hon : subsetS on pr = true) :
    keyEq on cl pr lr (pr.map (getCell cr rr)) = keyEq on cl cr lr rr := by
  unfold keyEq
  apply all_congr_mem
  intro k hk
  rw [getCell_proj_mem pr cr rr k (mem_of_all_contains hon hk)]

/-- one projected output row agrees when the origins of the parent's columns agree -/
theorem row_agree (og og' : List (String × Bool × String)) (cs : List String) (h h' : Bool × String → Cell)
    (hlook : cs.all (fun n => lookO og' n == lookO og n) = true)
    (hcell : ∀ n ∈ cs, ∀ o, lookO og' n = some o → h' o = h o) :
    cs.map (getCell (og'.map (·.1)) (og'.map (fun o => h' o.2))) = cs.map (getCell (og.map (·.1)) (og.map (fun o => h o.2))) := by
  apply List.map_congr_left
  intro n hn
  rw [getCell_merged, getCell_merged]
  have := (List.all_eq_true.mp hlook) n hn
  rw [beq_iff_eq] at this
  rw [← this]
  cases ho : lookO og' n with
  | none => rfl
  | some o => simp [hcell n hn o ho]

theorem subsetS_hasCols {a b : List String} (h : subsetS a b = true) : hasCols b a = true := by
  rw [hasCols_eq]; exact h

theorem subsetS_trans {a b c : List String} (h1 : subsetS a b = true) (h2 : subsetS b c = true) : subsetS a c = true := by
  unfold subsetS at *
  rw [List.all_eq_true] at *
  intro x hx
  have := h1 x hx
  exact h2 x (by simpa using this)

theorem flatMap_congr_mem {α β} {l : List α} {f g : α → List β} (h : ∀ x ∈ l, f x = g x) : l.flatMap f = l.flatMap g := by
  induction l with
  | nil => rfl
  | cons x xs ih =>
    simp only [List.flatMap_cons]
    rw [h x (by simp), ih (fun y hy => h y (by simp [hy]))]

/-- the merge law, left side -/
theorem merge_push_left (how : How) (on cs pl cl cr : List String) (rl rr : List (RId × List Cell))
    (hok : mergeLOK on cs cl cr pl = true) :
    ((projV pl (.frame cl rl)).bind (fun x' => mergeV how on x' (.frame cr rr))).bind (projV cs) =
    (mergeV how on (.frame cl rl) (.frame cr rr)).bind (projV cs) := by
  simp only [mergeLOK, Bool.and_eq_true] at hok
  obtain ⟨⟨hsub, hon⟩, hlook⟩ := hok
  have hpl : hasCols cl pl = true := subsetS_hasCols hsub
  have h1 : hasCols pl on = true := subsetS_hasCols hon
  have h2 : hasCols cl on = true := subsetS_hasCols (subsetS_trans hon hsub)
  simp only [projV, hpl, if_true, Option.bind_some, mergeV, h1, h2, Bool.true_and]
  by_cases hc : hasCols cr on = true
  · simp only [hc, if_true, Option.bind_some, projV, hasCols_merged _ _ cs hlook]
    by_cases hg : hasCols ((origins on cl cr).map (·.1)) cs = true
    · simp only [hg, if_true, Option.some.injEq, Val2.frame.injEq, true_and]
      rw [List.flatMap_map, List.map_flatMap, List.map_flatMap]
      apply flatMap_congr_mem
      intro l _
      simp only [mergeOne, keyEq_left on pl cl cr l.2 _ hon]
      have hrow : ∀ (r : Option (List Cell)),
          cs.map (getCell ((origins on pl cr).map (·.1)) (mergedRow (origins on pl cr) pl cr (pl.map (getCell cl l.2)) r)) =
          cs.map (getCell ((origins on cl cr).map (·.1)) (mergedRow (origins on cl cr) cl cr l.2 r)) := by
        intro r
        rw [mergedRow_eq, mergedRow_eq]
        apply row_agree _ _ cs _ _ hlook
        intro n _ o ho
        obtain ⟨b, c⟩ := o
        cases b with
        | true =>
          simp only [cellAt, if_true]
          exact getCell_proj_mem pl cl l.2 c (lookO_left_mem on pl cr n c ho)
        | false => simp [cellAt]
      split
      · cases how <;> simp [hrow]
      · simp [List.map_map, Function.comp_def, hrow]
    · simp [hg]
  · simp [hc]

/-- the merge law, right side -/
theorem merge_push_right (how : How) (on cs pr cl cr : List String) (rl rr : List (RId × List Cell))
    (hok : mergeROK on cs cl cr pr = true) :
    ((projV pr (.frame cr rr)).bind (fun y' => mergeV how on (.frame cl rl) y')).bind (projV cs) =
    (mergeV how on (.frame cl rl) (.frame cr rr)).bind (projV cs) := by
  simp only [mergeROK, Bool.and_eq_true] at hok
  obtain ⟨⟨hsub, hon⟩, hlook⟩ := hok
  have hpr : hasCols cr pr = true := subsetS_hasCols hsub
  have h1 : hasCols pr on = true := subsetS_hasCols hon
  have h2 : hasCols cr on = true := subsetS_hasCols (subsetS_trans hon hsub)
  simp only [projV, hpr, if_true, Option.bind_some, mergeV, h1, h2, Bool.and_true]
  by_cases hc : hasCols cl on = true
  · simp only [hc, if_true, Option.bind_some, projV, hasCols_merged _ _ cs hlook]
    by_cases hg : hasCols ((origins on cl cr).map (·.1)) cs = true
    · simp only [hg, if_true, Option.some.injEq, Val2.frame.injEq, true_and]
      rw [List.map_flatMap, List.map_flatMap]
      apply flatMap_congr_mem
      intro l _
      simp only [mergeOne, List.filter_map, Function.comp_def, keyEq_right on pr cl cr l.2 _ hon, List.isEmpty_map]
      have hrow : ∀ (r : Option (List Cell)),
          cs.map (getCell ((origins on cl pr).map (·.1)) (mergedRow (origins on cl pr) cl pr l.2 (r.map (fun x => pr.map (getCell cr x))))) =
          cs.map (getCell ((origins on cl cr).map (·.1)) (mergedRow (origins on cl cr) cl cr l.2 r)) := by
        intro r
        rw [mergedRow_eq, mergedRow_eq]
        apply row_agree _ _ cs _ _ hlook
        intro n _ o ho
        obtain ⟨b, c⟩ := o
        cases b with
        | true => simp [cellAt]
        | false =>
          cases r with
          | none => simp [cellAt]
          | some x =>
            simp only [cellAt, Bool.false_eq_true, if_false, Option.map_some]
            exact getCell_proj_mem pr cr x c (lookO_right_mem on cl pr n c ho)
      split
      · cases how
        · simp
        · simpa using hrow none
      · simp only [List.map_map, Function.comp_def]
        apply List.map_congr_left
        intro r _
        simpa using hrow (some r.2)
    · simp [hg]
  · simp [hc]

theorem lookO_self (og : List (String × Bool × String)) (hnd : (og.map (·.1)).Nodup) :
    ∀ o ∈ og, lookO og o.1 = some o.2 := by
  induction og with
  | nil => intro o ho; simp at ho
  | cons x xs ih =>
    intro o ho
    simp only [List.map_cons, List.nodup_cons] at hnd
    simp only [List.mem_cons] at ho
    unfold lookO
    simp only [List.find?_cons]
    rcases ho with rfl | ho
    · simp
    · have hne : (x.1 == o.1) = false := by
        cases hb : (x.1 == o.1) with
        | false => rfl
        | true =>
          have : x.1 = o.1 := by simpa using hb
          exact absurd (List.mem_map.mpr ⟨o, ho, this.symm⟩) hnd.1
      simp only [hne]
      exact ih hnd.2 o ho

theorem mergedRow_fix (og : List (String × Bool × String)) (cl cr : List String) (lr : List Cell) (rr : Option (List Cell))
    (hnd : (og.map (·.1)).Nodup) :
    (og.map (·.1)).map (getCell (og.map (·.1)) (mergedRow og cl cr lr rr)) = mergedRow og cl cr lr rr := by
  rw [mergedRow_eq, List.map_map]
  apply List.map_congr_left
  intro o ho
  simp only [Function.comp_def]
  rw [getCell_merged og (cellAt cl cr lr rr) o.1, lookO_self og hnd o ho]
  rfl

theorem mergedRow_fix' (og : List (String × Bool × String)) (cl cr : List String) (lr : List Cell) (rr : Option (List Cell))
    (hnd : (og.map (·.1)).Nodup) :
    og.map (fun x => getCell (og.map (·.1)) (mergedRow og cl cr lr rr) x.1) = mergedRow og cl cr lr rr := by
  have := mergedRow_fix og cl cr lr rr hnd
  rw [List.map_map] at this
  exact this

/-- `merge(x, y)[cs] = merge(x, y)` when `cs` is exactly its (duplicate-free) column list -/
theorem merge_drop (how : How) (on cl cr : List String) (rl rr : List (RId × List Cell))
    (hnd : ((origins on cl cr).map (·.1)).Nodup) :
    (mergeV how on (.frame cl rl) (.frame cr rr)).bind (projV ((origins on cl cr).map (·.1))) =
    mergeV how on (.frame cl rl) (.frame cr rr) := by
  simp only [mergeV]
  by_cases hg : (hasCols cl on && hasCols cr on) = true
  · simp only [hg, if_true, Option.bind_some, projV, hasCols_self, Option.some.injEq, Val2.frame.injEq, true_and]
    rw [List.map_flatMap]
    apply flatMap_congr_mem
    intro l _
    simp only [mergeOne]
    split
    · cases how
      · simp
      · simp only [List.map_cons, List.map_nil, List.map_map, Function.comp_def]
        rw [mergedRow_fix' _ cl cr l.2 none hnd]
    · rw [List.map_map]
      conv => rhs; rw [← List.map_id (List.filter _ rr |>.map _)]
      rw [List.map_map]
      apply List.map_congr_left
      intro r _
      simp only [Function.comp_def, id, List.map_map]
      rw [mergedRow_fix' _ cl cr l.2 (some r.2) hnd]
  · simp [hg]

end Dask.RelExpr2
