import DaskModel.DriverLib
import DaskModel.Model.GraphAlg
open Dask

namespace GraphDrv
open Dask.GraphAlg

/-- `((k (d d ...)) ...)` -/
def toGraph? (e : SExp) : Option Graph := do
  (← e.toList?).mapM fun
    | .list [k, ds] => do pure (← k.toNat?, ← ds.toNats?)
    | _ => none

def ofGraph (g : Graph) : SExp := .list (g.map fun (k, ds) => .list [SExp.ofNat k, SExp.ofNats ds])

def ofOut : Out → SExp
  | .ordered xs => .list [.sym "ordered", SExp.ofNats xs]
  | .cycle c => .list [.sym "cycle", SExp.ofNats c]
  | .keyError => .list [.sym "keyerror"]
  | .stuck => .list [.sym "stuck"]
  | .fuel => .list [.sym "fuel"]

def hToposort : Handler := handler fun
  | [g, keys] => do pure (ofOut (toposort (← toGraph? g) (← keys.toNats?)))
  | _ => none

def hGetcycle : Handler := handler fun
  | [g, keys] => do
    match getcycle (← toGraph? g) (← keys.toNats?) with
    | some c => pure (.list [.sym "ok", SExp.ofNats c])
    | none => pure (.list [.sym "raised"])
  | _ => none

def hIsdag : Handler := handler fun
  | [g, keys] => do
    match isdag (← toGraph? g) (← keys.toNats?) with
    | some b => pure (.list [.sym "ok", SExp.ofBool b])
    | none => pure (.list [.sym "raised"])
  | _ => none

def hReverseDict : Handler := handler fun
  | [g] => do pure (ofGraph (reverseDict (← toGraph? g)))
  | _ => none

end GraphDrv

def table : List (String × Handler) :=
  [("toposort", GraphDrv.hToposort), ("getcycle", GraphDrv.hGetcycle), ("isdag", GraphDrv.hIsdag),
   ("reverse_dict", GraphDrv.hReverseDict)]

def main : IO Unit := runDriver table
