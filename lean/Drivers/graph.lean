import DaskModel.DriverLib
import DaskModel.Model.GraphAlg
import DaskModel.Model.Order
import DaskModel.Model.TaskTermIO
import DaskModel.Model.LegacyOpt
import DaskModel.Model.Rename
import DaskModel.Model.Pickle
import DaskModel.Model.ExecGraph
import DaskModel.Model.OrderIO
import DaskModel.Model.RenameIO
import DaskModel.Model.CloneKeys
import DaskModel.Model.SpecOptIO
import DaskModel.Model.LegacyInlineIO
open Dask

namespace GraphDrv
open Dask.GraphAlg

/-- `((k (d d ...)) ...)` -/
def toGraph? (e : SExp) : Option Graph := do
  (← e.toList?).mapM fun
    | .list [k, ds] => do pure (← k.toNat?, ← ds.toNats?)
    | _ => none

def ofGraph (g : Graph) : SExp := .list (g.map fun (k, ds) => .list [SExp.ofNat k, SExp.ofNats ds])

def ofOut : Out → SExp
  | .ordered xs => .list [.sym "ordered", SExp.ofNats xs]
  | .cycle c => .list [.sym "cycle", SExp.ofNats c]
  | .keyError => .list [.sym "keyerror"]
  | .stuck => .list [.sym "stuck"]
  | .fuel => .list [.sym "fuel"]

def hToposort : Handler := handler fun
  | [g, keys] => do pure (ofOut (toposort (← toGraph? g) (← keys.toNats?)))
  | _ => none

def hGetcycle : Handler := handler fun
  | [g, keys] => do
    match getcycle (← toGraph? g) (← keys.toNats?) with
    | some c => pure (.list [.sym "ok", SExp.ofNats c])
    | none => pure (.list [.sym "raised"])
  | _ => none

def hIsdag : Handler := handler fun
  | [g, keys] => do
    match isdag (← toGraph? g) (← keys.toNats?) with
    | some b => pure (.list [.sym "ok", SExp.ofBool b])
    | none => pure (.list [.sym "raised"])
  | _ => none

/-- `(valid_order graph ((k prio) ...))` -/
def hValidOrder : Handler := handler fun
  | [g, p] => do
    let p ← (← p.toList?).mapM fun
      | .list [k, v] => do pure (← k.toNat?, ← v.toNat?)
      | _ => none
    pure (SExp.ofBool (Dask.Order.validOrder (← toGraph? g) p))
  | _ => none

/-- `(strip_prios expected_len s)`: the priorities the frame gives to `s` stripped leaves -/
def hStripPrios : Handler := handler fun
  | [n, s] => do pure (SExp.ofNats ((List.range (← s.toNat?)).map (Dask.Order.stripPrio (← n.toNat?))))
  | _ => none

/-- `(strip graph (task-keys...))` ↦ `((stripped...) (removed-roots...))` -/
def hStrip : Handler := handler fun
  | [g, tasks] => do
    let tasks ← tasks.toNats?
    let st := Dask.Order.strip (← toGraph? g) (fun k => tasks.contains k)
    pure (.list [SExp.ofNats st.stripped, SExp.ofNats (st.dataRoots.map Prod.snd)])
  | _ => none

def hReverseDict : Handler := handler fun
  | [g] => do pure (ofGraph (reverseDict (← toGraph? g)))
  | _ => none

end GraphDrv

namespace TermDrv
open Dask.TaskTerm

def hConvert : Handler := handler fun
  | [keys, o] => do pure (convert (← objs? keys) (← Obj.ofSExp? o)).toSExp
  | _ => none

def hConvertGraph : Handler := handler fun
  | [keys, g] => do pure (ofNGraph (convertGraph (← objs? keys) (← lgraph? g)))
  | _ => none

def hCoreGet : Handler := handler fun
  | [g, k] => do pure (ofOptObj (coreGet (← lgraph? g) (← Obj.ofSExp? k)))
  | _ => none

def hLegacyGet : Handler := handler fun
  | [g, k] => do pure (ofOptObj (legacyGet (← lgraph? g) (← Obj.ofSExp? k)))
  | _ => none

def hEvalNode : Handler := handler fun
  | [n, env] => do pure (ofOptObj (evalNode (envOf (← lgraph? env)) (← Node.ofSExp? n)))
  | _ => none

def hDeps : Handler := handler fun
  | [n] => do pure (.list ((← Node.ofSExp? n).deps.map Obj.toSExp))
  | _ => none

/-- `(alias_init key target|notarget)` ↦ the node `Alias(key, target)` -/
def hAliasInit : Handler := handler fun
  | [k, t] => do
    let t ← match t with
      | .sym "notarget" => some none
      | e => (Obj.ofSExp? e).map some
    pure (mkAlias (← Obj.ofSExp? k) t).toSExp
  | _ => none

def attrs? (e : SExp) : Option Dask.Pickle.Attrs := do
  (← e.toList?).mapM fun
    | .list [.str s, v] => do some (s, ← Obj.ofSExp? v)
    | _ => none

def ofAttrs (a : Dask.Pickle.Attrs) : SExp := .list (a.map fun (s, v) => .list [.str s, v.toSExp])

/-- `(task_roundtrip attrs)` / `(container_roundtrip ctor attrs)`: slot values after `loads(dumps(node))` -/
def hTaskRoundtrip : Handler := handler fun
  | [a] => do
    match Dask.Pickle.taskRoundtrip (← attrs? a) with
    | some r => pure (.list [.sym "ok", ofAttrs r])
    | none => pure (.list [.sym "raised"])
  | _ => none

def hContainerRoundtrip : Handler := handler fun
  | [c, a] => do
    match Dask.Pickle.containerRoundtrip (← Obj.ofSExp? c) (← attrs? a) with
    | some r => pure (.list [.sym "ok", ofAttrs r])
    | none => pure (.list [.sym "raised"])
  | _ => none

def hSlots : Handler := handler fun
  | [.sym "task"] => pure (.list (Dask.Generated.TaskSpecSlots.slotsTask.map .str))
  | [.sym "container"] => pure (.list (Dask.Generated.TaskSpecSlots.slotsNestedContainer.map .str))
  | _ => none

def hLegacyRefs : Handler := handler fun
  | [keys, o] => do pure (.list ((legacyRefs (← objs? keys) (← Obj.ofSExp? o)).map Obj.toSExp))
  | _ => none

def hSubs : Handler := handler fun
  | [t, k, v] => do pure (subs (← Obj.ofSExp? k) (← Obj.ofSExp? v) (← Obj.ofSExp? t)).toSExp
  | _ => none

def hCull : Handler := handler fun
  | [g, keys] => do
    match cull (← lgraph? g) (← objs? keys) with
    | some (out, deps) => pure (.list [ofLGraph out, .list (deps.map fun (k, ds) => .list [k.toSExp, .list (ds.map Obj.toSExp)])])
    | none => pure (.list [.sym "raised"])
  | _ => none

/-- a finite renaming given as an association list; identity elsewhere -/
def rhoOf (kvs : List (Obj × Obj)) : Obj → Obj := fun k => (kvs.lookup k).getD k

/-- `(clone_legacy keys rho bindto|none bindfn graph)` ↦ the cloned legacy layer -/
def hCloneLegacy : Handler := handler fun
  | [keys, rho, bindTo, bindFn, g] => do
    let keys ← objs? keys
    let ρ := rhoOf (← lgraph? rho)
    let b ← match bindTo with
      | .sym "nobind" => some none
      | e => (Obj.ofSExp? e).map some
    let bf ← Obj.ofSExp? bindFn
    pure (ofLGraph ((← lgraph? g).map fun kv => cloneLegacyEntry keys ρ b bf kv.1 kv.2))
  | _ => none

/-- `(clone_spec keys rho bindto|nobind graph)` ↦ the cloned task-spec layer (`substitute` + bind of the leaves) -/
def hCloneSpec : Handler := handler fun
  | [keys, rho, bindTo, g] => do
    let keys ← objs? keys
    let ρ := rhoOf (← lgraph? rho)
    let b ← match bindTo with
      | .sym "nobind" => some none
      | e => (Obj.ofSExp? e).map some
    pure (ofNGraph ((← ngraph? g).map fun kn =>
      if keys.contains kn.1 then
        let leaf := !(kn.2.deps.any fun d => keys.contains d)
        let n := renameNode (fun k => if keys.contains k then ρ k else k) kn.2
        match b with
        | some bl => if leaf then (ρ kn.1, bindNode bl n) else (ρ kn.1, n)
        | none => (ρ kn.1, n)
      else kn))
  | _ => none

/-- `(checkpoint_reduce name split_every (mapkeys...))` ↦ `((key (inputs...)) ...)` -/
def hCheckpointReduce : Handler := handler fun
  | [name, se, mk] => do
    let name ← Obj.ofSExp? name
    let mapKeys ← objs? mk
    let r := checkpointReduce name (fun i => .tuple [name, .int i]) (← se.toNat?) (mapKeys.length + 1) mapKeys []
    pure (.list (r.map fun (k, ins) => .list [k.toSExp, .list (ins.map Obj.toSExp)]))
  | _ => none

/-- `(fuse_ok g h S req)` -/
def hFuseOK : Handler := handler fun
  | [g, h, s, r] => do pure (SExp.ofBool (fuseOK (← lgraph? g) (← lgraph? h) (← objs? s) (← objs? r)))
  | _ => none

/-- `(fuse_okr g h S ((old new) ...) req)`: the checker for outputs with renamed keys -/
def hFuseOKR : Handler := handler fun
  | [g, h, s, ren, r] => do
    pure (SExp.ofBool (fuseOKR (← lgraph? g) (← lgraph? h) (← objs? s) (← lgraph? ren) (← objs? r)))
  | _ => none

/-- `(bw_leaf (names...) ((name k)|(ref k)|(other) ...) (numblocks-keys...))` -/
def hBwLeaf : Handler := handler fun
  | [names, idx, nb] => do
    let idx ← (← idx.toList?).mapM fun
      | .list [.sym "name", k] => do some (BwArg.name (← Obj.ofSExp? k))
      | .list [.sym "ref", k] => do some (BwArg.ref (← Obj.ofSExp? k))
      | .list [.sym "other"] => some BwArg.other
      | _ => none
    pure (SExp.ofBool (blockwiseLeaf (← objs? names) idx (← objs? nb)))
  | _ => none

/-- `(exec_ordered graph-listed-in-execution-order cache keys|nokeys)`: `execute_graph` as it runs (reference counts,
    deletion of values that are no longer needed) ↦ the returned cache -/
def hExecOrdered : Handler := handler fun
  | [g, cache, keys] => do
    let g ← ngraph? g
    let keys ← match keys with
      | .sym "nokeys" => some none
      | e => (objs? e).map some
    match execOrdered g (g.map Prod.fst) (← lgraph? cache) keys with
    | some res => pure (.list [.sym "ok", ofLGraph res])
    | none => pure (.list [.sym "raised"])
  | _ => none

def hExecGraph : Handler := handler fun
  | [g, cache] => do
    match executeGraph (← ngraph? g) (envOf (← lgraph? cache)) with
    | some res => pure (.list [.sym "ok", ofLGraph res])
    | none => pure (.list [.sym "raised"])
  | _ => none

end TermDrv

def table : List (String × Handler) :=
  [("toposort", GraphDrv.hToposort), ("getcycle", GraphDrv.hGetcycle), ("isdag", GraphDrv.hIsdag),
   ("reverse_dict", GraphDrv.hReverseDict), ("valid_order", GraphDrv.hValidOrder), ("strip_prios", GraphDrv.hStripPrios), ("strip", GraphDrv.hStrip),
   ("convert", TermDrv.hConvert), ("convert_graph", TermDrv.hConvertGraph), ("core_get", TermDrv.hCoreGet),
   ("legacy_get", TermDrv.hLegacyGet), ("eval_node", TermDrv.hEvalNode), ("deps", TermDrv.hDeps),
   ("exec_graph", TermDrv.hExecGraph), ("exec_ordered", TermDrv.hExecOrdered), ("legacy_refs", TermDrv.hLegacyRefs), ("alias_init", TermDrv.hAliasInit),
   ("task_roundtrip", TermDrv.hTaskRoundtrip), ("container_roundtrip", TermDrv.hContainerRoundtrip),
   ("slots", TermDrv.hSlots),
   ("subs", TermDrv.hSubs), ("cull", TermDrv.hCull), ("fuse_ok", TermDrv.hFuseOK), ("fuse_okr", TermDrv.hFuseOKR), ("bw_leaf", TermDrv.hBwLeaf),
   ("clone_legacy", TermDrv.hCloneLegacy), ("clone_spec", TermDrv.hCloneSpec),
   ("checkpoint_reduce", TermDrv.hCheckpointReduce)]
  ++ Dask.Order.ioHandlers ++ Dask.TaskTerm.renameIoHandlers ++ Dask.TaskTerm.specIoHandlers
  ++ Dask.TaskTerm.inlineIoHandlers ++ Dask.TaskTerm.cloneKeysIoHandlers

def main : IO Unit := runDriver table
