import DaskModel.DriverLib
import DaskModel.Model.Blockwise
import DaskModel.Model.Annot
import DaskModel.Model.HLG
import DaskModel.Model.Elemwise
import DaskModel.Model.MapBlocks
import DaskModel.Model.Meta
import DaskModel.Model.Rewrite
import DaskModel.Model.FuseSlice
import DaskModel.Model.OptBW
import DaskModel.Model.GufuncIO
import DaskModel.Model.UnifyPostIO
import DaskModel.Generated.FuseRules
open Dask

namespace HlgDrv
open Dask.Blockwise

/-! decoding helpers -/
def toArg? : SExp → Option Arg
  | .list [n, ind, nb, io] => do
    pure { name := ← n.toNat?, ind := ← ind.toNats?, nb := ← nb.toNats?, io := ← io.toBool? }
  | _ => none

def toArgs? (e : SExp) : Option (List Arg) := do (← e.toList?).mapM toArg?

def toPairs? (e : SExp) : Option (List (Nat × Nat)) := do
  (← e.toList?).mapM fun p => match p with
    | .list [a, b] => do pure (← a.toNat?, ← b.toNat?)
    | _ => none

def toKey? : SExp → Option Key
  | .list (n :: cs) => do pure (← n.toNat?, ← cs.mapM SExp.toNat?)
  | _ => none

/-- `(output (outInd…) (args…) (consts…) (newAxes…) concatenate)` -/
def toLayer? : SExp → Option Layer
  | .list [o, oi, args, consts, na, conc] => do
    pure { output := ← o.toNat?, outInd := ← oi.toNats?, args := ← toArgs? args,
           consts := ← (← consts.toList?).mapM toKey?, newAxes := ← toPairs? na, concatenate := ← conc.toBool? }
  | _ => none

def ofCoord : Coord → SExp
  | .one n => SExp.ofNat n
  | .many l => SExp.ofNats l

def ofKey (k : Key) : SExp := .list (SExp.ofNat k.1 :: k.2.map SExp.ofNat)

def ofPairs (l : List (Nat × Nat)) : SExp := .list (l.map fun p => .list [SExp.ofNat p.1, SExp.ofNat p.2])

partial def ofLoL : LoL → SExp
  | .leaf k => ofKey k
  | .node l => .list (.sym "L" :: l.map ofLoL)

partial def ofTerm : Term → SExp
  | .ref k => .list [.sym "ref", ofKey k]
  | .lst l => .list (.sym "L" :: l.map ofTerm)
  | .concat t axes => .list [.sym "concat", ofTerm t, SExp.ofNats axes]
  | .data => .sym "data"

def okOr (r : Option SExp) : SExp := match r with
  | some e => .list [.sym "ok", e]
  | none => .list [.sym "raised"]

/-- `(bdims (args…))` ↦ `(ok ((sym dim)…))` | `(raised)` : `broadcast_dimensions` -/
def hBdims : Handler := handler fun a => match a with
  | [args] => do
    let args ← toArgs? args
    pure (okOr ((broadcastDims args).map ofPairs))
  | _ => none

/-- `(makedims (args…) ((sym nblocks)…))` : `_make_dims` -/
def hMakeDims : Handler := handler fun a => match a with
  | [args, na] => do
    let args ← toArgs? args
    let na ← toPairs? na
    pure (okOr ((makeDims args na).map ofPairs))
  | _ => none

/-- `(coordmap (out…) (dums…) (args…))` ↦ `(ok ((positions…)…) ((axes…)…))` : the raw `coord_maps`/`concat_axes` for the
    given enumeration of the dummy indices -/
def hCoordMap : Handler := handler fun a => match a with
  | [out, dums, args] => do
    let out ← out.toNats?
    let dums ← dums.toNats?
    let args ← toArgs? args
    let pm := posMaps out dums
    pure (okOr do
      let cms ← traverse (coordMap pm) args
      pure (.list [.list (cms.map SExp.ofInts), .list (args.map fun x => SExp.ofNats (concatAxes dums x))]))
  | _ => none

/-- `(dummies ((sym dim)…) conc (dums…))` ↦ the `dummies` tuple -/
def hDummies : Handler := handler fun a => match a with
  | [dims, conc, dums] => do
    let dims ← toPairs? dims
    let conc ← conc.toBool?
    let dums ← dums.toNats?
    pure (okOr ((dummiesTuple dims conc dums).map fun l => .list (l.map ofCoord)))
  | _ => none

/-- `(argcoords (out…) (dums…) ((sym dim)…) conc (o…) (args…))` ↦ resolved `arg_coords` of every argument -/
def hArgCoords : Handler := handler fun a => match a with
  | [out, dums, dims, conc, o, args] => do
    let out ← out.toNats?
    let dums ← dums.toNats?
    let dims ← toPairs? dims
    let conc ← conc.toBool?
    let o ← o.toNats?
    let args ← toArgs? args
    pure (okOr do
      let cs ← traverse (argCoords out dums dims conc o) args
      pure (.list (cs.map fun c => .list (c.map ofCoord))))
  | _ => none

/-- same through the specification `argCoordsSpec` (used to cross-check the proved equality at run time) -/
def hArgCoordsSpec : Handler := handler fun a => match a with
  | [out, dims, conc, o, args] => do
    let out ← out.toNats?
    let dims ← toPairs? dims
    let conc ← conc.toBool?
    let o ← o.toNats?
    let args ← toArgs? args
    pure (okOr do
      let cs ← traverse (argCoordsSpec out dims conc o) args
      pure (.list (cs.map fun c => .list (c.map ofCoord))))
  | _ => none

def toCoord? : SExp → Option Coord
  | .int i => if i ≥ 0 then some (.one i.toNat) else none
  | .list l => do pure (.many (← l.mapM SExp.toNat?))
  | _ => none

/-- `(lol name (values…))` : `_lol_product((name,), values)` -/
def hLol : Handler := handler fun a => match a with
  | [n, vs] => do
    let n ← n.toNat?
    let vs ← (← vs.toList?).mapM toCoord?
    pure (.list [ofLoL (lolProduct (n, []) vs), .list ((lolProduct (n, []) vs).flatten.map ofKey)])
  | _ => none

/-- `(culldeps layer (o…))` ↦ `(ok (key…))` -/
def hCullDeps : Handler := handler fun a => match a with
  | [l, o] => do
    let l ← toLayer? l
    let o ← o.toNats?
    pure (okOr ((cullDeps l o).map fun ks => .list (ks.map ofKey)))
  | _ => none

/-- `(task layer (o…))` ↦ `(ok (argument terms…) (dependencies…))` -/
def hTask : Handler := handler fun a => match a with
  | [l, o] => do
    let l ← toLayer? l
    let o ← o.toNats?
    pure (okOr ((mkTask l o).map fun ts => .list [.list (ts.map ofTerm), .list ((Term.depsList ts).map ofKey)]))
  | _ => none

/-- `(blocks layer)` ↦ all output block coordinates -/
def hBlocks : Handler := handler fun a => match a with
  | [l] => do
    let l ← toLayer? l
    pure (okOr ((outputBlocks l).map fun bs => .list (bs.map SExp.ofNats)))
  | _ => none

/-! annotations -/
open Dask.Annot in
def toVal? : SExp → Option Val
  | .list [.sym "int", i] => do pure (.int (← i.toInt?))
  | .list [.sym "res", m] => do
    let m ← (← m.toList?).mapM fun p => match p with
      | .list [k, v] => do pure (← k.toStr?, ← v.toInt?)
      | _ => none
    pure (.res m)
  | .list [.sym "set", l] => do pure (.set (← l.toNats?))
  | .list [.sym "bool", b] => do pure (.bool (← b.toBool?))
  | .list [.sym "other", n] => do pure (.other (← n.toNat?))
  | _ => none

open Dask.Annot in
def ofVal : Val → SExp
  | .int i => .list [.sym "int", .int i]
  | .res m => .list [.sym "res", .list (m.map fun p => .list [.str p.1, .int p.2])]
  | .set l => .list [.sym "set", SExp.ofNats l]
  | .bool b => .list [.sym "bool", SExp.ofBool b]
  | .other n => .list [.sym "other", SExp.ofNat n]

open Dask.Annot in
def toAnn? (e : SExp) : Option Ann := do
  (← e.toList?).mapM fun p => match p with
    | .list [k, v] => do pure (← k.toStr?, ← toVal? v)
    | _ => none

/-- `(fuseann (ann…))` with the GENERATED rule table ↦ `(ok ((key val)…))` | `(raised)` -/
def hFuseAnn : Handler := handler fun a => match a with
  | [anns] => do
    let anns ← (← anns.toList?).mapM toAnn?
    pure (okOr ((Dask.Annot.fuse Dask.Generated.FuseRules.rules anns).map fun r =>
      .list (r.map fun p => .list [.str p.1, ofVal p.2])))
  | _ => none

def hFuseRules : Handler := fun _ =>
  .list [.list (Dask.Generated.FuseRules.rules.map fun p => .list [.str p.1, .sym (match p.2 with
      | .max => "max" | .mergeWithMax => "mergeWithMax" | .setIntersection => "setIntersection" | .all => "all")]),
    .list (Dask.Generated.FuseRules.fusable.map .str)]

/-! high-level graph -/
def toTask? : SExp → Option Dask.HLG.Task
  | .list [k, d] => do pure (← k.toNat?, ← d.toNats?)
  | _ => none

def toHLayer? : SExp → Option Dask.HLG.LayerIn
  | .list [f, ts, ord] => do pure { shortcut := ← f.toBool?, tasks := ← (← ts.toList?).mapM toTask?, ord := ← ord.toNats? }
  | _ => none

/-- `(hlgcull ((shortcut ((key (deps…))…) (order…))…) (keys…))` ↦ kept keys per returned layer -/
def hHlgCull : Handler := handler fun a => match a with
  | [ls, ks] => do
    let ls ← (← ls.toList?).mapM toHLayer?
    let ks ← ks.toNats?
    pure (.list ((Dask.HLG.cull ls ks).map fun l => SExp.ofNats (Dask.HLG.keysOf l)))
  | _ => none

/-! C19: broadcast_shapes / common_blockdim / unify_chunks / elementwise plan -/
open Dask.Elemwise in
/-- `(bshapes (shape…)…)` ↦ `(ok (dims…))` | `(raised)`, and the NumPy rule: `(ok …)`/`(raised)` -/
def hBShapes : Handler := handler fun a => match a with
  | [shapes] => do
    let shapes ← shapes.toNatss?
    pure (.list [okOr ((broadcastShapes shapes).map SExp.ofNats), okOr ((npBroadcast shapes).map SExp.ofNats)])
  | _ => none

open Dask.Elemwise in
/-- `(cbd ((chunks…)…))` : `common_blockdim` -/
def hCbd : Handler := handler fun a => match a with
  | [bds] => do
    let bds ← bds.toNatss?
    pure (okOr ((commonBlockdim bds).map SExp.ofNats))
  | _ => none

open Dask.Elemwise in
def toUArg? : SExp → Option UArg
  | .list [ind, chunks] => do pure { ind := ← ind.toNats?, chunks := ← chunks.toNatss? }
  | _ => none

open Dask.Elemwise in
/-- `(unify (((ind…) ((chunks…)…))…))` ↦ `(ok ((sym (chunks…))…) (((chunks…)…)…))` : `unify_chunks` -/
def hUnify : Handler := handler fun a => match a with
  | [args] => do
    let args ← (← args.toList?).mapM toUArg?
    pure (okOr ((unifyChunks args).map fun r =>
      .list [.list (r.1.map fun p => .list [SExp.ofNat p.1, SExp.ofNats p.2]), .list (r.2.map SExp.ofNatss)]))
  | _ => none

open Dask.Elemwise in
/-- `(argpos (cOut…) (cArg…) i)` ↦ global position of the argument element read for output position `i` -/
def hArgPos : Handler := handler fun a => match a with
  | [co, ca, i] => do
    let co ← co.toNats?
    let ca ← ca.toNats?
    let i ← i.toNat?
    pure (SExp.ofOptNat (argPos co ca i))
  | _ => none

/-! C35: map_blocks index plan, block_info, gufunc loop dims -/
open Dask.MapBlocks in
def ofInfo (i : Info) : SExp :=
  .list [SExp.ofNats i.shape, SExp.ofNats i.numChunks,
         .list (i.arrayLocation.map fun p => .list [SExp.ofNat p.1, SExp.ofNat p.2]), SExp.ofNats i.chunkLocation]

def toOptNatss? : SExp → Option (Option (List (List Nat)))
  | .sym "none" => some none
  | e => (e.toNatss?).map some

open Dask.MapBlocks in
/-- `(mbplan (ndims…) (drop…) (newaxis…) chunks|none)` ↦ `(ok (outInd…) ((sym (chunks…))…))` | `(raised)` -/
def hMbPlan : Handler := handler fun a => match a with
  | [nd, drop, na, ch] => do
    let nd ← nd.toNats?
    let drop ← drop.toInts?
    let na ← na.toNats?
    let ch ← toOptNatss? ch
    pure (okOr ((plan nd drop na ch).map fun p =>
      .list [SExp.ofNats p.outInd, .list (p.newAxes.map fun q => .list [SExp.ofNat q.1, SExp.ofNats q.2])]))
  | _ => none

open Dask.MapBlocks in
def toAArg? : SExp → Option AArg
  | .list [ind, chunks] => do pure { ind := ← ind.toNats?, chunks := ← chunks.toNatss? }
  | _ => none

open Dask.MapBlocks in
/-- `(blockinfo dropping (outInd…) (outChunks…) (blockId…) (args…))` ↦ `(ok (argInfo…) outInfo (chunk-shape…))` -/
def hBlockInfo : Handler := handler fun a => match a with
  | [dr, oi, oc, bid, args] => do
    let dr ← dr.toBool?
    let oi ← oi.toNats?
    let oc ← oc.toNatss?
    let bid ← bid.toNats?
    let args ← (← args.toList?).mapM toAArg?
    pure (okOr do
      let infos ← Dask.Blockwise.traverse (argInfo dr oi bid) args
      let (o, cs) ← outInfo oc bid
      pure (.list [.list (infos.map ofInfo), ofInfo o, SExp.ofNats cs]))
  | _ => none

open Dask.MapBlocks in
/-- `(alignfalse (args…))` ↦ `((sym (chunks…))…)` : `chunkss` of `blockwise(align_arrays=False)` -/
def hAlignFalse : Handler := handler fun a => match a with
  | [args] => do
    let args ← (← args.toList?).mapM toAArg?
    pure (.list ((alignFalseChunks args).map fun p => .list [SExp.ofNat p.1, SExp.ofNats p.2]))
  | _ => none

open Dask.MapBlocks in
/-- `(loopdims max n)` -/
def hLoopDims : Handler := handler fun a => match a with
  | [m, n] => do pure (SExp.ofNats (loopDims (← m.toNat?) (← n.toNat?)))
  | _ => none

/-! C10: rewrite_blockwise index table -/
def toStrs? (e : SExp) : Option (List String) := do (← e.toList?).mapM SExp.toStr?

def toEntry? : SExp → Option Dask.Rewrite.Entry
  | .list [n, .sym "none"] => do pure (← n.toStr?, none)
  | .list [n, ind] => do pure (← n.toStr?, some (← toStrs? ind))
  | _ => none

def toBLayer? : SExp → Option Dask.Rewrite.BLayer
  | .list [o, oi, es, na] => do
    let na ← (← na.toList?).mapM fun p => match p with
      | .list [k, v] => do pure (← k.toStr?, ← v.toNat?)
      | _ => none
    pure { output := ← o.toStr?, outInd := ← toStrs? oi, indices := ← (← es.toList?).mapM toEntry?, newAxes := na }
  | _ => none

def ofStrs (l : List String) : SExp := .list (l.map .str)

/-- `(rewrite (layer…) root)` ↦ `(ok (outInd…) ((name ind|none)…) ((sym n)…) ((fresh indices…)…))` | `(raised)` -/
def hRewrite : Handler := handler fun a => match a with
  | [ls, root] => do
    let ls ← (← ls.toList?).mapM toBLayer?
    let root ← root.toStr?
    pure (okOr ((Dask.Rewrite.rewrite 4000 ls root).map fun f =>
      .list [ofStrs f.outInd,
             .list (f.indices.map fun e => .list [.str e.1, match e.2 with | none => .sym "none" | some i => ofStrs i]),
             .list (f.newAxes.map fun p => .list [.str p.1, SExp.ofNat p.2]),
             .list (f.allocs.map SExp.ofNats)]))
  | _ => none

/-! C25: fuse_slice -/
def toSl? : SExp → Option Dask.FuseSlice.Sl
  | .list [a, b, c] => do
    let stop ← match b with
      | .sym "none" => some none
      | e => (e.toNat?).map some
    pure { start := ← a.toNat?, stop := stop, step := ← c.toNat? }
  | _ => none

def ofSl (s : Dask.FuseSlice.Sl) : SExp := .list [SExp.ofNat s.start, SExp.ofOptNat s.stop, SExp.ofNat s.step]

/-- `(fuseslice a b)` with slices `(start stop|none step)` ↦ the fused slice; `(fuseslice a i)` for an integer -/
def hFuseSlice : Handler := handler fun a => match a with
  | [x, .int i] => do
    let x ← toSl? x
    if i < 0 then none else pure (SExp.ofNat (Dask.FuseSlice.fuseInt x i.toNat))
  | [x, y] => do
    let x ← toSl? x
    let y ← toSl? y
    pure (ofSl (Dask.FuseSlice.fuse x y))
  | _ => none

/-- `(chainat n a b count)` ↦ source positions of the first `count` elements of `x[a][b]` (`none` past the end) -/
def hChainAt : Handler := handler fun a => match a with
  | [n, x, y, c] => do
    let n ← n.toNat?
    let x ← toSl? x
    let y ← toSl? y
    let c ← c.toNat?
    pure (.list ((List.range c).map fun j => SExp.ofOptNat (Dask.FuseSlice.chainAt n x y j)))
  | _ => none

open Dask.FuseSlice in
def toIx? : SExp → Option Ix
  | .sym "full" => some .full
  | .sym "newaxis" => some .newaxis
  | .list [.sym "i", n] => do pure (.int (← n.toNat?))
  | .list [.sym "s", a, b, c] => do pure (.sl (← toSl? (.list [a, b, c])))
  | _ => none

open Dask.FuseSlice in
def ofIx : Ix → SExp
  | .full => .sym "full"
  | .newaxis => .sym "newaxis"
  | .int n => .list [.sym "i", SExp.ofNat n]
  | .sl s => .list [.sym "s", SExp.ofNat s.start, SExp.ofOptNat s.stop, SExp.ofNat s.step]

def ofOptNats : Option (List Nat) → SExp
  | none => .sym "none"
  | some l => SExp.ofNats l

/-- `(fusetuple dims (a…) (b…) (coord…))` ↦ `(ok (r…) pairsOK stepsPos shape(x[a]) shape(x[r]) (applyB dims r c …)
    (chain c …))` | `(notimpl)` | `(indexerr)`; `chain c` is `applyB shape(x[a]) b c >>= applyB dims a` -/
def hFuseTuple : Handler := handler fun args => match args with
  | [dims, a, b, cs] => do
    let dims ← dims.toNats?
    let a ← (← a.toList?).mapM toIx?
    let b ← (← b.toList?).mapM toIx?
    let cs ← (← cs.toList?).mapM SExp.toNats?
    match Dask.FuseSlice.fuseTuple a b with
    | .notImplemented => pure (.list [.sym "notimpl"])
    | .indexError => pure (.list [.sym "indexerr"])
    | .ok r =>
      let sh := Dask.FuseSlice.shapeIx dims a
      pure (.list [.sym "ok", .list (r.map ofIx), SExp.ofBool (Dask.FuseSlice.pairsOK dims a b),
        SExp.ofBool (Dask.FuseSlice.stepsPos a),
        ofOptNats sh, ofOptNats (Dask.FuseSlice.shapeIx dims r),
        .list (cs.map fun c => ofOptNats (Dask.FuseSlice.applyB dims r c)),
        .list (cs.map fun c => ofOptNats (match sh with
          | none => none
          | some s => (Dask.FuseSlice.applyB s b c).bind (Dask.FuseSlice.applyB dims a)))])
  | _ => none

/-- `(fusetupleargs (a…) (b…))` ↦ `(outcome|(r…) pre)`: the walk on the arguments `_optimize_slices` really passes, and
    the hypothesis of `fuse_tuple_no_index_error` (`b` indexes at least as many axes as `a` leaves) -/
def hFuseTupleArgs : Handler := handler fun args => match args with
  | [a, b] => do
    let a ← (← a.toList?).mapM toIx?
    let b ← (← b.toList?).mapM toIx?
    let pre := SExp.ofBool (decide (Dask.FuseSlice.cntAxes a ≤ Dask.FuseSlice.cntIdx b))
    match Dask.FuseSlice.fuseTuple a b with
    | .notImplemented => pure (.list [.sym "notimpl", pre])
    | .indexError => pure (.list [.sym "indexerr", pre])
    | .ok r => pure (.list [.list (r.map ofIx), pre])
  | _ => none

/-! C25: pipeline chunk metadata -/
open Dask.Meta in
partial def toProg? : SExp → Option Prog
  | .list [.sym "leaf", c] => do pure (.leaf (← c.toNatss?))
  | .list [.sym "ew", a, b] => do pure (.ew (← toProg? a) (← toProg? b))
  | .list [.sym "T", p, a] => do pure (.T (← p.toNats?) (← toProg? a))
  | .list [.sym "drop", k, a] => do pure (.drop (← k.toNat?) (← toProg? a))
  | .list [.sym "keep", k, a] => do pure (.keep (← k.toNat?) (← toProg? a))
  | .list [.sym "new", k, a] => do pure (.new (← k.toNat?) (← toProg? a))
  | .list [.sym "concat", k, a, b] => do pure (.concat (← k.toNat?) (← toProg? a) (← toProg? b))
  | .list [.sym "stack", k, a, b] => do pure (.stack (← k.toNat?) (← toProg? a) (← toProg? b))
  | _ => none

/-- `(metachunks prog)` ↦ `(ok ((chunks…)…))` | `(raised)` -/
def hMetaChunks : Handler := handler fun a => match a with
  | [p] => do
    let p ← toProg? p
    pure (okOr ((Dask.Meta.lazyChunks p).map SExp.ofNatss))
  | _ => none

/-- `(metablocks prog)` ↦ `true` iff the block lengths the kernels produce equal the lazy chunks -/
def hMetaBlocks : Handler := handler fun a => match a with
  | [p] => do
    let p ← toProg? p
    pure (SExp.ofBool (match Dask.Meta.lazyChunks p, Dask.Meta.blockLens p with
      | some c, some l => c == l
      | none, _ => true
      | _, _ => false))
  | _ => none

/-! C10: the grouping decision of `_optimize_blockwise`, the condition of `fuse_roots` -/
/-- `(bw (deps…) conc ann (annKeys…) (outInd…) ((name ind|none)…))` -/
def toOLayer? : SExp → Option Dask.OptBW.Layer
  | .list [bw, deps, conc, ann, af, oi, inds] => do
    let inds ← (← inds.toList?).mapM fun e => match e with
      | .list [n, .sym "none"] => do pure ((← n.toNat?), (none : Option (List Nat)))
      | .list [n, i] => do pure ((← n.toNat?), some (← i.toNats?))
      | _ => none
    pure { bw := ← bw.toBool?, deps := ← deps.toNats?, conc := ← conc.toNat?, ann := ← ann.toNat?, annKeys := ← af.toNats?,
           outInd := ← oi.toNats?, indices := inds }
  | _ => none

/-- `(optbw (layer…) (keep…) cfg)` ↦ `(ok ((root fused (members…))…) topoOK selfOK)` | `(raised)` (fuel exhausted) -/
def hOptBW : Handler := handler fun a => match a with
  | [ls, keep, cfg] => do
    let g ← (← ls.toList?).mapM toOLayer?
    let keep ← keep.toNats?
    let cfg ← cfg.toBool?
    let f := Dask.OptBW.defaultFuel g
    pure (match Dask.OptBW.optimizeGroups g keep cfg f f with
      | none => .list [.sym "raised"]
      | some gs => .list [.sym "ok",
          .list (gs.map fun G => .list [SExp.ofNat G.root, SExp.ofBool G.fused, SExp.ofNats G.mem]),
          SExp.ofBool (Dask.OptBW.topoOK g), SExp.ofBool (Dask.OptBW.selfOK g)])
  | _ => none

/-- `(fuseroots (layer…) (order…))` ↦ `(ok ((consumer (roots…))…))` | `(raised)` (a dict lookup raises KeyError) -/
def hFuseRoots : Handler := handler fun a => match a with
  | [ls, order] => do
    let g ← (← ls.toList?).mapM toOLayer?
    let order ← order.toNats?
    pure (okOr ((Dask.OptBW.fuseRoots g order { gone := [], cleared := [], fusedR := [] }).map fun st =>
      .list (st.fusedR.map fun p => .list [SExp.ofNat p.1, SExp.ofNats p.2])))
  | _ => none

end HlgDrv

def table : List (String × Handler) := [
  ("metachunks", HlgDrv.hMetaChunks), ("metablocks", HlgDrv.hMetaBlocks), ("rewrite", HlgDrv.hRewrite),
  ("fuseslice", HlgDrv.hFuseSlice), ("chainat", HlgDrv.hChainAt), ("fusetuple", HlgDrv.hFuseTuple), ("fusetupleargs", HlgDrv.hFuseTupleArgs),
  ("mbplan", HlgDrv.hMbPlan), ("blockinfo", HlgDrv.hBlockInfo), ("loopdims", HlgDrv.hLoopDims),
  ("alignfalse", HlgDrv.hAlignFalse),
  ("bshapes", HlgDrv.hBShapes), ("cbd", HlgDrv.hCbd), ("unify", HlgDrv.hUnify), ("argpos", HlgDrv.hArgPos),
  ("bdims", HlgDrv.hBdims), ("makedims", HlgDrv.hMakeDims), ("coordmap", HlgDrv.hCoordMap),
  ("dummies", HlgDrv.hDummies), ("argcoords", HlgDrv.hArgCoords), ("argcoordsspec", HlgDrv.hArgCoordsSpec),
  ("lol", HlgDrv.hLol), ("culldeps", HlgDrv.hCullDeps), ("task", HlgDrv.hTask), ("blocks", HlgDrv.hBlocks),
  ("optbw", HlgDrv.hOptBW), ("fuseroots", HlgDrv.hFuseRoots),
  ("fuseann", HlgDrv.hFuseAnn), ("fuserules", HlgDrv.hFuseRules), ("hlgcull", HlgDrv.hHlgCull)]
  ++ Dask.GufuncIO.handlers ++ Dask.UnifyPostIO.handlers

def main : IO Unit := runDriver table
