import DaskModel.DriverLib
import DaskModel.Model.NormalForm
open Dask
open Dask.NF

/-! Line-protocol driver of group `token` (C11–C15). -/

/-- decode a value:
  `(int 5) (bool true) (float "1.5") (str "a") (bytes (1 2)) (none) (atom "r") (list v…) (tuple v…)
   (dict (k v)…) (set v…) (arr0 v "dtype") (ndarray "dtype" (shape…) (strides…) off (buf…)) (objarr (shape…) ((code points…) …))` -/
partial def decVal : SExp → Option Val
  | .list [.sym "int", .int i] => some (.int i)
  | .list [.sym "bool", b] => do pure (.bool (← b.toBool?))
  | .list [.sym "float", .str r] => some (.float r)
  | .list [.sym "str", .str s] => some (.str s)
  | .list [.sym "bytes", b] => do pure (.bytes (← b.toNats?))
  | .list [.sym "none"] => some .none
  | .list [.sym "atom", .str r] => some (.atom r)
  | .list (.sym "list" :: xs) => do pure (.list (← xs.mapM decVal))
  | .list (.sym "tuple" :: xs) => do pure (.tuple (← xs.mapM decVal))
  | .list (.sym "set" :: xs) => do pure (.set (← xs.mapM decVal))
  | .list (.sym "dict" :: kvs) => do
    let ps ← kvs.mapM (fun e => match e with
      | .list [k, v] => do pure ((← decVal k), (← decVal v))
      | _ => none)
    pure (.dict ps)
  | .list [.sym "arr0", v, .str dt] => do pure (.arr0 (← decVal v) dt)
  | .list [.sym "ndarray", .str dt, shape, strides, .int off, buf] => do
    pure (.ndarray dt (← shape.toNats?) (← strides.toInts?) off (← buf.toNats?))
  | .list [.sym "objarr", shape, .list elems] => do
    pure (.objarr (← shape.toNats?) (← elems.mapM SExp.toNats?))
  | _ => none

/-- `(tokpre v…)` ↦ the string fed to md5 by `tokenize(v…)` -/
def hTokPre : Handler := handler fun args => do
  let vs ← args.mapM decVal
  pure (.str (tokPre vs))

/-- `(tokprekw (v…) (("k" v)…))` ↦ the string fed to md5 by `tokenize(*v, **kw)` -/
def hTokPreKw : Handler := handler fun args =>
  match args with
  | [.list vs, .list kws] => do
    let vs ← vs.mapM decVal
    let kws ← kws.mapM (fun e => match e with
      | .list [.str k, v] => do pure (k, (← decVal v))
      | _ => none)
    pure (.str (tokPreKw vs kws))
  | _ => none

/-- `(pyrepr v)` / `(pystr v)` -/
def hPyRepr : Handler := handler fun args =>
  match args with
  | [v] => do pure (.str (pyRepr (← decVal v)))
  | _ => none
def hPyStr : Handler := handler fun args =>
  match args with
  | [v] => do pure (.str (pyStr (← decVal v)))
  | _ => none

/-- `(logical (shape…) (strides…) off (buf…))` ↦ `(ok (els…))` | `(oob)` -/
def hLogical : Handler := handler fun args =>
  match args with
  | [shape, strides, .int off, buf] => do
    match logical (← shape.toNats?) (← strides.toInts?) off (← buf.toNats?) with
    | some els => pure (.list [.sym "ok", SExp.ofNats els])
    | none => pure (.list [.sym "oob"])
  | _ => none

def table : List (String × Handler) :=
  [("tokpre", hTokPre), ("tokprekw", hTokPreKw), ("pyrepr", hPyRepr), ("pystr", hPyStr), ("logical", hLogical)]

def main : IO Unit := runDriver table
