import DaskModel.DriverLib
import DaskModel.Model.NormalForm
import DaskModel.Model.NormalFormRec
import DaskModel.Model.NormalFormPandas
import DaskModel.Model.NormalFormPandasX
import DaskModel.Model.TaskNode
import DaskModel.Model.Repack
import DaskModel.Model.GraphMerge
import DaskModel.Model.Delayed
import DaskModel.Model.GetScheduler
import DaskModel.Model.FusedKey
import DaskModel.Model.PickleLoop
import DaskModel.Model.DelayedUnpack
import DaskModel.Model.DelayedOps
import DaskModel.Generated.FusedKeyRenamer
import DaskModel.Model.CtorNamesIO
import DaskModel.Model.SeqAnnotIO
open Dask
open Dask.NF
open Dask.TaskNode

/-! Line-protocol driver of group `token` (C11–C15). -/

/-- decode a value:
  `(int 5) (bool true) (float "1.5") (str "a") (bytes (1 2)) (none) (atom "r") (list v…) (tuple v…)
   (dict (k v)…) (set v…) (arr0 v "dtype") (ndarray "dtype" (shape…) (strides…) off (buf…)) (objarr (shape…) ((code points…) …))` -/
partial def decVal : SExp → Option Val
  | .list [.sym "int", .int i] => some (.int i)
  | .list [.sym "bool", b] => do pure (.bool (← b.toBool?))
  | .list [.sym "float", .str r] => some (.float r)
  | .list [.sym "str", .str s] => some (.str s)
  | .list [.sym "bytes", b] => do pure (.bytes (← b.toNats?))
  | .list [.sym "none"] => some .none
  | .list [.sym "atom", .str r] => some (.atom r)
  | .list [.sym "pickled", .str kind, v] => do pure (.pickled kind (← decVal v))
  | .list (.sym "list" :: xs) => do pure (.list (← xs.mapM decVal))
  | .list (.sym "tuple" :: xs) => do pure (.tuple (← xs.mapM decVal))
  | .list (.sym "set" :: xs) => do pure (.set (← xs.mapM decVal))
  | .list (.sym "dict" :: kvs) => do
    let ps ← kvs.mapM (fun e => match e with
      | .list [k, v] => do pure ((← decVal k), (← decVal v))
      | _ => none)
    pure (.dict ps)
  | .list [.sym "arr0", v, .str dt] => do pure (.arr0 (← decVal v) dt)
  | .list [.sym "ndarray", .str dt, shape, strides, .int off, buf] => do
    pure (.ndarray dt (← shape.toNats?) (← strides.toInts?) off (← buf.toNats?))
  | .list [.sym "objarr", shape, .list elems] => do
    pure (.objarr (← shape.toNats?) (← elems.mapM SExp.toNats?))
  | _ => none

/-- `(tokpre v…)` ↦ the string fed to md5 by `tokenize(v…)` -/
def hTokPre : Handler := handler fun args => do
  let vs ← args.mapM decVal
  pure (.str (tokPre vs))

/-- `(tokprekw (v…) (("k" v)…))` ↦ the string fed to md5 by `tokenize(*v, **kw)` -/
def hTokPreKw : Handler := handler fun args =>
  match args with
  | [.list vs, .list kws] => do
    let vs ← vs.mapM decVal
    let kws ← kws.mapM (fun e => match e with
      | .list [.str k, v] => do pure (k, (← decVal v))
      | _ => none)
    pure (.str (tokPreKw vs kws))
  | _ => none

/-- `(np v)` / `(ea v "dtypename")` -/
def decPVals : SExp → Option PVals
  | .list [.sym "np", v] => do pure (.np (← decVal v))
  | .list [.sym "ea", v, .str dn] => do pure (.ea (← decVal v) dn)
  | _ => none

/-- `(prange "cls" start stop step "dtype" name)` / `(pplain "cls" name vals)` -/
def decPIdx : SExp → Option PIndex
  | .list [.sym "prange", .str cls, .int a, .int b, .int c, .str dt, name] => do pure (.range cls a b c dt (← decVal name))
  | .list [.sym "pplain", .str cls, name, values] => do pure (.plain cls (← decVal name) (← decPVals values))
  | _ => none

/-- `(pindex idx)` `(pseries name "dtype" vals idx)` `(pframe (vals…) columns index)` `(pcat codes categories ordered)` -/
def decPObj : SExp → Option PObj
  | .list [.sym "pindex", i] => do pure (.index (← decPIdx i))
  | .list [.sym "pseries", name, .str dt, values, i] => do pure (.series (← decVal name) dt (← decPVals values) (← decPIdx i))
  | .list [.sym "pframe", .list cols, c, i] => do pure (.frame (← cols.mapM decPVals) (← decPIdx c) (← decPIdx i))
  | .list [.sym "pcat", codes, cats, o] => do pure (.categorical (← decVal codes) (← decPIdx cats) (← o.toBool?))
  | _ => none

/-- `(ptokpre obj)` ↦ the string fed to md5 by `tokenize(obj)` for a NumPy-backed pandas object -/
def hPTokPre : Handler := handler fun args =>
  match args with
  | [o] => do pure (.str (ptokPre (← decPObj o)))
  | _ => none

/-! extended pandas universe (Model/NormalFormPandasX.lean) -/

/-- `(m d)` one cell of a nullable array: mask bit and stored (interned) element -/
def decCell : SExp → Option (Bool × Nat)
  | .list [m, d] => do pure ((← m.toBool?), (← d.toNat?))
  | _ => none

mutual
/-- `(np v)` `(ea v "dtypename")` `(masked "npdtype" ((m d)…) zero "dtypename")` `(interval left right "closed")`
    `(cat codes categories ordered)` -/
partial def decXVals : SExp → Option XVals
  | .list [.sym "np", v] => do pure (.np (← decVal v))
  | .list [.sym "ea", v, .str dn] => do pure (.ea (← decVal v) dn)
  | .list [.sym "masked", .str dt, .list cells, z, .str dn] => do pure (.masked dt (← cells.mapM decCell) (← z.toNat?) dn)
  | .list [.sym "interval", l, r, .str closed] => do pure (.interval (← decXIdx l) (← decXIdx r) closed)
  | .list [.sym "cat", codes, cats, o] => do pure (.cat (← decVal codes) (← decXIdx cats) (← o.toBool?))
  | _ => none
/-- `(prange …)` `(pplain "cls" name vals)` `(pmulti name (levels…) (codes…))` -/
partial def decXIdx : SExp → Option XIndex
  | .list [.sym "prange", .str cls, .int a, .int b, .int c, .str dt, name] => do pure (.range cls a b c dt (← decVal name))
  | .list [.sym "pplain", .str cls, name, values] => do pure (.plain cls (← decVal name) (← decXVals values))
  | .list [.sym "pmulti", name, .list levels, .list codes] => do
    pure (.multi (← decVal name) (← levels.mapM decXIdx) (← codes.mapM decVal))
  | _ => none
end

/-- `(pindex idx)` `(pvals vals)` `(pseries name "dtype" vals idx)` `(pframe (vals…) columns index)` `(pscalar "repr")` -/
def decXObj : SExp → Option XObj
  | .list [.sym "pindex", i] => do pure (.index (← decXIdx i))
  | .list [.sym "pvals", v] => do pure (.vals (← decXVals v))
  | .list [.sym "pseries", name, .str dt, values, i] => do pure (.series (← decVal name) dt (← decXVals values) (← decXIdx i))
  | .list [.sym "pframe", .list cols, c, i] => do pure (.frame (← cols.mapM decXVals) (← decXIdx c) (← decXIdx i))
  | .list [.sym "pscalar", .str r] => some (.scalar r)
  | _ => none

/-- `(xtokpre obj)` ↦ the string fed to md5 by `tokenize(obj)` for a pandas object of the extended universe -/
def hXTokPre : Handler := handler fun args =>
  match args with
  | [o] => do pure (.str (xtokPre (← decXObj o)))
  | _ => none

/-- `(scls "repr")` ↦ the class of a pandas scalar as far as its printed form tells -/
def hSCls : Handler := handler fun args =>
  match args with
  | [.str r] => some (.str (sclsOf r).name)
  | _ => none

/-- possibly recursive values: `(rval V) (back n) (rlist r…) (rtuple r…) (rdict (V r)…)` -/
partial def decRVal : SExp → Option RVal
  | .list [.sym "rval", v] => do pure (.val (← decVal v))
  | .list [.sym "back", n] => do pure (.backref (← n.toNat?))
  | .list (.sym "rlist" :: xs) => do pure (.list (← xs.mapM decRVal))
  | .list (.sym "rtuple" :: xs) => do pure (.tuple (← xs.mapM decRVal))
  | .list (.sym "rdict" :: kvs) => do
    pure (.dict (← kvs.mapM (fun e => match e with
      | .list [k, v] => do pure ((← decVal k), (← decRVal v))
      | _ => none)))
  | _ => none

/-- `(tokprerec r…)` ↦ the string fed to md5 by `tokenize(r…)` for possibly recursive arguments -/
def hTokPreRec : Handler := handler fun args => do
  let rs ← args.mapM decRVal
  pure (.str (tokPreRec rs))

/-- `(pyrepr v)` / `(pystr v)` -/
def hPyRepr : Handler := handler fun args =>
  match args with
  | [v] => do pure (.str (pyRepr (← decVal v)))
  | _ => none
def hPyStr : Handler := handler fun args =>
  match args with
  | [v] => do pure (.str (pyStr (← decVal v)))
  | _ => none

/-- `(logical (shape…) (strides…) off (buf…))` ↦ `(ok (els…))` | `(oob)` -/
def hLogical : Handler := handler fun args =>
  match args with
  | [shape, strides, .int off, buf] => do
    match logical (← shape.toNats?) (← strides.toInts?) off (← buf.toNats?) with
    | some els => pure (.list [.sym "ok", SExp.ofNats els])
    | none => pure (.list [.sym "oob"])
  | _ => none

/-! ### C11: task-spec nodes -/

/-- `(lit V) (ref V) (alias V V) (data V) (task f (arg…) (("kw" node)…)) (cont list|tuple|set (arg…)) (dict ((k v)…))` -/
partial def decNode : SExp → Option Node
  | .list [.sym "lit", v] => do pure (.lit (← decVal v))
  | .list [.sym "ref", v] => do pure (.ref (← decVal v))
  | .list [.sym "alias", k, t] => do pure (.alias (← decVal k) (← decVal t))
  | .list [.sym "data", v] => do pure (.data (← decVal v))
  | .list [.sym "task", .int f, .list args, .list kws] => do
    let args ← args.mapM decNode
    let kws ← kws.mapM (fun e => match e with
      | .list [.str k, v] => do pure (k, (← decNode v))
      | _ => none)
    pure (.task f.toNat args kws)
  | .list [.sym "cont", .sym k, .list args] => do
    let kind ← match k with
      | "list" => some Kind.list | "tuple" => some Kind.tuple | "set" => some Kind.set | _ => none
    pure (.cont kind (← args.mapM decNode))
  | .list [.sym "dict", .list items] => do
    let items ← items.mapM (fun e => match e with
      | .list [k, v] => do pure ((← decNode k), (← decNode v))
      | _ => none)
    pure (.dict items)
  | _ => none

/-- `(nodepre node)` ↦ md5 pre-image of `tokenize(node)`; `(nodeclass node)` ↦ class name -/
def hNodePre : Handler := handler fun args =>
  match args with
  | [n] => do pure (.str (tokenPre (← decNode n)))
  | _ => none
def hNodeClass : Handler := handler fun args =>
  match args with
  | [n] => do pure (.str (className (← decNode n)))
  | _ => none

/-- Python `set(xs)` / `dict(pairs)` keep one element per key (elements are compared by their repr here; the
    harness never generates 1 / True / 1.0 together in this stream); the result is printed in a canonical order
    (sorted by repr), like `canon_repr` of the harness. -/
def dedupRepr (xs : List Val) : List Val :=
  xs.foldl (fun acc x => if acc.any (fun y => pyRepr y == pyRepr x) then acc else acc ++ [x]) []
/-- later items win, the position of the first occurrence is kept (Python dict semantics) -/
def dedupKeys (kvs : List (Val × Val)) : List (Val × Val) :=
  kvs.foldl (fun acc p =>
    if acc.any (fun q => pyRepr q.1 == pyRepr p.1) then acc.map (fun q => if pyRepr q.1 == pyRepr p.1 then (q.1, p.2) else q)
    else acc ++ [p]) []
def canonSort (xs : List Val) : List Val :=
  (ssort (xs.map (fun x => ((pyRepr x, ""), x)))).map Prod.snd
def canonSortP (kvs : List (Val × Val)) : List (Val × Val) :=
  (ssort (kvs.map (fun p => ((pyRepr p.1 ++ ": " ++ pyRepr p.2, ""), p)))).map Prod.snd

/-- print-canonical form: set elements and dict items sorted by their repr, recursively -/
partial def canonVal : Val → Val
  | .list xs => .list (xs.map canonVal)
  | .tuple xs => .tuple (xs.map canonVal)
  | .set xs => .set (canonSort (xs.map canonVal))
  | .dict kvs => .dict (canonSortP (kvs.map (fun p => (canonVal p.1, canonVal p.2))))
  | v => v

/-- concrete value algebra for the evaluation tie: results are Python values again; a call of function `f`
    is recorded as the tuple `("call", f, args, sorted kwargs)` -/
def valSem : Sem Val where
  lit := id
  app f args kws := .tuple [.str "call", .int f, .tuple args, .tuple (kws.map (fun p => .tuple [.str p.1, p.2]))]
  mkList := .list
  mkTuple := .tuple
  mkSet := fun xs => .set (dedupRepr xs)
  mkDict := fun kvs => .dict (dedupKeys kvs)

/-- `(nodeeval node ((key value)…))` ↦ `repr` of `node(values)` (missing keys evaluate to None) -/
def hNodeEval : Handler := handler fun args =>
  match args with
  | [n, .list env] => do
    let n ← decNode n
    let env ← env.mapM (fun e => match e with
      | .list [k, v] => do pure ((← decVal k), (← decVal v))
      | _ => none)
    let look (k : Val) : Val := match env.find? (fun p => pyRepr p.1 == pyRepr k) with
      | some p => p.2 | none => .none
    pure (.str (pyRepr (canonVal (eval valSem look n))))
  | _ => none

/-! ### C14 / C13: unpack_collections / repack, operand order -/

open Dask.Repack in
/-- `(coll n) (leaf n) (list t…) (tuple t…) (set t…) (dict (k v)…) (odict (k v)…) (dataclass c t…) (namedtuple c t…) (iter t…)` -/
partial def decTree : SExp → Option (Tree Nat)
  | .list [.sym "coll", n] => do pure (.coll (← n.toNat?))
  | .list [.sym "leaf", n] => do pure (.leaf (← n.toNat?))
  | .list (.sym "list" :: xs) => do pure (.list (← xs.mapM decTree))
  | .list (.sym "tuple" :: xs) => do pure (.tuple (← xs.mapM decTree))
  | .list (.sym "set" :: xs) => do pure (.set (← xs.mapM decTree))
  | .list (.sym "iter" :: xs) => do pure (.iter (← xs.mapM decTree))
  | .list (.sym "dict" :: kvs) => do pure (.dict (← kvs.mapM decPair))
  | .list (.sym "odict" :: kvs) => do pure (.odict (← kvs.mapM decPair))
  | .list (.sym "dataclass" :: c :: xs) => do pure (.dataclass (← c.toNat?) (← xs.mapM decTree))
  | .list (.sym "namedtuple" :: c :: xs) => do pure (.namedtuple (← c.toNat?) (← xs.mapM decTree))
  | _ => none
where
  decPair : SExp → Option (Repack.Tree Nat × Repack.Tree Nat)
    | .list [k, v] => do pure ((← decTree k), (← decTree v))
    | _ => none

open Dask.Repack in
partial def encTree : Tree Nat → SExp
  | .coll n => .list [.sym "coll", .int n]
  | .leaf n => .list [.sym "leaf", .int n]
  | .list xs => .list (.sym "list" :: xs.map encTree)
  | .tuple xs => .list (.sym "tuple" :: xs.map encTree)
  | .set xs => .list (.sym "set" :: xs.map encTree)
  | .iter xs => .list (.sym "iter" :: xs.map encTree)
  | .dict kvs => .list (.sym "dict" :: kvs.map (fun p => .list [encTree p.1, encTree p.2]))
  | .odict kvs => .list (.sym "odict" :: kvs.map (fun p => .list [encTree p.1, encTree p.2]))
  | .dataclass c xs => .list (.sym "dataclass" :: .int c :: xs.map encTree)
  | .namedtuple c xs => .list (.sym "namedtuple" :: .int c :: xs.map encTree)

/-- `(unpack (arg…) (result…))` ↦ `((collection tokens…) repacked)` where `repacked` is `repack(results)`
    (`none` if a stored index is outside `results`); traverse=True -/
def hUnpack : Handler := handler fun args =>
  match args with
  | [.list ts, rs] => do
    let ts ← ts.mapM decTree
    let rs ← rs.toNats?
    let (colls, term) := Repack.unpackArgs ts
    let out := match Repack.repack rs term with
      | some t => encTree t
      | none => .sym "none"
    pure (.list [SExp.ofNats colls, out])
  | _ => none

/-- `(unpacktop (arg…) (result…))` ↦ `((collection tokens…) ((res r) | (same)…))`; traverse=False -/
def hUnpackTop : Handler := handler fun args =>
  match args with
  | [.list ts, rs] => do
    let ts ← ts.mapM decTree
    let rs ← rs.toNats?
    let (colls, marks) := Repack.unpackTop ts []
    let out := match Repack.repackTop rs ts marks with
      | some xs => SExp.list (xs.map (fun x => match x with
          | .inl r => .list [.sym "res", .int r]
          | .inr _ => .list [.sym "same"]))
      | none => .sym "none"
    pure (.list [SExp.ofNats colls, out])
  | _ => none

/-- `(tune ((optimizer key)…))` ↦ keys of the sequence after `_tune_down`, in `__dask_keys__` order
    (`(k…)`, a missing slot is `none`); `(tuned true|false)` tells whether `_tune_down` changed anything -/
def hTune : Handler := handler fun args =>
  match args with
  | [.list ops] => do
    let ops ← ops.mapM (fun e => match e with
      | .list [o, k] => do pure ((← o.toNat?), (← k.toNat?))
      | _ => none)
    let keys := Repack.keysAfterTune ops
    pure (.list [.list (keys.map SExp.ofOptNat), SExp.ofBool (Repack.tuneDown ops).isSome])
  | _ => none

/-- symbolic value of a task: a code of (task constant, dependency values in order) -/
def combine (c : Nat) (vs : List Nat) : Nat :=
  vs.foldl (fun acc x => (acc * 1000003 + x + 1) % 2305843009213693951) c

/-- `(mergeeval ((( key (dep…) const)…)…) (key…) fuel)` ↦ symbolic values of the keys in the merge of the graphs
    (later graphs win), `none` for a key that does not evaluate -/
def hMergeEval : Handler := handler fun args =>
  match args with
  | [.list graphs, keys, fuel] => do
    let gs ← graphs.mapM (fun g => do
      let entries ← g.toList?
      entries.mapM (fun e => match e with
        | .list [k, deps, c] => do pure ((← k.toNat?), (← deps.toNats?), (← c.toNat?))
        | _ => none))
    let keys ← keys.toNats?
    let fuel ← fuel.toNat?
    let toGraph (es : List (Nat × List Nat × Nat)) : GraphMerge.Graph Nat Nat := fun k =>
      (es.reverse.find? (fun e => e.1 == k)).map (fun e => ⟨e.2.1, combine e.2.2⟩)
    let merged := GraphMerge.mergeAll (gs.map toGraph)
    pure (.list (keys.map (fun k => SExp.ofOptNat (GraphMerge.evalG merged fuel k))))
  | _ => none

/-! ### C15: delayed programs -/

mutual
/-- `(leaf nm v)` `(call nm f (arg…))`; arg: `(lit v) (sub prog) (list arg…) (tuple arg…) (dict (k v)…)` -/
partial def decProg : SExp → Option Delayed.E
  | .list [.sym "leaf", nm, v] => do pure (.leaf (← nm.toNat?) (← v.toNat?))
  | .list [.sym "call", nm, f, .list args] => do pure (.call (← nm.toNat?) (← f.toNat?) (← args.mapM decArg))
  | _ => none
partial def decArg : SExp → Option Delayed.Arg
  | .list [.sym "lit", v] => do pure (.lit (← v.toNat?))
  | .list [.sym "sub", e] => do pure (.sub (← decProg e))
  | .list (.sym "list" :: xs) => do pure (.list (← xs.mapM decArg))
  | .list (.sym "tuple" :: xs) => do pure (.tuple (← xs.mapM decArg))
  | .list (.sym "dict" :: kvs) => do
    pure (.dict (← kvs.mapM (fun e => match e with
      | .list [k, v] => do pure ((← decArg k), (← decArg v))
      | _ => none)))
  | _ => none
end

/-- symbolic value algebra shared with the harness: a call is the code of (function, argument values), containers
    are coded with the constants 1001 (list), 1002 (tuple), 1003 (dict, keys and values alternating) -/
def codeSem : Delayed.Sem Nat where
  lit := id
  app := combine
  mkList := combine 1001
  mkTuple := combine 1002
  mkDict := fun kvs => combine 1003 (kvs.flatMap (fun p => [p.1, p.2]))

/-- `(delayedrun prog fuel)` ↦ `(eager graphvalue ((key (dep…))…))`: value of the program run eagerly, value of
    its key in the graph the model assembles, and the dependencies of every key of that graph -/
def hDelayedRun : Handler := handler fun args =>
  match args with
  | [p, fuel] => do
    let e ← decProg p
    let fuel ← fuel.toNat?
    let g := Delayed.graphOf codeSem e
    let names := ((Delayed.subexprs e).map Delayed.E.nm).eraseDups
    let entries := names.filterMap (fun k => (g k).map (fun t => SExp.list [.int k, SExp.ofNats t.deps]))
    pure (.list [.int (Int.ofNat (Delayed.evalE codeSem e)), SExp.ofOptNat (GraphMerge.evalG g fuel e.nm), .list entries])
  | _ => none

/-! ### C15: unpack_collections of dask/delayed.py -/

open Dask.DelayedUnpack in
/-- `(lit n) (del k) (list p…) (tuple p…) (set p…) (ilist p…) (ituple p…) (iset p…) (dict (k v)…) (slice a b c)
    (dc cls p…) (nt cls p…)` -/
partial def decPV : SExp → Option PV
  | .list [.sym "lit", n] => do pure (.lit (← n.toNat?))
  | .list [.sym "del", n] => do pure (.del (← n.toNat?))
  | .list (.sym "list" :: xs) => do pure (.cont .list (← xs.mapM decPV))
  | .list (.sym "tuple" :: xs) => do pure (.cont .tuple (← xs.mapM decPV))
  | .list (.sym "set" :: xs) => do pure (.cont .set (← xs.mapM decPV))
  | .list (.sym "ilist" :: xs) => do pure (.iter .list (← xs.mapM decPV))
  | .list (.sym "ituple" :: xs) => do pure (.iter .tuple (← xs.mapM decPV))
  | .list (.sym "iset" :: xs) => do pure (.iter .set (← xs.mapM decPV))
  | .list (.sym "dict" :: kvs) => do
    pure (.dict (← kvs.mapM (fun e => match e with
      | .list [k, v] => do pure ((← decPV k), (← decPV v))
      | _ => none)))
  | .list [.sym "slice", a, b, c] => do pure (.slice (← decPV a) (← decPV b) (← decPV c))
  | .list (.sym "dc" :: c :: xs) => do pure (.dataclass (← c.toNat?) (← xs.mapM decPV))
  | .list (.sym "nt" :: c :: xs) => do pure (.namedtuple (← c.toNat?) (← xs.mapM decPV))
  | _ => none

open Dask.DelayedUnpack in
def ckSym : CK → String | .list => "list" | .tuple => "tuple" | .set => "set"

open Dask.DelayedUnpack in
partial def encPV : PV → SExp
  | .lit n => .list [.sym "lit", .int n]
  | .del k => .list [.sym "del", .int k]
  | .cont k xs => .list (.sym (ckSym k) :: xs.map encPV)
  | .iter k xs => .list (.sym ("i" ++ ckSym k) :: xs.map encPV)
  | .dict kvs => .list (.sym "dict" :: kvs.map (fun p => .list [encPV p.1, encPV p.2]))
  | .slice a b c => .list [.sym "slice", encPV a, encPV b, encPV c]
  | .dataclass c xs => .list (.sym "dc" :: .int c :: xs.map encPV)
  | .namedtuple c xs => .list (.sym "nt" :: .int c :: xs.map encPV)

open Dask.DelayedUnpack in
/-- `(obj p) (ref k) (list t…) (conv tuple|set t) (dict (k v)…) (slice a b c) (dc cls t…) (nt cls t…)` -/
partial def encTT : TT → SExp
  | .obj p => .list [.sym "obj", encPV p]
  | .ref k => .list [.sym "ref", .int k]
  | .list ts => .list (.sym "list" :: ts.map encTT)
  | .conv k t => .list [.sym "conv", .sym (ckSym k), encTT t]
  | .dict kvs => .list (.sym "dict" :: kvs.map (fun p => .list [encTT p.1, encTT p.2]))
  | .slice a b c => .list [.sym "slice", encTT a, encTT b, encTT c]
  | .dataclass c ts => .list (.sym "dc" :: .int c :: ts.map encTT)
  | .namedtuple c ts => .list (.sym "nt" :: .int c :: ts.map encTT)

/-- `(dunpack p)` ↦ `(task (collection keys…))` -/
def hDUnpack : Handler := handler fun args =>
  match args with
  | [p] => do
    let r := DelayedUnpack.unpack (← decPV p)
    pure (.list [encTT r.1, SExp.ofNats r.2])
  | _ => none

/-- `(dcall (p…) (("kw" p)…))` ↦ `((task…) (("kw" task)…) (collection keys…))` -/
def hDCall : Handler := handler fun args =>
  match args with
  | [.list ps, .list kws] => do
    let ps ← ps.mapM decPV
    let kws ← kws.mapM (fun e => match e with
      | .list [.str k, v] => do pure (k, (← decPV v))
      | _ => none)
    let r := DelayedUnpack.callArgs ps kws
    pure (.list [.list (r.1.map encTT), .list (r.2.1.map (fun p => .list [.str p.1, encTT p.2])), SExp.ofNats r.2.2])
  | _ => none

/-! ### C12: _normalize_pickle -/

/-- `(pickleloop (d|none …))` ↦ `(digest d flagged)` | `(random)` -/
def hPickleLoop : Handler := handler fun args =>
  match args with
  | [.list as] => do
    let as ← as.mapM (fun a => do pure ((← a.toOptInt?).map Int.toNat))
    pure (match PickleLoop.normalizePickle as with
      | .digest d f => .list [.sym "digest", .int d, SExp.ofBool f]
      | .random => .list [.sym "random"])
  | _ => none

/-! ### C13: default_fused_keys_renamer -/

/-- `(fusedparts maxlen (split…) firstsplit first)` ↦ `(kept full|none)`: the characters of the joined name that are
    kept and, when the name was cut, the full joined name whose digest the code appends; `maxlen` = the argument
    `max_fused_key_length`, slack and room are the extracted constants -/
def hFusedParts : Handler := handler fun args =>
  match args with
  | [maxlen, .list splits, .str fs, .str first] => do
    let maxlen ← maxlen.toNat?
    let splits ← splits.mapM SExp.toStr?
    let thr := FusedKey.threshold maxlen Generated.FusedKeyRenamer.slack
    let keep := FusedKey.keepLen maxlen Generated.FusedKeyRenamer.slack Generated.FusedKeyRenamer.room
    let (kept, full) := FusedKey.fusedParts thr keep (splits.map String.toList) fs.toList first.toList
    pure (.list [.str (String.ofList kept), match full with
      | some c => .str (String.ofList c)
      | none => .sym "none"])
  | _ => none

/-! ### C14: get_scheduler -/

def decSpec : SExp → Option GetScheduler.Spec
  | .list [.sym "none"] => some .none
  | .list [.sym "callable", n] => do pure (.callable (← n.toNat?))
  | .list [.sym "name", .str s] => some (.name s)
  | .list [.sym "executor", w] => do
    let w ← w.toOptInt?
    pure (.executor (w.map Int.toNat))
  | .list [.sym "other"] => some .other
  | _ => none

def encRes : GetScheduler.Res → SExp
  | .fn f => .list [.sym "fn", .str f]
  | .callable id => .list [.sym "callable", .int id]
  | .async n => .list [.sym "async", .int n]
  | .default id => .list [.sym "default", .int id]
  | .nothing => .list [.sym "nothing"]
  | .typeError => .list [.sym "raised", .str "TypeError"]
  | .valueError => .list [.sym "raised", .str "ValueError"]
  | .runtimeError => .list [.sym "raised", .str "RuntimeError"]
  | .assertionError => .list [.sym "raised", .str "AssertionError"]

/-- `(getscheduler cpu get sched cfgsched cfgget cfgworkers cls (coll…))`, `none` for absent optional values -/
def hGetScheduler : Handler := handler fun args =>
  match args with
  | [cpu, get, sched, cfg, cfgGet, cfgW, cls, .list colls] => do
    let r := GetScheduler.getScheduler Generated.NamedSchedulers.namedSchedulers (← cpu.toNat?) (← get.toBool?)
      (← decSpec sched) (← decSpec cfg) (← cfgGet.toBool?) ((← cfgW.toOptInt?).map Int.toNat)
      ((← cls.toOptInt?).map Int.toNat) (← colls.mapM (fun c => do pure ((← c.toOptInt?).map Int.toNat)))
    pure (encRes r)
  | _ => none

/-! ### C15 extension: operators, item / attribute access, method calls (Model/DelayedOps.lean) -/

mutual
/-- `(leaf nm v)` `(call nm pure f (arg…))` `(binop nm o prog arg)` `(rbinop nm o arg prog)` `(unop nm o prog)`
    `(getitem nm prog arg)` `(getattr nm prog attr)` `(method nm pure prog m (arg…))`;
    arg: `(lit v) (sub prog) (list arg…) (tuple arg…) (dict (k v)…)` -/
partial def decX : SExp → Option DelayedOps.X
  | .list [.sym "leaf", nm, v] => do pure (.leaf (← nm.toNat?) (← v.toNat?))
  | .list [.sym "call", nm, p, f, .list args] => do pure (.call (← nm.toNat?) (← p.toBool?) (← f.toNat?) (← args.mapM decXA))
  | .list [.sym "binop", nm, o, l, r] => do pure (.binop (← nm.toNat?) (← o.toNat?) (← decX l) (← decXA r))
  | .list [.sym "rbinop", nm, o, l, r] => do pure (.rbinop (← nm.toNat?) (← o.toNat?) (← decXA l) (← decX r))
  | .list [.sym "unop", nm, o, x] => do pure (.unop (← nm.toNat?) (← o.toNat?) (← decX x))
  | .list [.sym "getitem", nm, x, i] => do pure (.getitem (← nm.toNat?) (← decX x) (← decXA i))
  | .list [.sym "getattr", nm, x, a] => do pure (.getattr (← nm.toNat?) (← decX x) (← a.toNat?))
  | .list [.sym "method", nm, p, x, m, .list args] => do
    pure (.method (← nm.toNat?) (← p.toBool?) (← decX x) (← m.toNat?) (← args.mapM decXA))
  | _ => none
partial def decXA : SExp → Option DelayedOps.XA
  | .list [.sym "lit", v] => do pure (.lit (← v.toNat?))
  | .list [.sym "sub", e] => do pure (.sub (← decX e))
  | .list (.sym "list" :: xs) => do pure (.list (← xs.mapM decXA))
  | .list (.sym "tuple" :: xs) => do pure (.tuple (← xs.mapM decXA))
  | .list (.sym "dict" :: kvs) => do
    pure (.dict (← kvs.mapM (fun e => match e with
      | .list [k, v] => do pure ((← decXA k), (← decXA v))
      | _ => none)))
  | _ => none
end

/-- the symbolic value algebra shared with the harness (`SymV` of harness/props/_c15x_ops.py) -/
def codeSemX : DelayedOps.XSem Nat where
  lit := id
  app := combine
  -- `a > b` is `b < a`, `a >= b` is `b <= a` (operators 15, 16 / 13, 14 of the harness): the value algebra satisfies the
  -- mirror law Python relies on when it dispatches a comparison to the reflected method of the right operand
  binop := fun o a b => if o = 15 ∨ o = 16 then combine (2000 + o - 2) [b, a] else combine (2000 + o) [a, b]
  unop := fun o a => combine (2100 + o) [a]
  getitem := fun a i => combine 3001 [a, i]
  getattr := fun a n => combine 3002 [a, n]
  method := fun m a vs => combine (4000 + m) (a :: vs)
  mkList := combine 1001
  mkTuple := combine 1002
  mkDict := fun kvs => combine 1003 (kvs.flatMap (fun p => [p.1, p.2]))

def encCallable : DelayedOps.Callable → SExp
  | .fn f => .list [.sym "fn", .int f]
  | .binop o => .list [.sym "binop", .int o]
  | .rbinop o => .list [.sym "rbinop", .int o]
  | .unop o => .list [.sym "unop", .int o]
  | .getitem => .list [.sym "getitem"]
  | .getattr => .list [.sym "getattr"]
  | .method m => .list [.sym "method", .int m]

mutual
partial def encSK : DelayedOps.SK → SExp
  | .given n => .list [.sym "given", .int n]
  | .pure c args => .list (.sym "pure" :: encCallable c :: args.map encSA)
partial def encSA : DelayedOps.SA → SExp
  | .lit v => .list [.sym "lit", .int v]
  | .key k => .list [.sym "key", encSK k]
  | .list xs => .list (.sym "list" :: xs.map encSA)
  | .tuple xs => .list (.sym "tuple" :: xs.map encSA)
  | .dict kvs => .list (.sym "dict" :: kvs.map (fun p => .list [encSA p.1, encSA p.2]))
end

/-- `(opsrun prog fuel)` ↦ `(eager graphvalue ((key (dep…))…) ((key legacy callable (arg…) (dep…))…) ((key skey)…))`:
    value of the program run eagerly, value of its key in the graph the model assembles, the dependencies of every key
    of that graph, the task (`shapeOf`) of every operation, and the symbolic key of every Delayed value of the program -/
def hOpsRun : Handler := handler fun args =>
  match args with
  | [p, fuel] => do
    let e ← decX p
    let fuel ← fuel.toNat?
    let g := DelayedOps.graphOfX codeSemX e
    let subs := DelayedOps.subX e
    let names := (subs.map DelayedOps.X.nm).eraseDups
    let entries := names.filterMap (fun k => (g k).map (fun t => SExp.list [.int k, SExp.ofNats t.deps]))
    let shapes := subs.filterMap (fun s => (DelayedOps.shapeOf s).map (fun sh =>
      SExp.list [.int s.nm, SExp.ofBool sh.legacy, encCallable sh.callable, .list (sh.args.map encTT), SExp.ofNats sh.deps]))
    let skeys := subs.map (fun s => SExp.list [.int s.nm, encSK (DelayedOps.skey s)])
    pure (.list [.int (Int.ofNat (DelayedOps.evalX codeSemX e)), SExp.ofOptNat (GraphMerge.evalG g fuel e.nm),
      .list entries, .list shapes, .list skeys])
  | _ => none

def keyPre (k : String × Val) : SExp :=
  match k.2 with
  | .digest nf => .list [.str k.1, .str (pyRepr nf)]
  | _ => .list [.str k.1, .sym "none"]

/-- `(opkey op "funcname" "leafkey" (v…))` `(opkey attr "objkey" "attr")` `(opkey method "m" "objkey" (v…) (("k" v)…))`
    ↦ `("prefix" "string fed to md5")`: the pure key of an operator node, of `d.attr`, of `d.m(…, pure=True)` -/
def hOpKey : Handler := handler fun args =>
  match args with
  | [.sym "op", .str fn, .str lk, .list vs] => do
    pure (keyPre (DelayedOps.opKey fn lk (← vs.mapM decVal)))
  | [.sym "attr", .str o, .str a] => some (keyPre (DelayedOps.attrKey o a))
  | [.sym "method", .str m, .str o, .list vs, .list kws] => do
    let vs ← vs.mapM decVal
    let kws ← kws.mapM (fun e => match e with
      | .list [.str k, v] => do pure (k, (← decVal v))
      | _ => none)
    pure (keyPre (DelayedOps.methodKey m o vs kws))
  | _ => none

/-- `(callname name|none callpure|none leafpure|none cfg "funcname" "tok" "uuid")` ↦ the key `call_function` gives the
    new Delayed -/
def hCallName : Handler := handler fun args =>
  match args with
  | [dkn, cp, lp, cfg, .str fn, .str tok, .str uuid] => do
    let dkn : Option String := match dkn with
      | .str s => some s
      | _ => none
    let ob (e : SExp) : Option Bool := match e with
      | .sym "true" => some true
      | .sym "false" => some false
      | _ => none
    pure (.str (DelayedOps.callName dkn (DelayedOps.effPure (ob cp) (ob lp) (← cfg.toBool?)) fn tok uuid))
  | _ => none

def table : List (String × Handler) :=
  [("opsrun", hOpsRun), ("opkey", hOpKey), ("callname", hCallName), ("pickleloop", hPickleLoop), ("ptokpre", hPTokPre), ("xtokpre", hXTokPre), ("scls", hSCls), ("dunpack", hDUnpack), ("dcall", hDCall), ("fusedparts", hFusedParts), ("tokprerec", hTokPreRec), ("getscheduler", hGetScheduler), ("delayedrun", hDelayedRun), ("mergeeval", hMergeEval), ("unpack", hUnpack), ("unpacktop", hUnpackTop), ("tune", hTune),
   ("nodepre", hNodePre), ("nodeclass", hNodeClass), ("nodeeval", hNodeEval),
   ("tokpre", hTokPre), ("tokprekw", hTokPreKw), ("pyrepr", hPyRepr), ("pystr", hPyStr), ("logical", hLogical)] ++ Dask.CtorNamesIO.handlers ++ Dask.SeqAnnotIO.handlers

def main : IO Unit := runDriver table
