import DaskModel.DriverLib
import DaskModel.Model.Sched
import DaskModel.Model.Callbacks
import DaskModel.Model.Diagnostics
import DaskModel.Model.SchedWarm
import DaskModel.Model.CacheSession
import DaskModel.Model.CacheCost
open Dask
open Dask.Sched

/-! Driver of group `sched`. Values are `Int`; the task function of the harness is `mix`. -/

namespace SchedDrv

def modulus : Int := 1000000007

/-- the task function shared with the harness (`_sched_util.mix`) -/
def mix (k : Key) (vals : List Int) : Int :=
  (vals.foldl (fun acc v => (acc * 31 + v) % modulus) ((k : Int) * 1000003 + 7)) % modulus

def sortNat (l : List Nat) : List Nat := l.mergeSort (fun a b => a ≤ b)
def sortMap {β : Type} (m : Map β) : Map β := m.mergeSort (fun a b => a.1 ≤ b.1)

def encSetMap (m : Map (List Key)) : SExp :=
  .list ((sortMap m).map (fun p => .list [SExp.ofNat p.1, SExp.ofNats (sortNat p.2)]))

def encState (s : State Int) : SExp :=
  .list [encSetMap s.dependencies, encSetMap s.dependents, encSetMap s.waiting, encSetMap s.waitingData,
         .list ((sortMap s.cache).map (fun p => .list [SExp.ofNat p.1, .int p.2])),
         SExp.ofNats s.ready.reverse, SExp.ofNats (sortNat s.running), SExp.ofNats (sortNat s.finished),
         SExp.ofNats (sortNat s.released)]

def decSetMap (e : SExp) : Option (Map (List Key)) := do
  (← e.toList?).mapM (fun p => match p with
    | .list [k, v] => do pure ((← k.toNat?), (← v.toNats?))
    | _ => none)

def decIntMap (e : SExp) : Option (Map Int) := do
  (← e.toList?).mapM (fun p => match p with
    | .list [k, v] => do pure ((← k.toNat?), (← v.toInt?))
    | _ => none)

def decState (e : SExp) : Option (State Int) :=
  match e with
  | .list [a, b, c, d, ca, r, ru, f, re] => do
    pure { dependencies := ← decSetMap a, dependents := ← decSetMap b, waiting := ← decSetMap c,
           waitingData := ← decSetMap d, cache := ← decIntMap ca, ready := (← r.toNats?).reverse,
           running := ← ru.toNats?, finished := ← f.toNats?, released := ← re.toNats? }
  | _ => none

def encKE : KE → String
  | .waiting => "waiting" | .waitingRemove => "waitingRemove" | .waitingDataRemove => "waitingDataRemove"
  | .cacheDel => "cacheDel" | .cacheRead => "cacheRead" | .runningRemove => "runningRemove"
  | .dependencies => "dependencies" | .dependents => "dependents" | .initWaitingRemove => "initWaitingRemove"
  | .result => "result"

def encErr : Err → SExp
  | .missingDep k => .list [.sym "missingDep", SExp.ofNat k]
  | .noAccessibleJobs => .list [.sym "noAccessibleJobs"]
  | .zeroDivision => .list [.sym "zeroDivision"]
  | .keyError w => .list [.sym "keyError", .sym (encKE w)]
  | .assertion => .list [.sym "assertion"]
  | .indexError => .list [.sym "indexError"]
  | .hang => .list [.sym "hang"]
  | .badChoice => .list [.sym "badChoice"]
  | .fuel => .list [.sym "fuel"]

def encEv : Ev → SExp
  | .start => .list [.sym "start"]
  | .startState => .list [.sym "start_state"]
  | .pretask k => .list [.sym "pretask", SExp.ofNat k]
  | .submit ks => .list [.sym "submit", SExp.ofNats ks]
  | .posttask k => .list [.sym "posttask", SExp.ofNat k]
  | .finish f => .list [.sym "finish", SExp.ofBool f]

/-- nodes: `(k d v)` data with value v, `(k t d1 d2 …)` task, `(k a d)` alias -/
structure GraphIn where
  g : Graph
  aliases : List Key
  vals : Map Int

def decNodes (e : SExp) : Option GraphIn := do
  let items ← e.toList?
  items.foldlM (fun (acc : GraphIn) it =>
    match it with
    | .list (k :: .sym "d" :: [v]) => do
      let k ← k.toNat?; let v ← v.toInt?
      pure { acc with g := acc.g ++ [(k, Node.data)], vals := acc.vals ++ [(k, v)] }
    | .list (k :: .sym "t" :: ds) => do
      let k ← k.toNat?; let ds ← ds.mapM SExp.toNat?
      pure { acc with g := acc.g ++ [(k, Node.task ds)] }
    | .list (k :: .sym "a" :: [d]) => do
      let k ← k.toNat?; let d ← d.toNat?
      pure { acc with g := acc.g ++ [(k, Node.task [d])], aliases := k :: acc.aliases }
    | _ => none) { g := [], aliases := [], vals := [] }

def mkParams (gi : GraphIn) (fails : List Key) : Params Int :=
  { dataVal := fun k => (gi.vals.get? k).getD 0,
    apply := fun k vals => if k ∈ gi.aliases then vals.headD 0 else mix k vals,
    fails := fun k => k ∈ fails }

def decPrio (e : SExp) : Option (Key → Nat) := do
  let items ← e.toList?
  let m : Map Nat ← items.mapM (fun p => match p with
    | .list [k, v] => do pure ((← k.toNat?), (← v.toNat?))
    | _ => none)
  pure (fun k => (m.get? k).getD 0)

def encOutcome : Except Err Outcome → SExp
  | .ok .done => .list [.sym "done"]
  | .ok (.failed k) => .list [.sym "failed", SExp.ofNat k]
  | .ok .starved => .list [.sym "starved"]
  | .error e => .list [.sym "raised", encErr e]

/-- a request: an integer is a key, a list is a (possibly empty, possibly nested) list of requests -/
partial def decReq (e : SExp) : Option Req :=
  match e with
  | .list items => do pure (.list (← items.mapM decReq))
  | e => do pure (.key (← e.toNat?))

partial def encPacked : Packed Int → SExp
  | .val v => .int v
  | .tuple vs => .list (vs.map encPacked)

/-- `(nested_get req (known…))` ↦ `(ok packed)` | `(raised)`: `nested_get(ind, coll)` with `coll[k] = 7k+1` for the known keys -/
def hNested : Handler := handler fun args =>
  match args with
  | [req, known] => do
    let req ← decReq req
    let known ← known.toNats?
    match nestedGet (fun k => if k ∈ known then some ((7 * k + 1 : Nat) : Int) else none) req with
    | some p => pure (.list [.sym "ok", encPacked p])
    | none => pure (.list [.sym "raised"])
  | _ => none

/-- `(run nodes results prio nw cs fails choices [req [cache0]])` ↦ `(outcome log final result [packed])`; `cache0` is a
caller-supplied `cache=`; with `req` the fifth
component is what `nested_get(req, cache)` returns at the end (`KeyError` when a requested key is not cached) -/

def hRun : Handler := handler fun args =>
  match args with
  | nodes :: results :: prio :: nw :: cs :: fails :: choices :: rest => do
    let gi ← decNodes nodes
    let results ← results.toNats?
    let prio ← decPrio prio
    let nw ← nw.toInt?
    let cs ← cs.toInt?
    let fails ← fails.toNats?
    let choices ← choices.toNats?
    let cfg : Cfg := { g := gi.g, results := results, prio := prio, nw := nw, cs := cs }
    let P := mkParams gi fails
    let cache0 : Map Int ← match rest with
      | [_, c] => decIntMap c
      | _ => some []
    let r := getAsyncC cfg P cache0 choices
    let res : SExp := match r.outcome with
      | .ok .done => .list (results.map (fun k => match r.final.cache.get? k with
          | some v => .int v
          | none => .sym "KeyError"))
      | _ => .list []
    let base := [encOutcome r.outcome,
                 .list (r.log.map (fun p => .list [encEv p.1, encState p.2])),
                 encState r.final, res]
    match rest with
    | [] => pure (.list base)
    | req :: _ =>
      let req ← decReq req
      let packed : SExp := match r.outcome with
        | .ok .done => (match nestedGet r.final.cache.get? req with
          | some p => encPacked p
          | none => .sym "KeyError")
        | _ => .sym "none"
      pure (.list (base ++ [packed]))
  | _ => none

/-- `(start_state nodes results prio [cache0 keysNone])` ↦ `(ok state)` | `(raised err)`; `keysNone = true` is the
`keys=None` default of `start_state_from_dask` (every key of the graph that is not in the cache) -/
def hStart : Handler := handler fun args =>
  match args with
  | nodes :: results :: prio :: rest => do
    let gi ← decNodes nodes
    let results ← results.toNats?
    let prio ← decPrio prio
    let cfg : Cfg := { g := gi.g, results := results, prio := prio, nw := 1, cs := 1 }
    let (cache0, keysNone) ← match rest with
      | [] => some (([] : Map Int), false)
      | [c, kn] => do pure ((← decIntMap c), (← kn.toBool?))
      | _ => none
    match startStateC cfg (mkParams gi []) cache0 (if keysNone then none else some results) with
    | .ok s => pure (.list [.sym "ok", encState s])
    | .error e => pure (.list [.sym "raised", encErr e])
  | _ => none

/-- `(finish_task state key results prio)` ↦ `(ok state)` | `(raised err)` -/
def hFinish : Handler := handler fun args =>
  match args with
  | [st, key, results, prio] => do
    let s ← decState st
    let key ← key.toNat?
    let results ← results.toNats?
    let prio ← decPrio prio
    let cfg : Cfg := { g := [], results := results, prio := prio, nw := 1, cs := 1 }
    match finishTask cfg key s with
    | .ok s => pure (.list [.sym "ok", encState s])
    | .error e => pure (.list [.sym "raised", encErr e])
  | _ => none

/-- `(release_data state key)` -/
def hRelease : Handler := handler fun args =>
  match args with
  | [st, key] => do
    let s ← decState st
    let key ← key.toNat?
    match releaseData key s with
    | .ok s => pure (.list [.sym "ok", encState s])
    | .error e => pure (.list [.sym "raised", encErr e])
  | _ => none

/-- `(denote nodes keys)` ↦ values of the recursive evaluation (`none` for keys not in the graph) -/
def hDenote : Handler := handler fun args =>
  match args with
  | [nodes, keys] => do
    let gi ← decNodes nodes
    let keys ← keys.toNats?
    let P := mkParams gi []
    pure (.list (keys.map (fun k => match gi.g.get? k with
      | some _ => .int (denote gi.g P (gi.g.length + 1) k)
      | none => .sym "none")))
  | _ => none

/-! ### callbacks (C05) -/
open Dask.Callbacks in
def decOp (e : SExp) : Option Op :=
  match e with
  | .list [.sym "enterObj", o, c] => do pure (.enterObj (← o.toNat?) (← c.toNat?))
  | .list [.sym "exitObj", o] => do pure (.exitObj (← o.toNat?))
  | .list (.sym "buildCm" :: h :: cbs) => do pure (.buildCm (← h.toNat?) (← cbs.mapM SExp.toNat?))
  | .list [.sym "enterCm", h] => do pure (.enterCm (← h.toNat?))
  | .list [.sym "exitCm", h] => do pure (.exitCm (← h.toNat?))
  | .list [.sym "register", c] => do pure (.register (← c.toNat?))
  | .list [.sym "unregister", c] => do pure (.unregister (← c.toNat?))
  | .list [.sym "get"] => some .get
  | .list (.sym "getWith" :: cbs) => do pure (.getWith (← cbs.mapM SExp.toNat?))
  | _ => none

open Dask.Callbacks in
partial def decProg (e : SExp) : Option Prog :=
  match e with
  | .list [.sym "skip"] => some .skip
  | .list [.sym "seq", p, q] => do pure (.seq (← decProg p) (← decProg q))
  | .list [.sym "withCm", cbs, b] => do pure (.withCm (← cbs.toNats?) (← decProg b))
  | .list [.sym "withObj", c, b] => do pure (.withObj (← c.toNat?) (← decProg b))
  | .list [.sym "build", h, cbs] => do pure (.build (← h.toNat?) (← cbs.toNats?))
  | .list [.sym "withH", h, b] => do pure (.withH (← h.toNat?) (← decProg b))
  | .list [.sym "register", c] => do pure (.register (← c.toNat?))
  | .list [.sym "unregister", c] => do pure (.unregister (← c.toNat?))
  | .list [.sym "get"] => some .get
  | _ => none

/-- `(cbrun op…)` ↦ one `(ok (active…) used|none)` / `(raised)` per executed operation -/
def hCbRun : Handler := handler fun args => do
  let ops ← args.mapM decOp
  let rs := Dask.Callbacks.run ops {}
  pure (.list (rs.map (fun r => match r with
    | .ok (s, u) => .list [.sym "ok", SExp.ofNats (sortNat s.active),
        match u with | some l => SExp.ofNats (sortNat l) | none => .sym "none"]
    | .error _ => .list [.sym "raised"])))

/-- `(cbexec prog)` ↦ `(ok (active…) ((used…)…))` | `(raised)` -/
def hCbExec : Handler := handler fun args =>
  match args with
  | [p] => do
    let p ← decProg p
    match Dask.Callbacks.exec p {} with
    | .ok (s, l) => pure (.list [.sym "ok", SExp.ofNats (sortNat s.active), .list (l.map (fun u => SExp.ofNats (sortNat u)))])
    | .error _ => pure (.list [.sym "raised"])
  | _ => none

/-! ### diagnostics (C52) -/
def decEv (e : SExp) : Option Ev :=
  match e with
  | .list [.sym "start"] => some .start
  | .list [.sym "start_state"] => some .startState
  | .list [.sym "pretask", k] => do pure (.pretask (← k.toNat?))
  | .list [.sym "posttask", k] => do pure (.posttask (← k.toNat?))
  | .list [.sym "finish", b] => do pure (.finish (← b.toBool?))
  | _ => none

/-- `(prof ((ev time)…))` ↦ `(ok ((key start end)…))` sorted | `(raised)`; several scheduler calls may follow each other -/
def hProf : Handler := handler fun args =>
  match args with
  | [evs] => do
    let items ← evs.toList?
    let pairs ← items.mapM (fun it => match it with
      | .list [e, t] => do pure ((← decEv e), (← t.toNat?))
      | _ => none)
    let times := pairs.map (·.2)
    let log : List (Ev × State Int) := pairs.map (fun p => (p.1, {}))
    match Dask.Diag.profRun (fun i => times.getD i 0) 0 {} log with
    | .ok p =>
      let rs := p.results.mergeSort (fun a b => a.1 < b.1 || (a.1 == b.1 && a.2.1 ≤ b.2.1))
      pure (.list [.sym "ok", .list (rs.map (fun r => SExp.ofNats [r.1, r.2.1, r.2.2])),
                   SExp.ofNats (sortNat (p.pend.map (·.1)))])
    | .error _ => pure (.list [.sym "raised"])
  | _ => none

/-- `(cprof ((ev time (released…))…))` ↦ `(((key cache_time free_time)…) (live keys…))`: the CacheProfiler fold; several
scheduler calls may follow each other -/
def hCProf : Handler := handler fun args =>
  match args with
  | [evs] => do
    let items ← evs.toList?
    let triples ← items.mapM (fun it => match it with
      | .list [e, t, rel] => do pure ((← decEv e), (← t.toNat?), (← rel.toNats?))
      | _ => none)
    let times := triples.map (·.2.1)
    let log : List (Ev × State Int) := triples.map (fun p => (p.1, { released := p.2.2 }))
    let p := Dask.Diag.cprofRun (fun i => times.getD i 0) 0 {} log
    let rs := p.results.mergeSort (fun a b => a.1 < b.1 || (a.1 == b.1 && a.2.1 ≤ b.2.1))
    pure (.list [.list (rs.map (fun r => SExp.ofNats [r.1, r.2.1, r.2.2])), SExp.ofNats (sortNat (p.live.map (·.1)))])
  | _ => none

/-- `(cache_cost ((pre k t) | (post k t (deps…)) | (finish))…)` ↦ `(ok ((key duration)…) (keys of durations) (keys of starttimes))`
in the order of the `cache.put` calls | `(raised)`: the cost bookkeeping of `Cache` -/
def hCacheCost : Handler := handler fun args =>
  match args with
  | [evs] => do
    let items ← evs.toList?
    let log ← items.mapM (fun it => match it with
      | .list [.sym "pre", k, t] => do pure (Dask.Diag.CEv.pre (← k.toNat?) (← t.toNat?))
      | .list [.sym "post", k, t, deps] => do pure (Dask.Diag.CEv.post (← k.toNat?) (← t.toNat?) (← deps.toNats?))
      | .list [.sym "finish"] => some Dask.Diag.CEv.finish
      | _ => none)
    match Dask.Diag.costRun {} log with
    | .ok s =>
      pure (.list [.sym "ok", .list (s.puts.map (fun r => SExp.ofNats [r.1, r.2])),
                   SExp.ofNats (sortNat (s.durs.map (·.1))), SExp.ofNats (sortNat (s.starts.map (·.1)))])
    | .error _ => pure (.list [.sym "raised"])
  | _ => none

/-- `(cache_run nodes results prio nw cs choices store)`: the run the scheduler makes after `Cache._start` patched the
graph with `store`; ↦ `(outcome result store')` where `store'` is what `Cache._posttask` leaves (no eviction) -/
def hCacheRun : Handler := handler fun args =>
  match args with
  | [nodes, results, prio, nw, cs, choices, store] => do
    let gi ← decNodes nodes
    let results ← results.toNats?
    let prio ← decPrio prio
    let nw ← nw.toInt?
    let cs ← cs.toInt?
    let choices ← choices.toNats?
    let store ← decIntMap store
    let cfg : Cfg := { g := Dask.Diag.patchGraph gi.g store, results := results, prio := prio, nw := nw, cs := cs }
    let P := Dask.Diag.patchParams (mkParams gi []) store
    let r := getAsync cfg P choices
    let res : SExp := match r.outcome with
      | .ok .done => .list (results.map (fun k => match r.final.cache.get? k with
          | some v => .int v
          | none => .sym "KeyError"))
      | _ => .list []
    let store' := Dask.Diag.storeAfter store r.log
    pure (.list [encOutcome r.outcome, res,
                 .list ((sortMap store').map (fun p => .list [SExp.ofNat p.1, .int p.2])),
                 SExp.ofNats (r.log.filterMap (fun p => match p.1 with | .pretask k => some k | _ => none))])
  | _ => none

/-- `(cache_session store0 ((nodes results prio nw cs choices evict fails)…))`: a whole session of calls under one Cache
object (`Model/CacheSession.lean`; the store is threaded by the model) ↦ per call `(outcome result store' fired)` -/
def hCacheSession : Handler := handler fun args =>
  match args with
  | [store0, calls] => do
    let store0 ← decIntMap store0
    let items ← calls.toList?
    let cs ← items.mapM (fun it => match it with
      | .list [nodes, results, prio, nw, cs, choices, evict, fails] => do
        let gi ← decNodes nodes
        let c : Dask.Diag.Call Int :=
          { cfg := { g := gi.g, results := ← results.toNats?, prio := ← decPrio prio, nw := ← nw.toInt?, cs := ← cs.toInt? },
            P := mkParams gi (← fails.toNats?), choices := ← choices.toNats?, evict := ← evict.toNats? }
        pure c
      | _ => none)
    pure (.list ((cs.zip (Dask.Diag.session store0 cs)).map (fun cr =>
      let r := cr.2.1
      let res : SExp := match r.outcome with
        | .ok .done => .list (cr.1.cfg.results.map (fun k => match r.final.cache.get? k with
            | some v => .int v
            | none => .sym "KeyError"))
        | _ => .list []
      .list [encOutcome r.outcome, res,
             .list ((sortMap cr.2.2).map (fun p => .list [SExp.ofNat p.1, .int p.2])),
             SExp.ofNats (Dask.Diag.firedKeys r)])))
  | _ => none

/-- `(warm_plan nodes results cache0)` ↦ `(sound (exec…) (reach…))`: what the theorems of `Props/C01xCache` predict for a run
with the caller-supplied cache `cache0`: `sound` = every cached key holds the value the graph denotes for it (hypothesis
`CacheSound`), `exec` = the tasks that are executed (not cached, reachable from the request in the warm graph), `reach` = the
keys `start_state_from_dask` visits (all sorted) -/
def hWarmPlan : Handler := handler fun args =>
  match args with
  | [nodes, results, cache0] => do
    let gi ← decNodes nodes
    let results ← results.toNats?
    let cache0 ← decIntMap cache0
    let P := mkParams gi []
    pure (.list [SExp.ofBool (cacheSoundB gi.g P (gi.g.length + 1) cache0),
                 SExp.ofNats (sortNat (expectedExec gi.g cache0 results)),
                 SExp.ofNats (sortNat (reachSet (warmGraph gi.g cache0) results))])
  | _ => none

end SchedDrv

def table : List (String × Handler) :=
  [("run", SchedDrv.hRun), ("start_state", SchedDrv.hStart), ("finish_task", SchedDrv.hFinish),
   ("release_data", SchedDrv.hRelease), ("denote", SchedDrv.hDenote), ("nested_get", SchedDrv.hNested),
   ("cbrun", SchedDrv.hCbRun), ("cbexec", SchedDrv.hCbExec), ("prof", SchedDrv.hProf), ("cprof", SchedDrv.hCProf), ("cache_run", SchedDrv.hCacheRun), ("cache_session", SchedDrv.hCacheSession), ("cache_cost", SchedDrv.hCacheCost),
   ("warm_plan", SchedDrv.hWarmPlan)]

def main : IO Unit := runDriver table
