import DaskModel.DriverLib
import DaskModel.Model.ArrayReduce
import DaskModel.Model.BlockScan
import DaskModel.Model.Percentile
import DaskModel.Model.Masked
import DaskModel.Model.RandomKeys
import DaskModel.Model.ChoiceND
import DaskModel.Model.Contraction
import DaskModel.Model.ArrayExpr
import DaskModel.Model.Moment
import DaskModel.Model.ArgNd
import DaskModel.Model.TsqrPlanIO
import DaskModel.Model.MaskedRedIO
import DaskModel.Model.ArrayExprNdIO
import DaskModel.Model.ChunkPercentileIO
open Dask

namespace ReduceDriver
open Dask.ArrayReduce Dask.BlockScan

def toOptNat? : SExp → Option (Option Nat)
  | .sym "none" => some none
  | e => (e.toNat?).map some

def toOptNats? (e : SExp) : Option (List (Option Nat)) := do (← e.toList?).mapM toOptNat?

def ofKey (k : List Nat) : SExp := SExp.ofNats k

def ofPlanRound (r : List (List Nat × List (List Nat))) : SExp :=
  .list (r.map fun (k, ins) => .list [ofKey k, SExp.ofNatss ins])

def ofGrid {γ : Type} (f : γ → SExp) (g : Option (Grid γ)) : SExp :=
  match g with
  | none => .list [.sym "raised"]
  | some g => .list (.sym "ok" :: g.map fun (k, v) => .list [ofKey k, f v])

def ofPair (p : Int × Int) : SExp := .list [.int p.1, .int p.2]

/-- `(plan (numblocks…) (split…) keepdims depth)` -/
def hPlan : Handler := handler fun args =>
  match args with
  | [nb, sp, kd, d] => do
    let nb ← nb.toNats?
    let sp ← toOptNats? sp
    let kd ← kd.toBool?
    let d ← d.toNat?
    pure (.list ((treePlan nb sp kd d).map ofPlanRound))
  | _ => none

/-- `(treedepth (split…) (numblocks…))` ↦ `(depth of the _tree_reduce loop, depth of the last-axis-only variant)` -/
def hTreeDepth : Handler := handler fun args =>
  match args with
  | [sp, nb] => do
    let sp ← toOptNats? sp
    let nb ← nb.toNats?
    pure (SExp.ofNats [treeDepth sp nb, treeDepthLast sp nb])
  | _ => none

def runRed {β γ : Type} (r : Red Int β γ) (f : γ → SExp) (nb : List Nat) (sp : List (Option Nat))
    (kd : Bool) (d : Nat) (blocks : List (List Int)) : SExp :=
  ofGrid f (r.run nb sp kd d blocks)

/-- `(treduce op (numblocks…) (split…) keepdims depth (block…))`, `op` = `sum|prod|any|all|min|max|mean|(topk k)` -/
def hTreduce : Handler := handler fun args =>
  match args with
  | [op, nb, sp, kd, d, blocks] => do
    let nb ← nb.toNats?
    let sp ← toOptNats? sp
    let kd ← kd.toBool?
    let d ← d.toNat?
    let blocks ← blocks.toIntss?
    match op with
    | .sym "sum" => pure (runRed redSum .int nb sp kd d blocks)
    | .sym "prod" => pure (runRed redProd .int nb sp kd d blocks)
    | .sym "any" => pure (runRed redAny SExp.ofBool nb sp kd d blocks)
    | .sym "all" => pure (runRed redAll SExp.ofBool nb sp kd d blocks)
    | .sym "min" => pure (runRed redMin SExp.ofOptInt nb sp kd d blocks)
    | .sym "max" => pure (runRed redMax SExp.ofOptInt nb sp kd d blocks)
    | .sym "mean" => pure (runRed redMean ofPair nb sp kd d blocks)
    | .list [.sym "topk", .int k] => pure (runRed (redTopk k) SExp.ofInts nb sp kd d blocks)
    | _ => none
  | _ => none

/-- `(argreduce min|max (total shape…) (numblocks…) (split…) depth ((bshape offset data)…))` -/
def hArg : Handler := handler fun args =>
  match args with
  | [.sym which, total, nb, sp, d, blocks] => do
    let total ← total.toNats?
    let nb ← nb.toNats?
    let sp ← toOptNats? sp
    let d ← d.toNat?
    let lt : Int → Int → Bool ← match which with
      | "min" => some (fun a b => decide (a < b))
      | "max" => some (fun a b => decide (a > b))
      | _ => none
    let bl ← (← blocks.toList?).mapM fun b =>
      match b with
      | .list [bs, off, data] => do pure ((← bs.toNats?), (← off.toNats?), (← data.toInts?))
      | _ => none
    let parts := bl.map fun (bs, off, data) => (argChunk lt bs off total data).toList
    match gridReduce (argCombL lt) (argAggL lt) nb sp false d (mkGrid nb parts) with
    | some [(k, some p)] => pure (.list [.sym "ok", .list [ofKey k, .list [.int p.1, .int p.2]]])
    | some [(_, none)] => pure (.list [.sym "raised"])
    | _ => pure (.list [.sym "shape"])
  | _ => none

def scanOp? : SExp → Option ((Int → Int → Int) × Int)
  | .sym "sum" => some ((· + ·), 0)
  | .sym "prod" => some ((· * ·), 1)
  | _ => none

/-- `(seqscan sum|prod (block…))` -/
def hSeqScan : Handler := handler fun args =>
  match args with
  | [op, blocks] => do
    let (f, e) ← scanOp? op
    let blocks ← blocks.toIntss?
    pure (.list [.sym "ok", .list ((seqScan f e blocks).map SExp.ofInts)])
  | _ => none

/-- `(blelloch sum|prod (block…))` -/
def hBlelloch : Handler := handler fun args =>
  match args with
  | [op, blocks] => do
    let (f, e) ← scanOp? op
    let blocks ← blocks.toIntss?
    match blelloch f e blocks with
    | some r => pure (.list [.sym "ok", .list (r.map SExp.ofInts)])
    | none => pure (.list [.sym "raised"])
  | _ => none

/-- `(blsched n)` ↦ `((level i stride)…)` -/
def hBlSched : Handler := handler fun args =>
  match args with
  | [n] => do
    let n ← n.toNat?
    pure (.list ((schedule n).map fun s => SExp.ofNats [s.level, s.i, s.stride]))
  | _ => none

/-- `(schedok n)` -/
def hSchedOk : Handler := handler fun args =>
  match args with
  | [n] => do pure (SExp.ofBool (schedOk (← n.toNat?)))
  | _ => none

/-! ### C32 -/
open Dask.Percentile in
def toRat? : SExp → Option Rat
  | .list [.int n, .int d] => if d > 0 then some (mkRat n d.toNat) else none
  | .int n => some (n : Rat)
  | _ => none

def toRats? (e : SExp) : Option (List Rat) := do (← e.toList?).mapM toRat?

def ofRat (r : Rat) : SExp := .list [.int r.num, .int r.den]

def toMethod? : SExp → Option Dask.Percentile.Method
  | .sym "linear" => some .linear | .sym "lower" => some .lower | .sym "higher" => some .higher
  | .sym "midpoint" => some .midpoint | .sym "nearest" => some .nearest | _ => none

/-- `(mergepct method (finalq…) ((q… ) (v…) N)… order)`, rationals as `(num den)` or ints;
    `order` = `stable` or the argsort permutation -/
def hMergePct : Handler := handler fun args =>
  match args with
  | [m, fq, inputs, order] => do
    let order : Option (List Nat) ← match order with
      | .sym "stable" => some none
      | e => (e.toNats?).map some
    let m ← toMethod? m
    let fq ← toRats? fq
    let ins ← (← inputs.toList?).mapM fun i =>
      match i with
      | .list [q, v, n] => do pure (Dask.Percentile.Input.mk (← toRats? q) (← toRats? v) (← n.toNat?))
      | _ => none
    match Dask.Percentile.mergePercentilesWith order m fq ins with
    | some (some r) => pure (.list [.sym "ok", .list (r.map ofRat)])
    | some none => pure (.list [.sym "raised"])
    | none => pure (.list [.sym "bad-order"])
  | _ => none

/-! ### C33 -/
def toM? : SExp → Option Dask.Masked.M
  | .sym "m" => some none
  | .int i => some (some i)
  | _ => none
def toMs? (e : SExp) : Option (List Dask.Masked.M) := do (← e.toList?).mapM toM?
def toMss? (e : SExp) : Option (List (List Dask.Masked.M)) := do (← e.toList?).mapM toMs?
def ofM : Dask.Masked.M → SExp
  | none => .sym "m"
  | some i => .int i
def ofMs (xs : List Dask.Masked.M) : SExp := .list (xs.map ofM)

/-- `(mareduce op (numblocks…) (split…) keepdims depth (block…))`, `op` = `sum|prod|min|max|count|mean`, masked element = `m` -/
def hMaReduce : Handler := handler fun args =>
  match args with
  | [.sym op, nb, sp, kd, d, blocks] => do
    let nb ← nb.toNats?
    let sp ← toOptNats? sp
    let kd ← kd.toBool?
    let d ← d.toNat?
    let blocks ← toMss? blocks
    let run {β γ : Type} (r : Dask.ArrayReduce.Red Dask.Masked.M β γ) (f : γ → SExp) : SExp :=
      ofGrid f (r.run nb sp kd d blocks)
    match op with
    | "sum" => pure (run (Dask.Masked.redMa (· + ·)) ofM)
    | "prod" => pure (run (Dask.Masked.redMa (· * ·)) ofM)
    | "min" => pure (run (Dask.Masked.redMa min) ofM)
    | "max" => pure (run (Dask.Masked.redMa max) ofM)
    | "count" => pure (run Dask.Masked.redMaCount .int)
    | "mean" => pure (run Dask.Masked.redMaMean (fun p => .list [ofM p.1, .int p.2]))
    | _ => none
  | _ => none

/-- `(mazip add|mul|sub (block…) (block…))` -/
def hMaZip : Handler := handler fun args =>
  match args with
  | [.sym op, xs, ys] => do
    let f : Int → Int → Int ← match op with
      | "add" => some (· + ·) | "mul" => some (· * ·) | "sub" => some (· - ·) | _ => none
    pure (.list ((Dask.Masked.blockZip f (← toMss? xs) (← toMss? ys)).map ofMs))
  | _ => none

/-- `(mascan sum|prod (block…))` -/
def hMaScan : Handler := handler fun args =>
  match args with
  | [op, blocks] => do
    let (f, e) ← scanOp? op
    pure (.list ((Dask.Masked.maScanBlocks f e (← toMss? blocks)).map ofMs))
  | _ => none

/-- `(mafilled v (elems…))`, `(mawhere (cond…) (elems…))` -/
def hMaFilled : Handler := handler fun args =>
  match args with
  | [v, xs] => do pure (SExp.ofInts (Dask.Masked.filled (← v.toInt?) (← toMs? xs)))
  | _ => none
def hMaWhere : Handler := handler fun args =>
  match args with
  | [c, xs] => do
    let c ← (← c.toList?).mapM SExp.toBool?
    pure (ofMs (Dask.Masked.maskedWhere c (← toMs? xs)))
  | _ => none
/-- `(mainside outside? v1 v2 (elems…))` -/
def hMaInside : Handler := handler fun args =>
  match args with
  | [o, v1, v2, xs] => do
    let o ← o.toBool?
    let f := if o then Dask.Masked.maskedOutside else Dask.Masked.maskedInside
    pure (ofMs (f (← v1.toInt?) (← v2.toInt?) (← toMs? xs)))
  | _ => none

/-! ### C22: var / std (moment_chunk / moment_combine / moment_agg at order 2, exact rationals) -/
def ofP (p : Dask.Moment.P) : SExp := .list [.int p.n, ofRat p.total, ofRat p.m2]
def toP? : SExp → Option Dask.Moment.P
  | .list [n, t, m] => do pure ⟨← n.toNat?, ← toRat? t, ← toRat? m⟩
  | _ => none
def toPs? (e : SExp) : Option (List Dask.Moment.P) := do (← e.toList?).mapM toP?

/-- `(momchunk (x…))`, `(momcombine ((n total m2)…))`, `(momagg ddof ((n total m2)…))`,
    `(vartree ddof k depth ((x…)…))` -/
def hMomChunk : Handler := handler fun args =>
  match args with
  | [xs] => do pure (ofP (Dask.Moment.momChunk (← toRats? xs)))
  | _ => none
def hMomCombine : Handler := handler fun args =>
  match args with
  | [ps] => do pure (ofP (Dask.Moment.momCombine (← toPs? ps)))
  | _ => none
def ofOptRat : Option Rat → SExp
  | none => .sym "none"
  | some r => ofRat r
def hMomAgg : Handler := handler fun args =>
  match args with
  | [d, ps] => do pure (ofOptRat (Dask.Moment.momAgg (← d.toNat?) (← toPs? ps)))
  | _ => none
def hVarTree : Handler := handler fun args =>
  match args with
  | [ddof, k, d, blocks] => do
    let blocks ← (← blocks.toList?).mapM toRats?
    match (Dask.Moment.redVar (← ddof.toNat?)).run1 (← k.toNat?) (← d.toNat?) blocks with
    | some [v] => pure (.list [.sym "ok", ofOptRat v])
    | some vs => pure (.list [.sym "shape", .int vs.length])
    | none => pure (.list [.sym "raised"])
  | _ => none

/-! ### C22 extension: var over several axes (n-d grid of moment partials), arg-reductions with axis=None on n-d arrays -/

/-- `(vargrid ddof (numblocks…) (split…) keepdims depth ((x…)…))` -/
def hVarGrid : Handler := handler fun args =>
  match args with
  | [ddof, nb, sp, kd, d, blocks] => do
    let blocks ← (← blocks.toList?).mapM toRats?
    pure (ofGrid ofOptRat ((Dask.Moment.redVar (← ddof.toNat?)).run (← nb.toNats?) (← toOptNats? sp) (← kd.toBool?)
      (← d.toNat?) blocks))
  | _ => none

def ltOf? : String → Option (Int → Int → Bool)
  | "min" => some (fun a b => decide (a < b))
  | "max" => some (fun a b => decide (a > b))
  | _ => none

/-- the array as a function of the global multi-index (values outside the data never occur: the model only asks for
    indices of the blocks) -/
def ofData (shape : List Nat) (data : List Int) : List Nat → Int := fun idx => data.getD (ravel shape idx) 0

def ofCands (ps : List (Int × Nat)) : SExp := .list (ps.map fun p => .list [.int p.1, .int p.2])

def toCands? (e : SExp) : Option (List (Int × Nat)) := do
  (← e.toList?).mapM fun c =>
    match c with
    | .list [v, i] => do pure ((← v.toInt?), (← i.toNat?))
    | _ => none

/-- `(argpartsnd min|max ((chunks of axis 0…)…) (flat data…))` ↦ per block, in the C order of the block grid,
    `((offset…) (block shape…) (block data…) part)` with `part` = `()` | `((value flatindex))` -/
def hArgPartsNd : Handler := handler fun args =>
  match args with
  | [.sym which, chunks, data] => do
    let lt ← ltOf? which
    let chunks ← chunks.toNatss?
    let data ← data.toInts?
    let f := ofData (shapeOf chunks) data
    pure (.list ((gridBlocks chunks).map fun B =>
      .list [SExp.ofNats (B.map (·.1)), SExp.ofNats (B.map (·.2)), SExp.ofInts ((blockIdx B).map f),
        ofCands (argPartNd lt (shapeOf chunks) f B)]))
  | _ => none

/-- `(argcomb min|max (((v i)…)…))` ↦ `arg_combine` of a group of partials: `()` | `((v i))` -/
def hArgComb : Handler := handler fun args =>
  match args with
  | [.sym which, parts] => do
    let lt ← ltOf? which
    let parts ← (← parts.toList?).mapM toCands?
    pure (ofCands (argCombL lt parts))
  | _ => none

/-- `(argagg min|max (((v i)…)…))` ↦ `arg_agg`: `(ok v i)` | `(raised)` -/
def hArgAgg : Handler := handler fun args =>
  match args with
  | [.sym which, parts] => do
    let lt ← ltOf? which
    let parts ← (← parts.toList?).mapM toCands?
    match argAggL lt parts with
    | some p => pure (.list [.sym "ok", .int p.1, .int p.2])
    | none => pure (.list [.sym "raised"])
  | _ => none

/-- `(argtreend min|max ((chunks…)…) (ks…) keepdims depth (flat data…))` ↦ `(ok (key…) v i)` | `(raised (key…))` | `(shape)`;
    also the specification `argBest` of the raveled data as a second element -/
def hArgTreeNd : Handler := handler fun args =>
  match args with
  | [.sym which, chunks, ks, kd, d, data] => do
    let lt ← ltOf? which
    let chunks ← chunks.toNatss?
    let data ← data.toInts?
    let f := ofData (shapeOf chunks) data
    let spec : SExp := match argBest lt (flatData chunks f) with
      | some p => .list [.sym "ok", .int p.1, .int p.2]
      | none => .list [.sym "raised"]
    let tree : SExp := match argTreeNd lt chunks (← ks.toNats?) (← kd.toBool?) (← d.toNat?) f with
      | some [(k, some p)] => .list [.sym "ok", ofKey k, .int p.1, .int p.2]
      | some [(k, none)] => .list [.sym "raised", ofKey k]
      | _ => .list [.sym "shape"]
    pure (.list [tree, spec])
  | _ => none

/-! ### C28 -/
open Dask.RandomKeys in
/-- `(rngcalls (spawnKey…) nChildren (nblocks…))` ↦ `((((key…)…)…) nChildren')` -/
def hRngCalls : Handler := handler fun args =>
  match args with
  | [key, n, nbs] => do
    let key ← key.toNats?
    let n ← n.toNat?
    let nbs ← nbs.toNats?
    let (rs, g) := runCalls ⟨0, key, n⟩ (nbs.map fun b => ⟨0, b, 0⟩)
    pure (.list [.list (rs.map fun r => SExp.ofNatss (r.1.map (·.spawnKey))), SExp.ofNat g.nChildren])
  | _ => none

open Dask.RandomKeys in
/-- `(rscalls pos (nblocks…))` ↦ window indices per call -/
def hRsCalls : Handler := handler fun args =>
  match args with
  | [pos, nbs] => do
    let pos ← pos.toNat?
    let nbs ← nbs.toNats?
    let (rs, s) := runCallsRS ⟨0, pos⟩ (nbs.map fun b => ⟨0, b, 0⟩)
    pure (.list [SExp.ofNatss (rs.map fun r => r.map (·.2)), SExp.ofNat s.pos])
  | _ => none

open Dask.RandomKeys in
/-- `(rnghist (spawnKey…) nChildren draws (op…))`, `op` = `(func nblocks params)` | `perm` ↦
    `((out…) (nameclass…) nChildren' draws')`, `out` = `((key…)…)` for an array, `(perm pos)` for a permutation;
    `nameclass` = for every array the index (among the arrays) of the first one with the same name -/
def hRngHist : Handler := handler fun args =>
  match args with
  | [key, n, d, ops] => do
    let key ← key.toNats?
    let n ← n.toNat?
    let d ← d.toNat?
    let ops ← (← ops.toList?).mapM fun o =>
      match o with
      | .sym "perm" => some Op.perm
      | .list [f, b, p] => do pure (Op.call ⟨← f.toNat?, ← b.toNat?, ← p.toNat?⟩)
      | _ => none
    let (outs, g) := runHist ⟨⟨0, key, n⟩, d⟩ ops
    let enc := outs.map fun o =>
      match o with
      | .arr seeds _ => SExp.ofNatss (seeds.map (·.spawnKey))
      | .perm p => .list [.sym "perm", SExp.ofNat p]
    pure (.list [.list enc, SExp.ofNats (firstIndex (histNames outs)), SExp.ofNat g.ss.nChildren, SExp.ofNat g.draws])
  | _ => none

open Dask.RandomKeys in
/-- `(rshist pos ((func nblocks params)…))` ↦ `((windows…) (nameclass…) pos')` -/
def hRsHist : Handler := handler fun args =>
  match args with
  | [pos, cs] => do
    let pos ← pos.toNat?
    let cs ← (← cs.toList?).mapM fun o =>
      match o with
      | .list [f, b, p] => do pure (Call.mk (← f.toNat?) (← b.toNat?) (← p.toNat?))
      | _ => none
    let (rs, s) := histRS ⟨0, pos⟩ cs
    pure (.list [SExp.ofNatss (rs.map fun r => r.1.map (·.2)), SExp.ofNats (firstIndex (rs.map (·.2))), SExp.ofNat s.pos])
  | _ => none

/-- `(choiceguard replace nchunks)` ↦ `(ok n)` | `(raised)` -/
def hChoiceGuard : Handler := handler fun args =>
  match args with
  | [r, n] => do
    match Dask.RandomKeys.choiceGuard (← r.toBool?) (← n.toNat?) with
    | some m => pure (.list [.sym "ok", SExp.ofNat m])
    | none => pure (.list [.sym "raised"])
  | _ => none

/-- `(choicend replace (nchunks per axis))` ↦ `(ok (ns) nblocks)` | `(raised)` -/
def hChoiceND : Handler := handler fun args =>
  match args with
  | [r, ns] => do
    let ns ← ns.toNats?
    match Dask.ChoiceND.guardND (← r.toBool?) ns with
    | some ms => pure (.list [.sym "ok", SExp.ofNats ms, SExp.ofNat (Dask.ChoiceND.nblocks ms)])
    | none => pure (.list [.sym "raised"])
  | _ => none

/-! ### C31 -/
open Dask.Contraction in
/-- `(contract (cs…) (a…) (b…))` ↦ `((terms…) total full)`: per-block partial dots, their sum, the unblocked dot -/
def hContract : Handler := handler fun args =>
  match args with
  | [cs, a, b] => do
    let cs ← cs.toNats?
    let a ← a.toInts?
    let b ← b.toInts?
    let f := fun l => a.getD l 0 * b.getD l 0
    let terms := dotBlocks a b cs
    pure (.list [SExp.ofInts terms, .int (lsum terms), .int (sumTo (cs.foldl (· + ·) 0) f)])
  | _ => none

open Dask.Contraction in
/-- `(blocksumover ((chunks of contracted index 0…)…) (T…))`: `T` = the products over the contracted index space in C order;
    ↦ `(blockSumOver, sumOver)` -/
def hBlockSumOver : Handler := handler fun args =>
  match args with
  | [css, t] => do
    let css ← css.toNatss?
    let t ← t.toInts?
    let dims := css.map fun cs => cs.foldl (· + ·) 0
    let f := fun (ix : List Nat) => t.getD (Dask.ArrayReduce.ravel dims ix) 0
    pure (.list [.int (blockSumOver css f), .int (sumOver dims f)])
  | _ => none

open Dask.Contraction in
/-- `(stackgroups (chunks…) cc crmax)` ↦ `(((idx m_r)…)…)` -/
def hStackGroups : Handler := handler fun args =>
  match args with
  | [chunks, cc, crmax] => do
    let g := stackGroups (← chunks.toNats?) (← cc.toNat?) (← crmax.toNat?)
    pure (.list (g.map fun grp => .list (grp.map fun (i, m) => SExp.ofNats [i, m])))
  | _ => none

open Dask.Contraction in
/-- `(cumsumblocks (xs…))` ↦ `((start stop)…)` -/
def hCumsumBlocks : Handler := handler fun args =>
  match args with
  | [xs] => do pure (.list ((cumsumBlocks 0 (← xs.toNats?)).map fun (a, b) => SExp.ofNats [a, b]))
  | _ => none

/-! ### C30 -/
open Dask.ArrayExpr in
def toBinOp? : String → Option BinOp
  | "add" => some .add | "sub" => some .sub | "mul" => some .mul | "max" => some .max | _ => none

open Dask.ArrayExpr in
partial def toAE? : SExp → Option AE
  | .list [.sym "leaf", d, c] => do pure (.leaf (← d.toInts?) (← c.toNats?))
  | .list [.sym "un", .sym op, a] => do
    let op ← match op with | "neg" => some UnOp.neg | "abs" => some UnOp.abs | "square" => some UnOp.square | _ => none
    pure (.un op (← toAE? a))
  | .list [.sym "bin", .sym op, a, b] => do pure (.bin (← toBinOp? op) (← toAE? a) (← toAE? b))
  | .list [.sym "bins", .sym op, a, .int sc] => do pure (.binS (← toBinOp? op) (← toAE? a) sc)
  | .list [.sym "slice", s, e, a] => do pure (.slice (← s.toNat?) (← e.toNat?) (← toAE? a))
  | .list [.sym "rechunk", c, a] => do pure (.rechunk (← c.toNats?) (← toAE? a))
  | .list [.sym "concat", a, b] => do pure (.concat (← toAE? a) (← toAE? b))
  | .list [.sym "finalize", a] => do pure (.finalize (← toAE? a))
  | _ => none

open Dask.ArrayExpr in
/-- chunks of every node, preorder -/
def nodeChunks : AE → List (List Nat)
  | e@(.leaf _ _) => [chunks e]
  | e@(.un _ a) => chunks e :: nodeChunks a
  | e@(.bin _ a b) => chunks e :: (nodeChunks a ++ nodeChunks b)
  | e@(.binS _ a _) => chunks e :: nodeChunks a
  | e@(.slice _ _ a) => chunks e :: nodeChunks a
  | e@(.rechunk _ a) => chunks e :: nodeChunks a
  | e@(.concat a b) => chunks e :: (nodeChunks a ++ nodeChunks b)
  | e@(.finalize a) => chunks e :: nodeChunks a

/-- `(aeeval ast)` ↦ `(ok (values…) ((chunks…)…))` | `(invalid ((chunks…)…))` -/
def hAeEval : Handler := handler fun args =>
  match args with
  | [e] => do
    let e ← toAE? e
    match Dask.ArrayExpr.den e with
    | some xs => pure (.list [.sym "ok", SExp.ofInts xs, SExp.ofNatss (nodeChunks e)])
    | none => pure (.list [.sym "invalid", SExp.ofNatss (nodeChunks e)])
  | _ => none

/-- `(aestep before after)` ↦ did one optimizer pass legally turn `before` into `after`? -/
def hAeStep : Handler := handler fun args =>
  match args with
  | [a, b] => do pure (SExp.ofBool (Dask.ArrayExpr.parStep (← toAE? a) (← toAE? b)))
  | _ => none

end ReduceDriver

def table : List (String × Handler) := [
  ("plan", ReduceDriver.hPlan), ("treedepth", ReduceDriver.hTreeDepth), ("treduce", ReduceDriver.hTreduce), ("argreduce", ReduceDriver.hArg),
  ("seqscan", ReduceDriver.hSeqScan), ("blelloch", ReduceDriver.hBlelloch),
  ("blsched", ReduceDriver.hBlSched), ("schedok", ReduceDriver.hSchedOk),
  ("mergepct", ReduceDriver.hMergePct),
  ("momchunk", ReduceDriver.hMomChunk), ("momcombine", ReduceDriver.hMomCombine), ("momagg", ReduceDriver.hMomAgg),
  ("vartree", ReduceDriver.hVarTree), ("vargrid", ReduceDriver.hVarGrid),
  ("argpartsnd", ReduceDriver.hArgPartsNd), ("argcomb", ReduceDriver.hArgComb), ("argagg", ReduceDriver.hArgAgg), ("argtreend", ReduceDriver.hArgTreeNd),
  ("mareduce", ReduceDriver.hMaReduce), ("mazip", ReduceDriver.hMaZip), ("mascan", ReduceDriver.hMaScan),
  ("mafilled", ReduceDriver.hMaFilled), ("mawhere", ReduceDriver.hMaWhere), ("mainside", ReduceDriver.hMaInside),
  ("rngcalls", ReduceDriver.hRngCalls), ("rscalls", ReduceDriver.hRsCalls), ("choiceguard", ReduceDriver.hChoiceGuard), ("choicend", ReduceDriver.hChoiceND),
  ("rnghist", ReduceDriver.hRngHist), ("rshist", ReduceDriver.hRsHist),
  ("contract", ReduceDriver.hContract), ("blocksumover", ReduceDriver.hBlockSumOver), ("stackgroups", ReduceDriver.hStackGroups), ("cumsumblocks", ReduceDriver.hCumsumBlocks),
  ("aeeval", ReduceDriver.hAeEval), ("aestep", ReduceDriver.hAeStep)]
  ++ Dask.TsqrPlanIO.handlers ++ Dask.ArrayExprNdIO.handlers
  ++ Dask.MaskedRedIO.handlers
  ++ Dask.ChunkPercentileIO.handlers

def main : IO Unit := runDriver table
