import DaskModel.DriverLib
import DaskModel.Model.Config
import DaskModel.Model.ConfigAlias
import DaskModel.Generated.ConfigTables
import DaskModel.Model.LockReg
import DaskModel.Model.Match
import DaskModel.Model.Bytes
import DaskModel.Model.KeySplit
import DaskModel.Model.FormatTime
import DaskModel.Model.ParseUnder
import DaskModel.Model.ConfigExtIO
open Dask

/-! ## C17 — config store

Wire format: a config value is an integer (leaf code) or a list of `("key" value)` pairs (mapping). -/
namespace C17
open Dask.Config

partial def toCfg? : SExp → Option Cfg
  | .int i => some (.leaf i)
  | .list items => do
    let kvs ← items.mapM fun it =>
      match it with
      | .list [k, v] => do pure ((← k.toStr?), (← toCfg? v))
      | _ => none
    pure (.node kvs)
  | _ => none

def toDict? (e : SExp) : Option Dict := do
  match ← toCfg? e with
  | .node d => some d
  | .leaf _ => none

partial def ofCfg : Cfg → SExp
  | .leaf i => .int i
  | .node d => .list (d.map fun kv => .list [.str kv.1, ofCfg kv.2])

def ofDict (d : Dict) : SExp := ofCfg (.node d)

def ofPath (p : List String) : SExp := .list (p.map .str)

def ofOp : Op → SExp
  | .replace p old => .list [.sym "replace", ofPath p, ofCfg old]
  | .insert p => .list [.sym "insert", ofPath p]

def toOp? : SExp → Option Op
  | .list [.sym "replace", p, old] => do
    pure (.replace (← (← p.toList?).mapM SExp.toStr?) (← toCfg? old))
  | .list [.sym "insert", p] => do pure (.insert (← (← p.toList?).mapM SExp.toStr?))
  | _ => none

/-- items `("key" value kw?)` of one `set(arg, **kwargs)` call, already in call order -/
def toItems? (e : SExp) : Option (List (Option (List String × Cfg))) := do
  (← e.toList?).mapM fun it =>
    match it with
    | .list [k, v, kw] => do
      pure (prepOp Dask.Generated.ConfigTables.deprecations (← kw.toBool?) (← k.toStr?) (← toCfg? v))
    | _ => none

def ofSetResult : SetResult → SExp
  | .ok d r => .list [.sym "ok", ofDict d, .list (r.map ofOp)]
  | .raised d => .list [.sym "raised", ofDict d]
  | .brokenRollback => .list [.sym "broken"]

/-- `(cfg-set items cfg)` -/
def hSet : Handler := handler fun args =>
  match args with
  | [items, cfg] => do pure (ofSetResult (setInit (← toItems? items) (← toDict? cfg)))
  | _ => none

/-- `(cfg-set-norollback items cfg)`: the code before the repair (used by the search to explain a regression) -/
def hSetNoRollback : Handler := handler fun args =>
  match args with
  | [items, cfg] => do pure (ofSetResult (setInitNoRollback (← toItems? items) (← toDict? cfg)))
  | _ => none

/-- `(cfg-exit record cfg)` -/
def hExit : Handler := handler fun args =>
  match args with
  | [record, cfg] => do
    let r ← (← record.toList?).mapM toOp?
    match rollback r (← toDict? cfg) with
    | some d => pure (.list [.sym "ok", ofDict d])
    | none => pure (.list [.sym "raised"])
  | _ => none

def ofGet : GetResult → SExp
  | .ok v => .list [.sym "ok", ofCfg v]
  | .keyError => .list [.sym "KeyError"]
  | .typeError => .list [.sym "TypeError"]

/-- `(cfg-get "a.b" cfg)` -/
def hGet : Handler := handler fun args =>
  match args with
  | [k, cfg] => do pure (ofGet (get (← k.toStr?) (← toDict? cfg)))
  | _ => none

/-- `(cfg-canon "k" cfg)` -/
def hCanon : Handler := handler fun args =>
  match args with
  | [k, cfg] => do pure (.str (canonicalName (← k.toStr?) (← toDict? cfg)))
  | _ => none

def toPrio? : SExp → Option Priority
  | .sym "new" => some .new
  | .sym "old" => some .old
  | .sym "new-defaults" => some .newDefaults
  | _ => none

/-- `(cfg-update prio old new defaults|none)` -/
def hUpdate : Handler := handler fun args =>
  match args with
  | [p, old, new, dflt] => do
    let dd ← match dflt with
      | .sym "none" => some none
      | e => (toCfg? e).map some
    match update (← toPrio? p) (← toDict? old) (← toDict? new) dd with
    | some d => pure (.list [.sym "ok", ofDict d])
    | none => pure (.list [.sym "raised"])
  | _ => none

/-- `(cfg-merge (d1 d2 …))` -/
def hMerge : Handler := handler fun args =>
  match args with
  | [ds] => do
    match merge (← (← ds.toList?).mapM toDict?) with
    | some d => pure (.list [.sym "ok", ofDict d])
    | none => pure (.list [.sym "raised"])
  | _ => none

/-- `(cfg-env inherit (("NAME" value) …))` -/
def hEnv : Handler := handler fun args =>
  match args with
  | [inh, env] => do
    let e ← (← env.toList?).mapM fun it =>
      match it with
      | .list [k, v] => do pure ((← k.toStr?), (← toCfg? v))
      | _ => none
    pure (ofSetResult (collectEnv (← toDict? inh) e))
  | _ => none

partial def toProg? : SExp → Option Prog
  | .list [.sym "skip"] => some .skip
  | .list [.sym "seq", a, b] => do pure (.seq (← toProg? a) (← toProg? b))
  | .list [.sym "with", items, body] => do pure (.withSet (← toItems? items) (← toProg? body))
  | _ => none

/-- `(cfg-prog prog cfg)` ↦ `(normal|exc|stuck cfg (trace…))` -/
def hProg : Handler := handler fun args =>
  match args with
  | [p, cfg] => do
    let (o, t) := exec (← toProg? p) (← toDict? cfg)
    let tr := SExp.list (t.map ofDict)
    match o with
    | .normal d => pure (.list [.sym "normal", ofDict d, tr])
    | .exc d => pure (.list [.sym "exc", ofDict d, tr])
    | .stuck => pure (.list [.sym "stuck", .list [], tr])
  | _ => none

/-! ### identities of dict objects (`Model/ConfigAlias.lean`)

Wire format: a leaf is an integer, a dict object is `(n id (("key" value)…))`. -/
open Dask.ConfigAlias

partial def toH? : SExp → Option HCfg
  | .int i => some (.leaf i)
  | .list [.sym "n", i, .list items] => do
    let kvs ← items.mapM fun it =>
      match it with
      | .list [k, v] => do pure ((← k.toStr?), (← toH? v))
      | _ => none
    pure (.node (← i.toNat?) kvs)
  | _ => none

partial def ofH : HCfg → SExp
  | .leaf i => .int i
  | .node i d => .list [.sym "n", SExp.ofNat i, .list (d.map fun kv => .list [.str kv.1, ofH kv.2])]

def updOf (share : Bool) : Upd :=
  if share then hupdateShare else hupdate

def toDflt? : SExp → Option (Option Cfg)
  | .sym "none" => some none
  | e => (toCfg? e).map some

/-- `(cfg-hupdate share? prio old new defaults|none nx)` ↦ `(ok old' nx')` | `(raised)`; `old`, `new` are dict objects -/
def hHUpdate : Handler := handler fun args =>
  match args with
  | [sh, p, old, new, dflt, nx] => do
    let o ← toH? old
    match updOf (← sh.toBool?) (← toPrio? p) (entriesOf (← toH? new)) (entriesOf o) (← toDflt? dflt) (← nx.toNat?) with
    | some r => pure (.list [.sym "ok", ofH (.node (idOf o) r.1), SExp.ofNat r.2])
    | none => pure (.list [.sym "raised"])
  | _ => none

/-- `(cfg-hmerge (d1 d2 …) nx)` ↦ `(ok result nx')` -/
def hHMerge : Handler := handler fun args =>
  match args with
  | [ds, nx] => do
    let ds ← (← ds.toList?).mapM toH?
    match hmerge (ds.map entriesOf) (← nx.toNat?) with
    | some r => pure (.list [.sym "ok", ofH r.1, SExp.ofNat r.2])
    | none => pure (.list [.sym "raised"])
  | _ => none

def toHOp? : SExp → Option HOp
  | .list [.sym "merge", srcs] => do pure (.merge (← srcs.toNats?))
  | .list [.sym "update", p, dst, src, dflt] => do
    let dd ← match dflt with
      | .sym "none" => some none
      | e => e.toNat?.map some
    pure (.update (← toPrio? p) (← dst.toNat?) (← src.toNat?) dd)
  | .list [.sym "set", dst, key, c] => do pure (.setLeaf (← dst.toNat?) (splitKey (← key.toStr?)) (← c.toInt?))
  | .list [.sym "updefaults", new, cfg] => do pure (.updateDefaults (← new.toNat?) (← cfg.toNat?))
  | .list [.sym "refresh", cfg] => do pure (.refresh (← cfg.toNat?))
  | _ => none

/-- states after each operation, until the first one that raises -/
def histStates (share : Bool) : HStore → VStore → List HOp → List SExp
  | _, _, [] => []
  | s, v, op :: ops =>
    match hstep (updOf share) s op with
    | none => [.list [.sym "raised", SExp.ofBool (vstep v op).isNone]]
    | some s' =>
      match vstep v op with
      | some v' =>
        -- `erase-agrees`: the identity-carrying run, identities forgotten, is the value-level run
        let agrees := ((s'.vars.map fun w => ofDict (eraseL (entriesOf w))) == v'.vars.map ofDict) && s'.defaults == v'.defaults
        .list [.sym "ok", .list (s'.vars.map ofH), SExp.ofNats s'.defaults, SExp.ofNat s'.nx, SExp.ofBool agrees]
          :: histStates share s' v' ops
      | none => [.list [.sym "value-model-raised"]]

/-- `(cfg-hist share? (vars…) nx (ops…))` ↦ `((ok (vars…) (defaults…) nx erase-agrees) … [(raised value-too)])` -/
def hHist : Handler := handler fun args =>
  match args with
  | [sh, vars, nx, ops] => do
    let vs ← (← vars.toList?).mapM toH?
    let ops ← (← ops.toList?).mapM toHOp?
    let s : HStore := { vars := vs, defaults := [], nx := ← nx.toNat? }
    let v : VStore := { vars := vs.map fun w => eraseL (entriesOf w), defaults := [] }
    pure (.list (histStates (← sh.toBool?) s v ops))
  | _ => none

/-- `(cfg-depr (("old-key" "new-key"|none)…) "key")` ↦ `(ok "key'")` | `(removed)`: `check_deprecations(key, deprecations=…)` -/
def hDepr : Handler := handler fun args =>
  match args with
  | [tbl, k] => do
    let rows ← (← tbl.toList?).mapM fun it =>
      match it with
      | .list [a, .sym "none"] => do pure ((← a.toStr?), (none : Option String))
      | .list [a, b] => do pure ((← a.toStr?), some (← b.toStr?))
      | _ => none
    match checkDeprecations rows (← k.toStr?) with
    | some k' => pure (.list [.sym "ok", .str k'])
    | none => pure (.list [.sym "removed"])
  | _ => none

def table : List (String × Handler) :=
  [("cfg-depr", hDepr), ("cfg-set", hSet), ("cfg-set-norollback", hSetNoRollback), ("cfg-exit", hExit), ("cfg-get", hGet),
   ("cfg-canon", hCanon), ("cfg-update", hUpdate), ("cfg-merge", hMerge), ("cfg-env", hEnv), ("cfg-prog", hProg),
   ("cfg-hupdate", hHUpdate), ("cfg-hmerge", hHMerge), ("cfg-hist", hHist)]
end C17

/-! ## C53 — SerializableLock registry -/
namespace C53
open Dask.LockReg

def toToken? : SExp → Option Token
  | .list [.sym "e", n] => do pure (.explicit (← n.toNat?))
  | .list [.sym "u", n] => do pure (.uuid (← n.toNat?))
  | _ => none

def toEvent? : SExp → Option Event
  | .list [.sym "new", .sym "none"] => some (.new none)
  | .list [.sym "new", n] => do pure (.new (some (← n.toNat?)))
  | .list [.sym "load", t] => do pure (.load (← toToken? t))
  | .list [.sym "copy", o] => do pure (.copyOf (← o.toNat?))
  | .list [.sym "drop", o] => do pure (.drop (← o.toNat?))
  | .list [.sym "gc", t] => do pure (.gc (← toToken? t))
  | .list [.sym "acquire", o] => do pure (.acquire (← o.toNat?))
  | .list [.sym "release", o] => do pure (.release (← o.toNat?))
  | _ => none

/-- `(lock-run (events…) (tokens…))` with CPython timing (`stepEager`) ↦
    `(((id lock)…live objects, oldest first) (outcome of every acquire event…) (token still registered?…))` -/
def hRun : Handler := handler fun args =>
  match args with
  | [evs, toks] => do
    let evs ← (← evs.toList?).mapM toEvent?
    let toks ← (← toks.toList?).mapM toToken?
    let (s, outs) := evs.foldl (fun (acc : State × List Bool) e =>
      let outs := match e with
        | .acquire o => acc.2 ++ [(canAcquire acc.1 o).getD false]
        | _ => acc.2
      (stepEager acc.1 e, outs)) (init, [])
    pure (.list [.list (s.objs.reverse.map fun x => .list [SExp.ofNat x.id, SExp.ofNat x.lock]),
                 .list (outs.map SExp.ofBool),
                 .list (toks.map fun t => SExp.ofBool (s.reg t).isSome),
                 SExp.ofNats s.held])
  | _ => none

def table : List (String × Handler) := [("lock-run", hRun)]
end C53

/-! ## C51 — rewrite matching

Wire format: `(c n)` data atom, `(f n)` bare callable atom, `(app n (args…))` task, `(lst (items…))` list;
rule = `(lhs rhs (vars…))`; edge = a symbol or `var`. -/
namespace C51
open Dask.Match

def toSym? : SExp → Option Sym
  | .list [.sym "c", n] => do pure (.const (← n.toNat?))
  | .list [.sym "f", n] => do pure (.fn (← n.toNat?))
  | _ => none

partial def toTerm? : SExp → Option Term
  | .list [.sym "app", n, .list as] => do pure (.app (← n.toNat?) (← as.mapM toTerm?))
  | .list [.sym "lst", .list as] => do pure (.lst (← as.mapM toTerm?))
  | e => (toSym? e).map Term.atom

def ofSym : Sym → SExp
  | .const n => .list [.sym "c", SExp.ofNat n]
  | .fn n => .list [.sym "f", SExp.ofNat n]

partial def ofTerm : Term → SExp
  | .atom s => ofSym s
  | .app f as => .list [.sym "app", SExp.ofNat f, .list (as.map ofTerm)]
  | .lst as => .list [.sym "lst", .list (as.map ofTerm)]

def toRule? : SExp → Option Rule
  | .list [l, r, .list vs] => do pure ⟨← toTerm? l, ← toTerm? r, ← vs.mapM toSym?⟩
  | _ => none

def toRules? (e : SExp) : Option (List Rule) := do (← e.toList?).mapM toRule?

def ofEdge : Edge → SExp
  | .sym s => ofSym s
  | .var => .sym "var"

def ofYields (ys : List Yield) : SExp :=
  .list (ys.map fun y => .list [SExp.ofNats y.1, .list (y.2.map ofTerm)])

def ofSubst (σ : Subst) : SExp := .list (σ.map fun kv => .list [ofSym kv.1, ofTerm kv.2])

/-- `(rw-flatten term)` ↦ `list(Traverser(term))`, through the traverser loop -/
def hFlatten : Handler := handler fun args =>
  match args with
  | [t] => do
    let t ← toTerm? t
    match preorder (t.size + 2) [t] with
    | some ss => pure (.list (ss.map ofSym))
    | none => pure (.list [.sym "out-of-fuel"])
  | _ => none

/-- `(rw-rule rule)` ↦ `(varlist path)` -/
def hRule : Handler := handler fun args =>
  match args with
  | [r] => do
    let r ← toRule? r
    pure (.list [.list (r.varlist.map ofSym), .list (r.path.map ofEdge)])
  | _ => none

/-- `(rw-match rules term)` ↦ the yields of `_match` -/
def hMatch : Handler := handler fun args =>
  match args with
  | [rs, t] => do
    let N := Net.ofRules (← toRules? rs)
    match matchLoop (fuelFor N) [← toTerm? t] N [] [] false with
    | some ys => pure (.list [.sym "ok", ofYields ys])
    | none => pure (.list [.sym "out-of-fuel"])
  | _ => none

/-- `(rw-match-old rules term)`: the loop before the fix -/
def hMatchOld : Handler := handler fun args =>
  match args with
  | [rs, t] => do
    let N := Net.ofRules (← toRules? rs)
    match matchLoopOld (fuelFor N) [← toTerm? t] N [] [] false with
    | .done ys => pure (.list [.sym "ok", ofYields ys])
    | .indexError ys => pure (.list [.sym "IndexError", ofYields ys])
    | .outOfFuel => pure (.list [.sym "out-of-fuel"])
  | _ => none

/-- `(rw-iter rules term)` ↦ `((i ((var term)…))…)` -/
def hIter : Handler := handler fun args =>
  match args with
  | [rs, t] => do
    match iterMatches (← toRules? rs) (← toTerm? t) with
    | some ms => pure (.list [.sym "ok", .list (ms.map fun m => .list [SExp.ofNat m.1, ofSubst m.2])])
    | none => pure (.list [.sym "out-of-fuel"])
  | _ => none

/-- `(rw-rewrite rules term strategy|none)` ↦ `(ok term)` | `(KeyError)` | `(out-of-fuel)`; `none` = argument omitted -/
def hRewrite : Handler := handler fun args =>
  match args with
  | [rs, t, strat] => do
    let rules ← toRules? rs
    let t ← toTerm? t
    let st ← match strat with
      | .sym "none" => some none
      | e => e.toStr?.map some
    match rewrite rules t st with
    | .ok t' => pure (.list [.sym "ok", ofTerm t'])
    | .keyError => pure (.list [.sym "KeyError"])
    | .outOfFuel => pure (.list [.sym "out-of-fuel"])
  | _ => none

/-- `(rw-process (varlist…) (syms…))` -/
def hProcess : Handler := handler fun args =>
  match args with
  | [.list vs, .list ss] => do
    match processMatch (← vs.mapM toSym?) (← ss.mapM toTerm?) with
    | none => pure (.list [.sym "RuntimeError"])
    | some none => pure (.list [.sym "none"])
    | some (some σ) => pure (.list [.sym "ok", ofSubst σ])
  | _ => none

def table : List (String × Handler) :=
  [("rw-flatten", hFlatten), ("rw-rule", hRule), ("rw-match", hMatch), ("rw-match-old", hMatchOld),
   ("rw-iter", hIter), ("rw-rewrite", hRewrite), ("rw-process", hProcess)]
end C51

/-! ## C18 — byte / duration helpers -/
namespace C18
open Dask.Bytes

/-- `(fmt-bytes n)` ↦ `"…"` -/
def hFmt : Handler := handler fun args =>
  match args with
  | [n] => do pure (.str (formatBytes (← n.toInt?)))
  | _ => none

/-- `(fmt-band n)` ↦ `(prefix k cents)` | `none`: which band, and the integer whose digits are printed -/
def hBand : Handler := handler fun args =>
  match args with
  | [n] => do
    let n ← n.toNat?
    match bandOf n with
    | some (pre, k) => pure (.list [.str pre, SExp.ofNat k, SExp.ofNat (cents n k)])
    | none => pure (.sym "none")
  | _ => none

/-- `(parse-bytes "s")` -/
def hParse : Handler := handler fun args =>
  match args with
  | [s] => do
    match parseBytes (← s.toStr?) with
    | .ok v => pure (.list [.sym "ok", .int v])
    | .badNumber => pure (.list [.sym "bad-number"])
    | .badUnit => pure (.list [.sym "bad-unit"])
  | _ => none

/-- `(parse-bytes-u "s")`: `parse_bytes` with PEP-515 digit separators in the number (`Model/ParseUnder.lean`) -/
def hParseU : Handler := handler fun args =>
  match args with
  | [s] => do
    match parseBytesU (← s.toStr?) with
    | .ok v => pure (.list [.sym "ok", .int v])
    | .badNumber => pure (.list [.sym "bad-number"])
    | .badUnit => pure (.list [.sym "bad-unit"])
  | _ => none

/-- `(parse-td "s" "default")` ↦ `(int v)` | `(float neg m e)` | `(IndexError)` | `(ValueError)` | `(KeyError)` -/
def hParseTd : Handler := handler fun args =>
  match args with
  | [s, d] => do
    match parseTimedelta (← s.toStr?) (← d.toStr?) with
    | .int v => pure (.list [.sym "int", .int v])
    | .float neg m e => pure (.list [.sym "float", SExp.ofBool neg, SExp.ofNat m, .int e])
    | .indexError => pure (.list [.sym "IndexError"])
    | .valueError => pure (.list [.sym "ValueError"])
    | .keyError => pure (.list [.sym "KeyError"])
  | _ => none

/-- `(nat-sort "s")` ↦ parts: strings and integers -/
def hNatSort : Handler := handler fun args =>
  match args with
  | [s] => do
    pure (.list ((naturalSortKey (← s.toStr?)).map fun p =>
      match p with
      | .text t => .str (String.ofList t)
      | .num n => SExp.ofNat n))
  | _ => none

/-- `(float-lit "s")` ↦ `(m e)` of `float(s)` (magnitude) | `none` -/
def hLit : Handler := handler fun args =>
  match args with
  | [s] => do
    match parseLit (← s.toStr?).toList with
    | some l => pure (.list [SExp.ofBool l.neg, SExp.ofNat l.toDy.m, .int l.toDy.e])
    | none => pure (.sym "none")
  | _ => none

/-- `(key-split "s")` -/
def hKeySplit : Handler := handler fun args =>
  match args with
  | [s] => do pure (.str (Dask.KeySplit.keySplit (← s.toStr?)))
  | _ => none

/-- `(quot-general n k)` ↦ the cents computed through the general correctly rounded quotient (validates `divR`) -/
def hQuotGeneral : Handler := handler fun args =>
  match args with
  | [n, k] => do
    let n ← n.toNat?
    let k ← k.toNat?
    pure (.list [SExp.ofNat (centsOf Dask.Generated.ByteTables.formatDecimals (ratToDy n k)), SExp.ofNat (cents n k)])
  | _ => none

/-- `(fmt-time m e)` ↦ `format_time(m · 2^e)` -/
def hFmtTime : Handler := handler fun args =>
  match args with
  | [m, e] => do pure (.str (formatTime ⟨← m.toNat?, ← e.toInt?⟩))
  | _ => none

/-- `(typename module|none "name" short)` -/
def hTypename : Handler := handler fun args =>
  match args with
  | [m, n, sh] => do
    let md ← match m with
      | .sym "none" => some none
      | e => e.toStr?.map some
    pure (.str (Dask.KeySplit.typenameOf md (← n.toStr?) (← sh.toBool?)))
  | _ => none

def table : List (String × Handler) :=
  [("fmt-bytes", hFmt), ("fmt-band", hBand), ("parse-bytes", hParse), ("parse-bytes-u", hParseU), ("parse-td", hParseTd), ("nat-sort", hNatSort),
   ("float-lit", hLit), ("key-split", hKeySplit), ("quot-general", hQuotGeneral), ("fmt-time", hFmtTime),
   ("typename", hTypename)]
end C18

def table : List (String × Handler) := C17.table ++ C53.table ++ C51.table ++ C18.table ++ Dask.ConfigExt.handlers

def main : IO Unit := runDriver table
