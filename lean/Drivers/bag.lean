import DaskModel.DriverLib
open Dask

def table : List (String × Handler) := []

def main : IO Unit := runDriver table
