import DaskModel.DriverLib
import DaskModel.Model.TextBlocks
import DaskModel.Model.BagReduce
import DaskModel.Model.BagSample
import DaskModel.Model.BagOps
import DaskModel.Model.BagShuffle
import DaskModel.Model.BagLazify
open Dask

namespace BagDriver
open Dask.TextBlocks

def raised : SExp := .list [.sym "raised"]
def okNatss (r : Option (List (List Nat))) : SExp :=
  match r with
  | some xs => .list [.sym "ok", SExp.ofNatss xs]
  | none => raised

def toOptNat? : SExp → Option (Option Nat)
  | .sym "none" => some none
  | .int i => if i ≥ 0 then some (some i.toNat) else none
  | _ => none

/-! ### C50 -/

/-- `(plan size blocksize)` ↦ `(ok (offsets…) (lengths…))` | `(raised)` -/
def hPlan : Handler := handler fun args =>
  match args with
  | [size, bs] => do
    let size ← size.toNat?
    let bs ← bs.toNat?
    match plan ieee size bs with
    | some (o, l) => pure (.list [.sym "ok", SExp.ofNats o, SExp.ofNats l])
    | none => pure raised
  | _ => none

/-- `(round53 p q)` ↦ nat -/
def hRound53 : Handler := handler fun args =>
  match args with
  | [p, q] => do
    let p ← p.toNat?
    let q ← q.toNat?
    if q = 0 then none else pure (SExp.ofNat (round53 p q))
  | _ => none

def pairOut (r : Nat × Bool) : SExp := .list [SExp.ofNat r.1, SExp.ofBool r.2]

/-- `(seek bsz (d…) (data…) pos)` ↦ `(pos found)` (chunked transliteration) -/
def hSeek : Handler := handler fun args =>
  match args with
  | [bsz, d, data, pos] => do
    pure (pairOut (seekChunked (← bsz.toNat?) (← d.toNats?) (← data.toNats?) (← pos.toNat?)))
  | _ => none

def hSeekSimple : Handler := handler fun args =>
  match args with
  | [d, data, pos] => do
    pure (pairOut (seekSimple (← d.toNats?) (← data.toNats?) (← pos.toNat?)))
  | _ => none

/-- `(readblock (d…) (data…) off len|none)` ↦ bytes -/
def hReadBlock : Handler := handler fun args =>
  match args with
  | [d, data, off, len] => do
    pure (SExp.ofNats (readBlock (← data.toNats?) (← d.toNats?) (← off.toNat?) (← toOptNat? len)))
  | _ => none

def hReadBlockChunked : Handler := handler fun args =>
  match args with
  | [bsz, d, data, off, len] => do
    pure (SExp.ofNats (readBlockChunked (← bsz.toNat?) (← data.toNats?) (← d.toNats?) (← off.toNat?) (← toOptNat? len)))
  | _ => none

/-- `(fileblocks (d…) (data…) bs|none)` ↦ `(ok (block…)…)` | `(raised)` -/
def hFileBlocks : Handler := handler fun args =>
  match args with
  | [d, data, bs] => do
    pure (okNatss (fileBlocks ieee (← data.toNats?) (← d.toNats?) (← toOptNat? bs)))
  | _ => none

def two (f : List Nat → List Nat → Option (List (List Nat))) : Handler := handler fun args =>
  match args with
  | [d, t] => do pure (okNatss (f (← d.toNats?) (← t.toNats?)))
  | _ => none

def hUniv : Handler := handler fun args =>
  match args with
  | [t] => do pure (okNatss (univLines (← t.toNats?)))
  | _ => none

/-- `(readtext (d…) (data…) bs|none)` -/
def hReadText : Handler := handler fun args =>
  match args with
  | [d, data, bs] => do
    pure (okNatss (readTextLines ieee (← d.toNats?) (← data.toNats?) (← toOptNat? bs)))
  | _ => none

/-- `(readtextuniv (data…) bs|none)` -/
def hReadTextUniv : Handler := handler fun args =>
  match args with
  | [data, bs] => do
    pure (okNatss (readTextUniv ieee (← data.toNats?) (← toOptNat? bs)))
  | _ => none

def ofIdxLines (ps : List (List (Nat × List Nat))) : SExp :=
  .list (ps.map fun p => .list (p.map fun il => .list [SExp.ofNat il.1, SExp.ofNats il.2]))

/-- `(readtextfiles (d…) ((file…)…) fpp|none bs|none)` ↦ `(ok ((idx (line…))…)…)` partitions -/
def hReadTextFiles : Handler := handler fun args =>
  match args with
  | [d, files, fpp, bs] => do
    let d ← d.toNats?
    let files ← files.toNatss?
    let fpp ← toOptNat? fpp
    let bs ← toOptNat? bs
    let r := match bs with
      | none => readTextFiles d files fpp
      | some b => readTextFilesBlocks ieee d files b
    match r with
    | some ps => pure (.list [.sym "ok", ofIdxLines ps])
    | none => pure raised
  | _ => none

def hHasBorder : Handler := handler fun args =>
  match args with
  | [d] => do pure (SExp.ofBool (hasBorder (← d.toNats?)))
  | _ => none

/-- `(fileblocksnz (d…) (data…) bs)`: `read_bytes(..., not_zero=True)` -/
def hFileBlocksNZ : Handler := handler fun args =>
  match args with
  | [d, data, bs] => do
    pure (okNatss (fileBlocksNotZero ieee (← data.toNats?) (← d.toNats?) (← bs.toNat?)))
  | _ => none

/-- `(sample n (d…) (data…))`: the header sample of `read_bytes(delimiter=d, sample=n)` -/
def hSample : Handler := handler fun args =>
  match args with
  | [n, d, data] => do pure (SExp.ofNats (sampleOf (← n.toNat?) (← d.toNats?) (← data.toNats?)))
  | _ => none

/-- `(encode (code points…))` ↦ UTF-8 bytes -/
def hEncode : Handler := handler fun args =>
  match args with
  | [t] => do pure (SExp.ofNats (encode (← t.toNats?)))
  | _ => none

def tableC50 : List (String × Handler) := [("fileblocksnz", hFileBlocksNZ), ("sample", hSample), ("encode", hEncode),
  ("plan", hPlan), ("round53", hRound53), ("seek", hSeek), ("seeksimple", hSeekSimple),
  ("readblock", hReadBlock), ("readblockchunked", hReadBlockChunked), ("fileblocks", hFileBlocks),
  ("pysplit", two pySplit), ("decode", two decode), ("ftb", two fileToBlocks),
  ("ftborig", two fileToBlocksOrig), ("decodeorig", two decodeOrig), ("reflines", two refLines), ("univlines", hUniv),
  ("readtext", hReadText), ("readtextuniv", hReadTextUniv), ("readtextfiles", hReadTextFiles), ("hasborder", hHasBorder)]

end BagDriver

namespace BagDriver
open Dask.BagReduce Dask.BagSample

/-! ### C49 -/

def fnOf (l : List Nat) (dflt : Nat) : Nat → Nat := fun j => l.getD j dflt

def pairOutL (r : List Nat × Nat) : SExp := .list [SExp.ofNats r.1, SExp.ofNat r.2]

/-- `((s…) n)` inputs of a reduce node -/
def toInputs? (e : SExp) : Option (List (List Nat × Nat)) := do
  (← e.toList?).mapM fun x => match x with
    | .list [s, n] => do pure (← s.toNats?, ← n.toNat?)
    | _ => none

/-- `(samplemap k (geoms…) (slots…) (pop…))` ↦ `((reservoir…) stream_length)` -/
def hSampleMap : Handler := handler fun args =>
  match args with
  | [k, g, sl, pop] => do
    pure (pairOutL (sampleMapPartitions (← k.toNat?) (fnOf (← g.toNats?) 1) (fnOf (← sl.toNats?) 0) (← pop.toNats?)))
  | _ => none

/-- `(choicesmap k (geoms…) (pop…))` ↦ `(ok (reservoir…) n)` | `(raised)` -/
def hChoicesMap : Handler := handler fun args =>
  match args with
  | [k, g, pop] => do
    match choicesMapPartitions (← k.toNat?) (fnOf (← g.toNats?) 1) (← pop.toNats?) with
    | some r => pure (.list [.sym "ok", SExp.ofNats r.1, SExp.ofNat r.2])
    | none => pure raised
  | _ => none

/-- `(samplereduce k (keys…) (((s…) n)…))` ↦ `((sample…) n)` -/
def hSampleReduce : Handler := handler fun args =>
  match args with
  | [k, keys, ins] => do
    pure (pairOutL (sampleReduce (← k.toNat?) (fnOf (← keys.toNats?) 0) (← toInputs? ins)))
  | _ => none

/-- `(choicesreduce k (picks…) (((s…) n)…))` ↦ `(ok (sample…) n)` | `(raised)` -/
def hChoicesReduce : Handler := handler fun args =>
  match args with
  | [k, picks, ins] => do
    match choicesReduce (← k.toNat?) (fnOf (← picks.toNats?) 0) (← toInputs? ins) with
    | some r => pure (.list [.sym "ok", SExp.ofNats r.1, SExp.ofNat r.2])
    | none => pure raised
  | _ => none

/-- `(randomsample ((keepbits…)…) ((part…)…))` ↦ `((part…)…)` -/
def hRandomSample : Handler := handler fun args =>
  match args with
  | [keeps, parts] => do
    let keeps ← keeps.toNatss?
    let parts ← parts.toNatss?
    let O : Oracle := { geom := fun _ _ => 1, slot := fun _ _ => 0, key := fun _ _ _ => 0, pick := fun _ _ _ => 0,
                        keep := fun i j => (keeps.getD i []).getD j 0 != 0 }
    pure (SExp.ofNatss (randomSample O parts))
  | _ => none

/-- `(tree se (sizes…))`: `Bag.reduction` over the free term algebra — the shape of the task tree:
    `(leaf i)` per non-skipped partition, `(node depth i children…)` per aggregate task; `(hang)` -/
def hTree : Handler := handler fun args =>
  match args with
  | [se, sizes] => do
    let se ← se.toNat?
    let sizes ← sizes.toNats?
    let parts := sizes.map fun n => List.replicate n (0 : Nat)
    match reductionIx (β := SExp) (fun i _ => .list [.sym "leaf", SExp.ofNat i])
        (fun d i xs => .list (.sym "node" :: SExp.ofNat d :: SExp.ofNat i :: xs)) se parts with
    | some t => pure t
    | none => pure (.list [.sym "hang"])
  | _ => none

def hLevelSizes : Handler := handler fun args =>
  match args with
  | [se, k] => do pure (SExp.ofNats (levelSizes (← se.toNat?) ((← k.toNat?) + 1) (← k.toNat?)))
  | _ => none

def tableC49 : List (String × Handler) := [
  ("samplemap", hSampleMap), ("choicesmap", hChoicesMap), ("samplereduce", hSampleReduce),
  ("choicesreduce", hChoicesReduce), ("randomsample", hRandomSample), ("tree", hTree),
  ("levelsizes", hLevelSizes)]

end BagDriver

namespace BagDriver
open Dask.BagOps Dask.BagShuffle

/-! ### C48 -/

def ofIntss (xs : List (List Int)) : SExp := .list (xs.map SExp.ofInts)

/-- the binary operators the harness uses, by name (same table on the Python side) -/
def binopOf (name : String) : Option (Int → Int → Int) :=
  match name with
  | "add" => some (· + ·)
  | "mul" => some (· * ·)
  | "sub" => some (· - ·)
  | "max" => some max
  | "min" => some min
  | "right" => some fun _ x => x
  | "left" => some fun a _ => a
  | "lin" => some fun a x => 2 * a + x
  | _ => none

def toOptInt' (e : SExp) : Option (Option Int) := e.toOptInt?

def okInts (r : Option (List Int)) : SExp :=
  match r with | some xs => .list [.sym "ok", SExp.ofInts xs] | none => raised

def hAccumulate : Handler := handler fun args =>
  match args with
  | [.sym op, init, parts] => do
    pure (ofIntss (accumulateB (← binopOf op) (← toOptInt' init) (← parts.toIntss?)))
  | _ => none

def hTake : Handler := handler fun args =>
  match args with
  | [k, n, parts] => do pure (okInts (takeB (← k.toNat?) (← toOptNat? n) (← parts.toIntss?)))
  | _ => none

def hBoundaries : Handler := handler fun args =>
  match args with
  | [n, m] => do
    let n ← n.toNat?
    let m ← m.toNat?
    if m = 0 then none else pure (SExp.ofNats (fixBoundaries n (boundariesFewer n m)))
  | _ => none

def hNsplits : Handler := handler fun args =>
  match args with
  | [n, m] => do pure (SExp.ofNats (nsplitsMore (← n.toNat?) (← m.toNat?)))
  | _ => none

/-- `(repartition m ((cuts of old partition 0…)…) ((part…)…))` -/
def hRepartition : Handler := handler fun args =>
  match args with
  | [m, cuts, parts] => do
    let cuts ← cuts.toNatss?
    let m ← m.toNat?
    if m = 0 then none
    else pure (ofIntss (repartitionB (fun i => cuts.getD i []) m (← parts.toIntss?)))
  | _ => none

def optOut (r : Option SExp) : SExp := match r with | some e => e | none => .list [.sym "hang"]

def hFold : Handler := handler fun args =>
  match args with
  | [.sym op, .sym cop, init, se, parts] => do
    pure (optOut ((foldB (← binopOf op) (← binopOf cop) (← init.toInt?) (← se.toNat?) (← parts.toIntss?)).map SExp.int))
  | _ => none

def optIntOut (r : Option (Option Int)) : SExp :=
  match r with
  | none => .list [.sym "hang"]
  | some none => raised
  | some (some v) => .list [.sym "ok", .int v]

def hFoldNoInit : Handler := handler fun args =>
  match args with
  | [.sym op, .sym cop, se, parts] => do
    pure (optIntOut (foldNoInitB (← binopOf op) (← binopOf cop) (← se.toNat?) (← parts.toIntss?)))
  | _ => none

def hSum : Handler := handler fun args =>
  match args with
  | [se, parts] => do pure (optOut ((sumB (← se.toNat?) (← parts.toIntss?)).map SExp.int))
  | _ => none

def hCount : Handler := handler fun args =>
  match args with
  | [se, parts] => do pure (optOut ((countB (← se.toNat?) (← parts.toIntss?)).map SExp.ofNat))
  | _ => none

def hMax : Handler := handler fun args =>
  match args with
  | [se, parts] => do pure (optIntOut (maxB (← se.toNat?) (← parts.toIntss?)))
  | _ => none

def hMin : Handler := handler fun args =>
  match args with
  | [se, parts] => do pure (optIntOut (minB (← se.toNat?) (← parts.toIntss?)))
  | _ => none

/-- `(anyall se ((0|1 …)…))` ↦ `(any all)` -/
def hAnyAll : Handler := handler fun args =>
  match args with
  | [se, parts] => do
    let se ← se.toNat?
    let b := (← parts.toNatss?).map fun p => p.map fun x => x != 0
    match anyB se b, allB se b with
    | some x, some y => pure (.list [SExp.ofBool x, SExp.ofBool y])
    | _, _ => pure (.list [.sym "hang"])
  | _ => none

def hTopk : Handler := handler fun args =>
  match args with
  | [k, se, parts] => do pure (optOut ((topkB (← k.toNat?) (← se.toNat?) (← parts.toIntss?)).map SExp.ofInts))
  | _ => none

def ofPairs (xs : List (Nat × Nat)) : SExp := .list (xs.map fun p => .list [SExp.ofNat p.1, SExp.ofNat p.2])
def ofIntPairs (xs : List (Nat × Int)) : SExp := .list (xs.map fun p => .list [SExp.ofNat p.1, .int p.2])

def hFreq : Handler := handler fun args =>
  match args with
  | [se, parts] => do pure (optOut ((frequenciesB (← se.toNat?) (← parts.toNatss?)).map ofPairs))
  | _ => none

def hDistinct : Handler := handler fun args =>
  match args with
  | [parts] => do pure (optOut ((distinctB (← parts.toNatss?)).map SExp.ofNats))
  | _ => none

/-- `(foldby keymod op init cop cinit se parts)`: key x = x mod keymod -/
def hFoldby : Handler := handler fun args =>
  match args with
  | [km, .sym op, init, .sym cop, cinit, se, parts] => do
    let km ← km.toNat?
    pure (optOut ((foldbyB (fun (x : Int) => (x % (km : Int)).toNat) (← binopOf op) (← init.toInt?) (← binopOf cop)
      (← cinit.toInt?) (← se.toNat?) (← parts.toIntss?)).map ofIntPairs))
  | _ => none

def toPairs? (e : SExp) : Option (List (Nat × Int)) := do
  (← e.toList?).mapM fun x => match x with
    | .list [h, v] => do pure (← h.toNat?, ← v.toInt?)
    | _ => none

/-- `(shuffle k stages (((h x)…)…))` ↦ output partitions of `(h x)` pairs -/
def hShuffle : Handler := handler fun args =>
  match args with
  | [k, st, parts] => do
    let parts ← (← parts.toList?).mapM toPairs?
    pure (.list ((shuffle (← k.toNat?) (← st.toNat?) parts).map ofIntPairs))
  | _ => none

def ofGroups (gs : List (Nat × List Int)) : SExp := .list (gs.map fun g => .list [SExp.ofNat g.1, SExp.ofInts g.2])

/-- `(groupbytasks k stages keymod (hash of key 0, 1, …) parts)` -/
def hGroupbyTasks : Handler := handler fun args =>
  match args with
  | [k, st, km, hs, parts] => do
    let km ← km.toNat?
    let hs ← hs.toNats?
    pure (.list ((groupbyTasks (fun key => hs.getD key 0) (fun (x : Int) => (x % (km : Int)).toNat) (← k.toNat?) (← st.toNat?)
      (← parts.toIntss?)).map ofGroups))
  | _ => none

def hGroupbyDisk : Handler := handler fun args =>
  match args with
  | [nout, km, hs, parts] => do
    let km ← km.toNat?
    let hs ← hs.toNats?
    pure (.list ((groupbyDisk (fun key => hs.getD key 0) (fun (x : Int) => (x % (km : Int)).toNat) (← nout.toNat?)
      (← parts.toIntss?)).map ofGroups))
  | _ => none

def hDigit : Handler := handler fun args =>
  match args with
  | [n, j, k] => do pure (SExp.ofNat (digit (← n.toNat?) (← j.toNat?) (← k.toNat?)))
  | _ => none

def hSetDigit : Handler := handler fun args =>
  match args with
  | [t, s, v, k] => do pure (SExp.ofNat (setDigit (← t.toNat?) (← s.toNat?) (← v.toNat?) (← k.toNat?)))
  | _ => none

def hProduct : Handler := handler fun args =>
  match args with
  | [a, b] => do
    pure (.list ((productB (← a.toIntss?) (← b.toIntss?)).map fun p => .list (p.map fun xy => .list [.int xy.1, .int xy.2])))
  | _ => none

def hZip : Handler := handler fun args =>
  match args with
  | [a, b] => do
    match zipB (← a.toIntss?) (← b.toIntss?) with
    | some z => pure (.list [.sym "ok", .list (z.map fun p => .list (p.map fun xy => .list [.int xy.1, .int xy.2]))])
    | none => pure raised
  | _ => none

/-- `(join keymod (other…) parts)`: keys are `x mod keymod` on both sides -/
def hJoin : Handler := handler fun args =>
  match args with
  | [km, other, parts] => do
    let km ← km.toNat?
    let key := fun (x : Int) => (x % (km : Int)).toNat
    pure (.list ((joinB key key (← other.toInts?) (← parts.toIntss?)).map fun p =>
      .list (p.map fun yx => .list [.int yx.1, .int yx.2])))
  | _ => none

def tableC48 : List (String × Handler) := [("join", hJoin),
  ("accumulate", hAccumulate), ("take", hTake), ("boundaries", hBoundaries), ("nsplits", hNsplits),
  ("repartition", hRepartition), ("fold", hFold), ("foldnoinit", hFoldNoInit), ("sum", hSum), ("count", hCount),
  ("max", hMax), ("min", hMin), ("anyall", hAnyAll), ("topk", hTopk), ("freq", hFreq), ("distinct", hDistinct), ("foldby", hFoldby),
  ("shuffle", hShuffle), ("groupbytasks", hGroupbyTasks), ("groupbydisk", hGroupbyDisk), ("digit", hDigit),
  ("setdigit", hSetDigit), ("product", hProduct), ("zip", hZip)]

/-! review round: the real cut points of `split`, `repartition(partition_size)`, `from_sequence`, mean / var -/

/-- `(splitcuts len n)` ↦ `[int(len / n * i) for i in range(n)]` -/
def hSplitCuts : Handler := handler fun args =>
  match args with
  | [len, n] => do pure (SExp.ofNats (splitCuts (← len.toNat?) (← n.toNat?)))
  | _ => none

/-- `(split n (seq…))` ↦ the `n` slices -/
def hSplit : Handler := handler fun args =>
  match args with
  | [n, seq] => do
    let n ← n.toNat?
    if n = 0 then none else pure (ofIntss (splitB n (← seq.toInts?)))
  | _ => none

/-- `(repartitionieee m parts)`: `repartition_npartitions` with the model's own binary64 cut points -/
def hRepartitionIeee : Handler := handler fun args =>
  match args with
  | [m, parts] => do
    let m ← m.toNat?
    let b ← parts.toIntss?
    if m = 0 then none else pure (ofIntss (repartitionB (cutsOfBag b m) m b))
  | _ => none

/-- `(repartitionsize (nsplits…) (chunk lengths…) parts)` -/
def hRepartitionSize : Handler := handler fun args =>
  match args with
  | [ns, cs, parts] => do pure (ofIntss (repartitionSizeB (← ns.toNats?) (← cs.toNats?) (← parts.toIntss?)))
  | _ => none

/-- `(fromsequence n partition_size|none npartitions|none)` on `range(n)` ↦ `(ok size (partition lengths…))` | `(raised)` -/
def hFromSequence : Handler := handler fun args =>
  match args with
  | [n, ps, np] => do
    let n ← n.toNat?
    let ps ← toOptNat? ps
    let np ← toOptNat? np
    match fromSequenceSize n ps np, fromSequenceB (List.range n) ps np with
    | some size, some b =>
      if b.flatten = List.range n then pure (.list [.sym "ok", SExp.ofNat size, SExp.ofNats (b.map List.length)])
      else pure (.list [.sym "lost"])
    | _, _ => pure raised
  | _ => none

/-- `(mean parts)` ↦ `(ok total count)` | `(raised)` -/
def hMean : Handler := handler fun args =>
  match args with
  | [parts] => do
    match meanB (← parts.toIntss?) with
    | some (some tc) => pure (.list [.sym "ok", .int tc.1, SExp.ofNat tc.2])
    | some none => pure raised
    | none => pure (.list [.sym "hang"])
  | _ => none

/-- `(var ddof parts)` ↦ `(ok x2 x n)` | `(raised)` -/
def hVar : Handler := handler fun args =>
  match args with
  | [ddof, parts] => do
    match varB (← ddof.toNat?) (← parts.toIntss?) with
    | some (some t) => pure (.list [.sym "ok", .int t.1, .int t.2.1, SExp.ofNat t.2.2])
    | some none => pure raised
    | none => pure (.list [.sym "hang"])
  | _ => none

/-- `(foldbynoci keymod op init cop se parts)`: `foldby` without `combine_initial` -/
def hFoldbyNoCI : Handler := handler fun args =>
  match args with
  | [km, .sym op, init, .sym cop, se, parts] => do
    let km ← km.toNat?
    pure (optOut ((foldbyNoCIB (fun (x : Int) => (x % (km : Int)).toNat) (← binopOf op) (← init.toInt?) (← binopOf cop)
      (← se.toNat?) (← parts.toIntss?)).map ofIntPairs))
  | _ => none

/-- `(foldbynoinit keymod op cop se parts)`: `foldby` without initial values -/
def hFoldbyNoInit : Handler := handler fun args =>
  match args with
  | [km, .sym op, .sym cop, se, parts] => do
    let km ← km.toNat?
    pure (optOut ((foldbyNoInitB (fun (x : Int) => (x % (km : Int)).toNat) (← binopOf op) (← binopOf cop)
      (← se.toNat?) (← parts.toIntss?)).map ofIntPairs))
  | _ => none

/-- `(groupbydiskblocks nout nelements keymod (hashes…) parts)`: the disk shuffle block by block -/
def hGroupbyDiskBlocks : Handler := handler fun args =>
  match args with
  | [nout, ne, km, hs, parts] => do
    let km ← km.toNat?
    let hs ← hs.toNats?
    let ne ← ne.toNat?
    if ne = 0 then none
    else pure (.list ((groupbyDiskBlocks (fun key => hs.getD key 0) (fun (x : Int) => (x % (km : Int)).toNat) (← nout.toNat?) ne
      (← parts.toIntss?)).map ofGroups))
  | _ => none

def tableC48b : List (String × Handler) := [("groupbydiskblocks", hGroupbyDiskBlocks),("foldbynoci", hFoldbyNoCI), ("foldbynoinit", hFoldbyNoInit),
  ("splitcuts", hSplitCuts), ("split", hSplit), ("repartitionieee", hRepartitionIeee), ("repartitionsize", hRepartitionSize),
  ("fromsequence", hFromSequence), ("mean", hMean), ("var", hVar)]

end BagDriver

namespace BagDriver
open Dask.BagLazify

/-! ### bag `lazify_task` on task-spec terms -/

def headOf? : String → Option Head
  | "reify" => some .reify | "ident" => some .ident | "lazy" => some .lazy | "other" => some .other | _ => none
def headName : Head → String
  | .reify => "reify" | .ident => "ident" | .lazy => "lazy" | .other => "other"

mutual
partial def toNode? : SExp → Option Node
  | .list [.sym "ref", k] => do pure (.ref (← k.toNat?))
  | .list [.sym "data"] => some .data
  | .list [.sym "alias", k] => do pure (.alias (← k.toNat?))
  | .list (.sym "lst" :: args) => do pure (.lst (← args.mapM toNode?))
  | .list (.sym "call" :: .sym h :: args) => do pure (.call (← headOf? h) (← args.mapM toNode?))
  | .list (.sym "sub" :: out :: deps :: inner) => do
    pure (.sub (← inner.mapM toEntry?) (← out.toNat?) (← deps.toNats?))
  | _ => none
partial def toEntry? : SExp → Option (Nat × Node)
  | .list [k, n] => do pure (← k.toNat?, ← toNode? n)
  | _ => none
end

partial def ofNode : Node → SExp
  | .ref k => .list [.sym "ref", SExp.ofNat k]
  | .data => .list [.sym "data"]
  | .alias k => .list [.sym "alias", SExp.ofNat k]
  | .lst args => .list (.sym "lst" :: args.map ofNode)
  | .call h args => .list (.sym "call" :: .sym (headName h) :: args.map ofNode)
  | .sub inner out deps =>
    .list (.sym "sub" :: SExp.ofNat out :: SExp.ofNats deps :: inner.map fun kv => .list [SExp.ofNat kv.1, ofNode kv.2])

/-- `(lazify start node)` ↦ the lazified node (repaired code) -/
def hLazify : Handler := handler fun args =>
  match args with
  | [start, n] => do pure (ofNode (lazify Cfg.fixed (← start.toBool?) (← toNode? n)))
  | _ => none

/-- `(lazifykeep out (k node)…)` ↦ the inner keys that keep their list (sorted by the harness) -/
def hLazifyKeep : Handler := handler fun args =>
  match args with
  | out :: inner => do
    let inner ← inner.mapM toEntry?
    pure (SExp.ofNats (keepSet Cfg.fixed inner (← out.toNat?)))
  | _ => none

/-- `(lazifyrefs k node)` ↦ `_count_references` of key `k` -/
def hLazifyRefs : Handler := handler fun args =>
  match args with
  | [k, n] => do pure (SExp.ofNat (refsNode (← k.toNat?) (← toNode? n)))
  | _ => none

def tableLazify : List (String × Handler) := [("lazify", hLazify), ("lazifykeep", hLazifyKeep), ("lazifyrefs", hLazifyRefs)]

end BagDriver

def table : List (String × Handler) := BagDriver.tableC50 ++ BagDriver.tableC49 ++ BagDriver.tableC48 ++ BagDriver.tableC48b ++ BagDriver.tableLazify

def main : IO Unit := runDriver table
