import DaskModel.DriverLib
import DaskModel.Model.TextBlocks
open Dask

namespace BagDriver
open Dask.TextBlocks

def raised : SExp := .list [.sym "raised"]
def okNatss (r : Option (List (List Nat))) : SExp :=
  match r with
  | some xs => .list [.sym "ok", SExp.ofNatss xs]
  | none => raised

def toOptNat? : SExp → Option (Option Nat)
  | .sym "none" => some none
  | .int i => if i ≥ 0 then some (some i.toNat) else none
  | _ => none

/-! ### C50 -/

/-- `(plan size blocksize)` ↦ `(ok (offsets…) (lengths…))` | `(raised)` -/
def hPlan : Handler := handler fun args =>
  match args with
  | [size, bs] => do
    let size ← size.toNat?
    let bs ← bs.toNat?
    match plan ieee size bs with
    | some (o, l) => pure (.list [.sym "ok", SExp.ofNats o, SExp.ofNats l])
    | none => pure raised
  | _ => none

/-- `(round53 p q)` ↦ nat -/
def hRound53 : Handler := handler fun args =>
  match args with
  | [p, q] => do
    let p ← p.toNat?
    let q ← q.toNat?
    if q = 0 then none else pure (SExp.ofNat (round53 p q))
  | _ => none

def pairOut (r : Nat × Bool) : SExp := .list [SExp.ofNat r.1, SExp.ofBool r.2]

/-- `(seek bsz (d…) (data…) pos)` ↦ `(pos found)` (chunked transliteration) -/
def hSeek : Handler := handler fun args =>
  match args with
  | [bsz, d, data, pos] => do
    pure (pairOut (seekChunked (← bsz.toNat?) (← d.toNats?) (← data.toNats?) (← pos.toNat?)))
  | _ => none

def hSeekSimple : Handler := handler fun args =>
  match args with
  | [d, data, pos] => do
    pure (pairOut (seekSimple (← d.toNats?) (← data.toNats?) (← pos.toNat?)))
  | _ => none

/-- `(readblock (d…) (data…) off len|none)` ↦ bytes -/
def hReadBlock : Handler := handler fun args =>
  match args with
  | [d, data, off, len] => do
    pure (SExp.ofNats (readBlock (← data.toNats?) (← d.toNats?) (← off.toNat?) (← toOptNat? len)))
  | _ => none

def hReadBlockChunked : Handler := handler fun args =>
  match args with
  | [bsz, d, data, off, len] => do
    pure (SExp.ofNats (readBlockChunked (← bsz.toNat?) (← data.toNats?) (← d.toNats?) (← off.toNat?) (← toOptNat? len)))
  | _ => none

/-- `(fileblocks (d…) (data…) bs|none)` ↦ `(ok (block…)…)` | `(raised)` -/
def hFileBlocks : Handler := handler fun args =>
  match args with
  | [d, data, bs] => do
    pure (okNatss (fileBlocks ieee (← data.toNats?) (← d.toNats?) (← toOptNat? bs)))
  | _ => none

def two (f : List Nat → List Nat → Option (List (List Nat))) : Handler := handler fun args =>
  match args with
  | [d, t] => do pure (okNatss (f (← d.toNats?) (← t.toNats?)))
  | _ => none

def hUniv : Handler := handler fun args =>
  match args with
  | [t] => do pure (okNatss (univLines (← t.toNats?)))
  | _ => none

/-- `(readtext (d…) (data…) bs|none)` -/
def hReadText : Handler := handler fun args =>
  match args with
  | [d, data, bs] => do
    pure (okNatss (readTextLines ieee (← d.toNats?) (← data.toNats?) (← toOptNat? bs)))
  | _ => none

/-- `(readtextuniv (data…) bs|none)` -/
def hReadTextUniv : Handler := handler fun args =>
  match args with
  | [data, bs] => do
    pure (okNatss (readTextUniv ieee (← data.toNats?) (← toOptNat? bs)))
  | _ => none

def hHasBorder : Handler := handler fun args =>
  match args with
  | [d] => do pure (SExp.ofBool (hasBorder (← d.toNats?)))
  | _ => none

def tableC50 : List (String × Handler) := [
  ("plan", hPlan), ("round53", hRound53), ("seek", hSeek), ("seeksimple", hSeekSimple),
  ("readblock", hReadBlock), ("readblockchunked", hReadBlockChunked), ("fileblocks", hFileBlocks),
  ("pysplit", two pySplit), ("decode", two decode), ("ftb", two fileToBlocks),
  ("ftborig", two fileToBlocksOrig), ("decodeorig", two decodeOrig), ("reflines", two refLines), ("univlines", hUniv),
  ("readtext", hReadText), ("readtextuniv", hReadTextUniv), ("hasborder", hHasBorder)]

end BagDriver

def table : List (String × Handler) := BagDriver.tableC50

def main : IO Unit := runDriver table
