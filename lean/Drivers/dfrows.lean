import DaskModel.DriverLib
import DaskModel.Model.Cumulative
import DaskModel.Model.Overlap
import DaskModel.Model.OverlapTime
import DaskModel.Model.Frame
import DaskModel.Model.FrameMap
import DaskModel.Model.TreeReduce
import DaskModel.Model.RelExpr
import DaskModel.Model.OrRewrite
import DaskModel.Model.DTypes
import DaskModel.Model.CoMomentIO
import DaskModel.Model.RelExpr2IO
import DaskModel.Model.OverlapTime2IO
import DaskModel.Model.MetaLabelsIO
open Dask

/-! Line-protocol handlers of group dfrows (C36 C37 C42 C43 C46). Cells: an integer or `none`. -/

namespace DfRows

def toCell? : SExp → Option (Option Int)
  | .sym "none" => some none
  | .int i => some (some i)
  | _ => none

def toCells? (e : SExp) : Option (List (Option Int)) := do (← e.toList?).mapM toCell?
def toCellss? (e : SExp) : Option (List (List (Option Int))) := do (← e.toList?).mapM toCells?

def ofCell : Option Int → SExp
  | none => .sym "none"
  | some i => .int i
def ofCells (l : List (Option Int)) : SExp := .list (l.map ofCell)
def ofCellss (l : List (List (Option Int))) : SExp := .list (l.map ofCells)

/-! ### C46 -/

def toOp? : SExp → Option Cumulative.Op
  | .sym "sum" => some .sum | .sym "prod" => some .prod
  | .sym "max" => some .max | .sym "min" => some .min
  | _ => none

/-- `(cum <op> <skipna> (parts…))` ↦ partitions of the lowered Series cumulative -/
def hCum : Handler := handler fun args =>
  match args with
  | [op, sk, parts] => do
    pure (ofCellss (Cumulative.daskCum (← toOp? op).app (← sk.toBool?) (← toCellss? parts)))
  | _ => none

/-- `(cumdf <op> <skipna> (parts…))` ↦ one column of the DataFrame path (non-empty partitions) -/
def hCumDF : Handler := handler fun args =>
  match args with
  | [op, sk, parts] => do
    pure (ofCellss (Cumulative.daskCumDF (← toOp? op).app (← sk.toBool?) (← toCellss? parts)))
  | _ => none

/-- `(cumspec <op> <skipna> (cells…))` ↦ pandas on the whole series -/
def hCumSpec : Handler := handler fun args =>
  match args with
  | [op, sk, xs] => do
    pure (ofCells (Cumulative.pandasCum (← toOp? op).app (← sk.toBool?) (← toCells? xs)))
  | _ => none

/-- `(takelast <skipna> (cells…))` ↦ `pynone` | `(val c)` -/
def hTakeLast : Handler := handler fun args =>
  match args with
  | [sk, xs] => do
    match Cumulative.takeLast (← sk.toBool?) (← toCells? xs) with
    | none => pure (.sym "pynone")
    | some c => pure (.list [.sym "val", ofCell c])
  | _ => none

/-- `(aggss <op> x y)` with x,y ∈ `pynone` | cell ↦ same encoding -/
def toPy? : SExp → Option (Option (Option Int))
  | .sym "pynone" => some none
  | e => (toCell? e).map some
def ofPy : Option (Option Int) → SExp
  | none => .sym "pynone"
  | some c => ofCell c
def hAggSS : Handler := handler fun args =>
  match args with
  | [op, x, y] => do pure (ofPy (Cumulative.aggSS (← toOp? op).app (← toPy? x) (← toPy? y)))
  | _ => none
def hAggVS : Handler := handler fun args =>
  match args with
  | [op, x, y] => do pure (ofCells (Cumulative.aggVS (← toOp? op).app (← toCells? x) (← toPy? y)))
  | _ => none

/-- the row functions: `(shift p)`, `(diff p)`, `(ffill L|none)`, `(bfill L|none)`,
    `(rollsum w m center)`, `(rollcount w m center)`, `(rollmax w m center)`;
    result: `(before, after, function on a block)` as dask derives them -/
def rowFn? : SExp → Option (Nat × Nat × (List (Option Int) → List (Option Int)))
  | .list [.sym "shift", .int p] =>
    let (b, a) := Overlap.shiftBeforeAfter p
    some (b, a, if p > 0 then Overlap.winFn b a (Overlap.gShiftBack b)
                else if p < 0 then Overlap.winFn b a (Overlap.gShiftFwd a) else id)
  | .list [.sym "diff", .int p] =>
    let (b, a) := Overlap.shiftBeforeAfter p
    some (b, a, if p > 0 then Overlap.winFn b a (Overlap.gDiffBack b)
                else if p < 0 then Overlap.winFn b a (Overlap.gDiffFwd a)
                else fun xs => xs.map (fun c => Overlap.cellSub c c))
  | .list [.sym "ffill", l] => do
    let lim ← (l.toOptInt?)
    let lim := lim.map Int.toNat
    let (b, a) := Overlap.ffillBeforeAfter lim
    -- with `limit=None` dask runs a partition-local unlimited ffill first (FillnaCheck); see `ffillu`
    some (b, a, Overlap.winFn b a (Overlap.gFfill b))
  | .list [.sym "bfill", l] => do
    let lim ← (l.toOptInt?)
    let lim := lim.map Int.toNat
    let (b, a) := Overlap.bfillBeforeAfter lim
    some (b, a, Overlap.winFn b a (Overlap.gBfill a))
  | .list [.sym how, .int w, .int m, c] => do
    let center ← c.toBool?
    let (b, a) := Overlap.rollingBeforeAfter w.toNat center
    let g ← match how with
      | "rollsum" => some (Overlap.gRollSum m.toNat)
      | "rollcount" => some (Overlap.gRollCount m.toNat)
      | "rollmax" => some (Overlap.gRollMax m.toNat)
      | _ => none
    some (b, a, Overlap.winFn b a g)
  | _ => none

/-- `(overlap <fn> (parts…))` ↦ `(ok before after (parts…))` | `(raised before after)` -/
def hOverlap : Handler := handler fun args =>
  match args with
  | [fn, parts] => do
    let (b, a, f) ← rowFn? fn
    let parts ← toCellss? parts
    match Overlap.mapOverlap f b a parts with
    | some out => pure (.list [.sym "ok", .int b, .int a, ofCellss out])
    | none => pure (.list [.sym "raised", .int b, .int a])
  | _ => none

/-- `(fillu ffill|bfill (parts…))` ↦ `(ok (parts…))` | `(raised)`; unlimited fill as lowered by dask -/
def hFillU : Handler := handler fun args =>
  match args with
  | [.sym dir, parts] => do
    let parts ← toCellss? parts
    let r ← match dir with
      | "ffill" => some (Overlap.daskFfillUnlimited parts)
      | "bfill" => some (Overlap.daskBfillUnlimited parts)
      | _ => none
    match r with
    | some out => pure (.list [.sym "ok", ofCellss out])
    | none => pure (.list [.sym "raised"])
  | _ => none

/-- `(fillspec ffill|bfill (cells…))` -/
def hFillSpec : Handler := handler fun args =>
  match args with
  | [.sym dir, xs] => do
    let xs ← toCells? xs
    match dir with
    | "ffill" => pure (ofCells (Overlap.ffillAll none xs))
    | "bfill" => pure (ofCells (Overlap.bfillAll xs))
    | _ => none
  | _ => none

/-- `(winspec <fn> (cells…))` ↦ the function on the whole series -/
def hWinSpec : Handler := handler fun args =>
  match args with
  | [fn, xs] => do
    let (_, _, f) ← rowFn? fn
    pure (ofCells (f (← toCells? xs)))
  | _ => none

/-- `(sideok b a (lens…))` -/
def hSideOK : Handler := handler fun args =>
  match args with
  | [b, a, lens] => do
    let lens ← lens.toNats?
    pure (SExp.ofBool (Overlap.sideOK (← b.toNat?) (← a.toNat?) (lens.map (fun n => List.replicate n ()))))
  | _ => none

/-- `(combined b a prev cur next)` with prev/next ∈ `pynone` | (cells…) ↦ `(ok (cells…) pl nl)` | `(raised)` -/
def toOptCells? : SExp → Option (Option (List (Option Int)))
  | .sym "pynone" => some none
  | e => (toCells? e).map some
def hCombined : Handler := handler fun args =>
  match args with
  | [b, a, pv, cur, nx] => do
    match Overlap.combinedParts (← b.toNat?) (← a.toNat?) (← toOptCells? pv) (← toCells? cur) (← toOptCells? nx) with
    | none => pure (.list [.sym "raised"])
    | some (c, pl, nl) => pure (.list [.sym "ok", ofCells c, SExp.ofOptNat pl, SExp.ofOptNat nl])
  | _ => none

/-- `(rollblockwise w nparts)` -/
def hRollBlockwise : Handler := handler fun args =>
  match args with
  | [w, n] => do pure (SExp.ofBool (Overlap.rollingIsBlockwise (← w.toNat?) (← n.toNat?)))
  | _ => none

/-! ### C46: time-based windows -/

def toTRow? : SExp → Option (Dask.OverlapTime.TRow (Option Int))
  | .list [.int t, c] => do pure (t, ← toCell? c)
  | _ => none
def toTRows? (e : SExp) : Option (List (Dask.OverlapTime.TRow (Option Int))) := do (← e.toList?).mapM toTRow?
def toTRowss? (e : SExp) : Option (List (List (Dask.OverlapTime.TRow (Option Int)))) := do (← e.toList?).mapM toTRows?
def ofTRows (l : List (Dask.OverlapTime.TRow (Option Int))) : SExp := .list (l.map (fun (t, c) => .list [.int t, ofCell c]))

def tGOf (how : String) (m : Nat) : Option (List (Dask.OverlapTime.TRow (Option Int)) → Dask.OverlapTime.TRow (Option Int) → Option Int) :=
  match how with
  | "sum" => some (Dask.OverlapTime.gTRollSum m)
  | "count" => some (Dask.OverlapTime.gTRollCount m)
  | _ => none

/-- `(tstart W (divs…) i)` ↦ the `j` of prepend task `i` | `none`; `(tslow W (divs…))` ↦ slow path? -/
def hTStart : Handler := handler fun args =>
  match args with
  | [.int w, divs, i] => do
    match Dask.OverlapTime.startIdx w (← divs.toInts?) (← i.toNat?) with
    | some j => pure (.int j)
    | none => pure (.sym "none")
  | _ => none

def hTSlow : Handler := handler fun args =>
  match args with
  | [.int w, divs] => do pure (SExp.ofBool (Dask.OverlapTime.slowPath w (← divs.toInts?)))
  | _ => none

/-- `(ttail W (cur rows…) ((prev rows…)…))` ↦ `_tail_timedelta` -/
def hTTail : Handler := handler fun args =>
  match args with
  | [.int w, cur, prevs] => do pure (ofTRows (Dask.OverlapTime.tailTime w (← toTRows? cur) (← toTRowss? prevs)))
  | _ => none

/-- `(toverlap <how> <m> W (divs…) (parts…))` ↦ `(ok (cells…)…)` | `(malformed)` -/
def hTOverlap : Handler := handler fun args =>
  match args with
  | [.sym how, m, .int w, divs, parts] => do
    let g ← tGOf how (← m.toNat?)
    match Dask.OverlapTime.mapOverlapTime (Dask.OverlapTime.twinFn w g) w (← divs.toInts?) (← toTRowss? parts) with
    | some out => pure (.list [.sym "ok", ofCellss out])
    | none => pure (.list [.sym "malformed"])
  | _ => none

/-- `(tspec <how> <m> W (rows…))` ↦ the time-window function on the whole series -/
def hTSpec : Handler := handler fun args =>
  match args with
  | [.sym how, m, .int w, rows] => do
    let g ← tGOf how (← m.toNat?)
    pure (ofCells (Dask.OverlapTime.twinFn w g (← toTRows? rows)))
  | _ => none

/-! ### C36 -/
open Dask.Frame in
def toCmp? : SExp → Option Cmp
  | .sym "lt" => some .lt | .sym "le" => some .le | .sym "gt" => some .gt
  | .sym "ge" => some .ge | .sym "eq" => some .eq | .sym "ne" => some .ne
  | _ => none

open Dask.Frame in
mutual
partial def toCE? : SExp → Option CE
  | .list [.sym "col", .int i] => some (.col i.toNat)
  | .list [.sym "lit", .int k] => some (.lit k)
  | .list [.sym "add", a, b] => do pure (.add (← toCE? a) (← toCE? b))
  | .list [.sym "sub", a, b] => do pure (.sub (← toCE? a) (← toCE? b))
  | .list [.sym "mul", a, b] => do pure (.mul (← toCE? a) (← toCE? b))
  | .list [.sym "neg", a] => do pure (.neg (← toCE? a))
  | .list [.sym "abs", a] => do pure (.abs (← toCE? a))
  | .list [.sym "fillna", a, .int k] => do pure (.fillna (← toCE? a) k)
  | .list [.sym "clip", a, .int lo, .int hi] => do pure (.clip (← toCE? a) lo hi)
  | .list [.sym "where", c, a, o] => do pure (.whereE (← toBE? c) (← toCE? a) (← toCE? o))
  | .list [.sym "mask", c, a, o] => do pure (.maskE (← toBE? c) (← toCE? a) (← toCE? o))
  | .list [.sym "ofbool", c] => do pure (.ofBool (← toBE? c))
  | _ => none
partial def toBE? : SExp → Option BE
  | .list [.sym "cmp", op, a, b] => do pure (.cmp (← toCmp? op) (← toCE? a) (← toCE? b))
  | .list [.sym "isin", a, vals] => do pure (.isin (← toCE? a) (← vals.toInts?))
  | .list [.sym "isna", a] => do pure (.isna (← toCE? a))
  | .list [.sym "and", a, b] => do pure (.and (← toBE? a) (← toBE? b))
  | .list [.sym "or", a, b] => do pure (.or (← toBE? a) (← toBE? b))
  | .list [.sym "not", a] => do pure (.not (← toBE? a))
  | _ => none
end

open Dask.Frame in
def toOpF? : SExp → Option Dask.Frame.Op
  | .list [.sym "project", cols] => do pure (.project (← cols.toNats?))
  | .list [.sym "filter", p] => do pure (.filter (← toBE? p))
  | .list [.sym "assign", .int j, e] => do pure (.assign j.toNat (← toCE? e))
  | _ => none

/-- a row is `(idx c0 c1 …)` -/
def toRow? : SExp → Option Dask.Frame.Row
  | .list (.int i :: cs) => do pure { idx := i, cells := (← cs.mapM toCell?) }
  | _ => none
def toFrame? (e : SExp) : Option Dask.Frame.Frame := do (← e.toList?).mapM toRow?
def ofRow (r : Dask.Frame.Row) : SExp := .list (.int r.idx :: r.cells.map ofCell)
def ofFrame (f : Dask.Frame.Frame) : SExp := .list (f.map ofRow)

/-- `(pipe (ops…) (parts…))` ↦ partitions of the blockwise pipeline -/
def hPipe : Handler := handler fun args =>
  match args with
  | [ops, parts] => do
    let ops ← (← ops.toList?).mapM toOpF?
    let parts ← (← parts.toList?).mapM toFrame?
    let out := Dask.Frame.daskPipeline ops { parts := parts }
    pure (.list (out.parts.map ofFrame))
  | _ => none

/-- `(pipespec (ops…) (rows…))` ↦ the pipeline on the whole frame (pandas semantics) -/
def hPipeSpec : Handler := handler fun args =>
  match args with
  | [ops, rows] => do
    let ops ← (← ops.toList?).mapM toOpF?
    pure (ofFrame (Dask.Frame.pipeline ops (← toFrame? rows)))
  | _ => none

/-- a dict literal `((k v)…)` -/
def toDict? (e : SExp) : Option (List (Int × Int)) := do
  (← e.toList?).mapM (fun kv => match kv with | .list [.int k, .int v] => some (k, v) | _ => none)

/-- `(mapcol dict src dst (parts…))` ↦ partitions of `df.assign(dst = df[src].map(dict))` done blockwise -/
def hMapCol : Handler := handler fun args =>
  match args with
  | [d, .int s, .int j, parts] => do
    let parts ← (← parts.toList?).mapM toFrame?
    let out := Dask.Frame.daskMapCol (← toDict? d) s.toNat j.toNat { parts := parts }
    pure (.list (out.parts.map ofFrame))
  | _ => none

/-- `(mapcolspec dict src dst (rows…))` ↦ the same on the whole frame (pandas semantics) -/
def hMapColSpec : Handler := handler fun args =>
  match args with
  | [d, .int s, .int j, rows] => do
    pure (ofFrame (Dask.Frame.mapCol (← toDict? d) s.toNat j.toNat (← toFrame? rows)))
  | _ => none

/-! ### C37 -/
open Dask.TreeReduce in
def toSE? : SExp → Option SE
  | .sym "none" => some .default
  | .sym "false" => some .off
  | .int k => some (.n k)
  | _ => none

/-- `(treeshape n se)` ↦ `(ok (level batch sizes…)…)` | `(raised)`; the batches `_layer` forms at each level -/
def hTreeShape : Handler := handler fun args =>
  match args with
  | [n, se] => do
    let n ← n.toNat?
    match Dask.TreeReduce.splitEvery (← toSE? se) with
    | none => pure (.list [.sym "raised"])
    | some none => pure (.list [.sym "ok"])
    | some (some k) =>
      let tr := Dask.TreeReduce.treeTrace (fun (bs : List Nat) => bs.headD 0) k (n + 1) (List.range n)
      pure (.list (.sym "ok" :: tr.map (fun lvl => SExp.ofNats (lvl.map List.length))))
  | _ => none

/-- `(reduce <how> <skipna> <se> (parts…))` ↦ `(ok <cell>)` | `(ok <cell> <n>)` for mean | `(raised)` -/
def hReduce : Handler := handler fun args =>
  match args with
  | [.sym how, sk, se, parts] => do
    let sk ← sk.toBool?
    let parts ← toCellss? parts
    match Dask.TreeReduce.splitEvery (← toSE? se) with
    | none => pure (.list [.sym "raised"])
    | some se =>
      let wrap (r : Option (Option Int)) : SExp := match r with
        | some c => .list [.sym "ok", ofCell c]
        | none => .list [.sym "fuel"]
      match how with
      | "sum" => pure (wrap (Dask.TreeReduce.kernelReduce se (Dask.TreeReduce.sumK sk) parts))
      | "prod" => pure (wrap (Dask.TreeReduce.kernelReduce se (Dask.TreeReduce.prodK sk) parts))
      | "max" => pure (wrap (Dask.TreeReduce.daskMinMax se (Dask.TreeReduce.maxK sk) parts))
      | "min" => pure (wrap (Dask.TreeReduce.daskMinMax se (Dask.TreeReduce.minK sk) parts))
      | "count" => match Dask.TreeReduce.daskCount se parts with
        | some n => pure (.list [.sym "ok", .int n])
        | none => pure (.list [.sym "fuel"])
      | "mean" => match Dask.TreeReduce.daskMean se sk parts with
        | some (s, n) => pure (.list [.sym "ok", ofCell s, .int n])
        | none => pure (.list [.sym "fuel"])
      | _ => none
  | _ => none

/-- `(reducespec <how> <skipna> (cells…))` ↦ pandas on the whole column -/
def hReduceSpec : Handler := handler fun args =>
  match args with
  | [.sym how, sk, xs] => do
    let sk ← sk.toBool?
    let xs ← toCells? xs
    match how with
    | "sum" => pure (ofCell (Dask.TreeReduce.sumK sk xs))
    | "prod" => pure (ofCell (Dask.TreeReduce.prodK sk xs))
    | "max" => pure (ofCell (Dask.TreeReduce.maxK sk xs))
    | "min" => pure (ofCell (Dask.TreeReduce.minK sk xs))
    | "count" => pure (.int (Dask.TreeReduce.countK xs))
    | _ => none
  | _ => none

/-- rows of an indexed series: running labels `start, start+1, …` -/
def labelled (start : Int) (cells : List (Option Int)) : List Dask.TreeReduce.LRow :=
  cells.zipIdx.map (fun (c, i) => (start + (i : Int), c))

def labelParts (parts : List (List (Option Int))) : List (List Dask.TreeReduce.LRow) :=
  let rec go (start : Int) : List (List (Option Int)) → List (List Dask.TreeReduce.LRow)
    | [] => []
    | p :: ps => labelled start p :: go (start + p.length) ps
  go 0 parts

def ofPairs (l : List (Int × Int)) : SExp := .list (l.map (fun (a, b) => .list [.int a, .int b]))
def toPairs? (e : SExp) : Option (List (Int × Int)) := do
  (← e.toList?).mapM (fun x => match x with | .list [.int a, .int b] => some (a, b) | _ => none)

def toBools? (e : SExp) : Option (List Bool) := do (← e.toList?).mapM (fun x => x.toBool?)
def ofVC (t : List (Option Int × Nat)) : SExp := .list (t.map (fun (k, n) => .list [ofCell k, .int n]))
def toVC? (e : SExp) : Option (List (Option Int × Nat)) := do
  (← e.toList?).mapM (fun x => match x with | .list [k, n] => do pure ((← toCell? k), (← n.toNat?)) | _ => none)

/-- `(reduce2 <how> <se> (parts…) [n|dropna])` ↦ `(ok …)` | `(raised)` | `(valueerror)`:
    `idxmax`/`idxmin` (labels = running position), `any`/`all` (parts of booleans), `value_counts <dropna>`,
    `nlargest`/`nsmallest <n>` (parts of valid integers) -/
def hReduce2 : Handler := handler fun args =>
  match args with
  | .sym how :: se :: parts :: extra => do
    match Dask.TreeReduce.splitEvery (← toSE? se) with
    | none => pure (.list [.sym "raised"])
    | some se =>
      match how, extra with
      | "idxmax", [] | "idxmin", [] =>
        let better := if how == "idxmax" then Dask.TreeReduce.gtB else Dask.TreeReduce.ltB
        match Dask.TreeReduce.daskIdx se better (labelParts (← toCellss? parts)) with
        | some (some i) => pure (.list [.sym "ok", .int i])
        | some none => pure (.list [.sym "valueerror"])
        | none => pure (.list [.sym "fuel"])
      | "any", [] | "all", [] =>
        let k := if how == "any" then Dask.TreeReduce.anyK else Dask.TreeReduce.allK
        let ps ← (← parts.toList?).mapM toBools?
        match Dask.TreeReduce.kernelReduceB se k ps with
        | some b => pure (.list [.sym "ok", SExp.ofBool b])
        | none => pure (.list [.sym "fuel"])
      | "value_counts", [dropna] =>
        match Dask.TreeReduce.daskValueCounts se (← dropna.toBool?) (← toCellss? parts) with
        | some t => pure (.list [.sym "ok", ofVC t])
        | none => pure (.list [.sym "fuel"])
      | "nlargest", [n] | "nsmallest", [n] =>
        let le := if how == "nlargest" then (fun a b : Int => decide (b ≤ a)) else (fun a b : Int => decide (a ≤ b))
        let ps ← (← parts.toList?).mapM SExp.toInts?
        match Dask.TreeReduce.daskTopK se le (← n.toNat?) ps with
        | some l => pure (.list [.sym "ok", .list (l.map .int)])
        | none => pure (.list [.sym "fuel"])
      | _, _ => none
  | _ => none

/-- `(reduce2spec <how> (cells…) [n|dropna])` ↦ pandas on the whole column: `idxmax`/`idxmin` ↦ label | `valueerror`;
    `any`/`all`; `value_counts <dropna>` ↦ `((key count)…)` for the keys `none, lo … hi` present; `nlargest n` -/
def hReduce2Spec : Handler := handler fun args =>
  match args with
  | .sym how :: xs :: extra => do
    match how, extra with
    | "idxmax", [] | "idxmin", [] =>
      let better := if how == "idxmax" then Dask.TreeReduce.gtB else Dask.TreeReduce.ltB
      match Dask.TreeReduce.idxK better (labelled 0 (← toCells? xs)) with
      | some i => pure (.int i)
      | none => pure (.sym "valueerror")
    | "any", [] => pure (SExp.ofBool (Dask.TreeReduce.anyK (← toBools? xs)))
    | "all", [] => pure (SExp.ofBool (Dask.TreeReduce.allK (← toBools? xs)))
    | "value_counts", [dropna] =>
      let cells ← toCells? xs
      let dropna ← dropna.toBool?
      let keys := cells.eraseDups
      pure (ofVC ((keys.map (fun k => (k, Dask.TreeReduce.countKey dropna cells k))).filter (fun e => e.2 != 0)))
    | "nlargest", [n] => pure (.list ((Dask.TreeReduce.topK (fun a b : Int => decide (b ≤ a)) (← n.toNat?) (← xs.toInts?)).map .int))
    | "nsmallest", [n] => pure (.list ((Dask.TreeReduce.topK (fun a b : Int => decide (a ≤ b)) (← n.toNat?) (← xs.toInts?)).map .int))
    | _, _ => none
  | _ => none

/-- function level: `(idxfn chunk <how> <start> (cells…))`, `(idxfn combine <how> ((idx value)…)…)`,
    `(idxfn agg <how> ((idx value)…)…)` ↦ rows `((idx value)…)` | label | `valueerror` -/
def hIdxFn : Handler := handler fun args =>
  match args with
  | [.sym "chunk", .sym how, .int start, xs] => do
    let better := if how == "idxmax" then Dask.TreeReduce.gtB else Dask.TreeReduce.ltB
    pure (ofPairs (Dask.TreeReduce.idxChunk better (labelled start (← toCells? xs))))
  | [.sym "combine", .sym how, bs] => do
    let better := if how == "idxmax" then Dask.TreeReduce.gtB else Dask.TreeReduce.ltB
    pure (ofPairs (Dask.TreeReduce.idxCombine better (← (← bs.toList?).mapM toPairs?)))
  | [.sym "agg", .sym how, bs] => do
    let better := if how == "idxmax" then Dask.TreeReduce.gtB else Dask.TreeReduce.ltB
    match Dask.TreeReduce.idxAgg better (← (← bs.toList?).mapM toPairs?) with
    | some i => pure (.int i)
    | none => pure (.sym "valueerror")
  | _ => none

/-- function level: `(mmfn chunk <max|min> <skipna> (cells…))`, `(mmfn combine <max|min> <skipna> ((cells…)…))` ↦ the
    partial result (a list of 0 or 1 cells) of `Max.chunk` / `Max.combine` -/
def hMmFn : Handler := handler fun args =>
  match args with
  | [.sym which, .sym how, sk, xs] => do
    let sk ← sk.toBool?
    let k := if how == "max" then Dask.TreeReduce.maxK sk else Dask.TreeReduce.minK sk
    match which with
    | "chunk" => pure (ofCells (Dask.TreeReduce.mmChunk k (← toCells? xs)))
    | "combine" => pure (ofCells (Dask.TreeReduce.mmCombine k (← toCellss? xs)))
    | _ => none
  | _ => none

/-- function level: `(vcfn chunk <dropna> (cells…))`, `(vcfn combine <dropna> (((key count)…)…))` ↦ `((key count)…)` -/
def hVcFn : Handler := handler fun args =>
  match args with
  | [.sym "chunk", dropna, xs] => do pure (ofVC (Dask.TreeReduce.vcChunk (← dropna.toBool?) (← toCells? xs)))
  | [.sym "combine", dropna, bs] => do
    pure (ofVC (Dask.TreeReduce.vcCombine (← dropna.toBool?) (← (← bs.toList?).mapM toVC?)))
  | _ => none

/-! ### C43 / C42 -/
open Dask.RelExpr in
def toBinOp? : String → Option BinOp
  | "add" => some .add | "sub" => some .sub | "mul" => some .mul
  | "lt" => some .lt | "le" => some .le | "gt" => some .gt | "ge" => some .ge
  | "eq" => some .eq | "ne" => some .ne | "and" => some .and | "or" => some .or
  | _ => none

def toStrs? (e : SExp) : Option (List String) := do
  (← e.toList?).mapM (fun x => match x with | .str s => some s | _ => none)

open Dask.RelExpr in
partial def toE? : SExp → Option E
  | .sym "src" => some .src
  | .list [.sym "proj", cols, f] => do pure (.proj (← toStrs? cols) (← toE? f))
  | .list [.sym "filter", f, p] => do pure (.filter (← toE? f) (← toE? p))
  | .list [.sym "assign", f, .str n, v] => do pure (.assign (← toE? f) n (← toE? v))
  | .list [.sym "col", f, .str n] => do pure (.col (← toE? f) n)
  | .list [.sym "lit", .int k] => some (.lit k)
  | .list [.sym "bin", .sym op, a, b] => do pure (.bin (← toBinOp? op) (← toE? a) (← toE? b))
  | .list [.sym "not", a] => do pure (.not (← toE? a))
  | _ => none

open Dask.RelExpr in
def ofVal : Option Val → SExp
  | none => .list [.sym "illformed"]
  | some (.frame cols rows) =>
    .list [.sym "frame", .list (cols.map .str), .list (rows.map (fun (i, r) => .list (.int i :: r.map ofCell)))]
  | some (.series rows) => .list [.sym "series", .list (rows.map (fun (i, c) => .list [.int i, ofCell c]))]
  | some (.scalar c) => .list [.sym "scalar", ofCell c]

/-- `(opteval (cols…) (rows…) e)` ↦ the denotation -/
def hOptEval : Handler := handler fun args =>
  match args with
  | [cols, rows, e] => do
    let s : Dask.RelExpr.Src := { cols := (← toStrs? cols), rows := (← toCellss? rows) }
    pure (ofVal (Dask.RelExpr.den s (← toE? e)))
  | _ => none

/-- `(optcheck (cols…) (e0 e1 …))` ↦ one verdict per consecutive pair: `ok` | `rejected` | `nonf` -/
def hOptCheck : Handler := handler fun args =>
  match args with
  | [cols, es] => do
    let cols ← toStrs? cols
    let es ← (← es.toList?).mapM toE?
    let rec go : List Dask.RelExpr.E → List SExp
      | a :: b :: rest =>
        let v := match Dask.RelExpr.nf cols a, Dask.RelExpr.nf cols b with
          | some x, some y => if x.equiv y then "ok" else "rejected"
          | _, _ => "nonf"
        .sym v :: go (b :: rest)
      | _ => []
    pure (.list (go es))
  | _ => none

open Dask.RelExpr in
def toDT? : SExp → Option DT
  | .sym "int64" => some .int64 | .sym "float64" => some .float64 | .sym "bool" => some .bool
  | _ => none
open Dask.RelExpr in
def ofDT : DT → SExp
  | .int64 => .sym "int64" | .float64 => .sym "float64" | .bool => .sym "bool"

def toTCols? (e : SExp) : Option (List (String × Dask.RelExpr.DT)) := do
  (← e.toList?).mapM (fun x => match x with | .list [.str n, d] => do pure (n, ← toDT? d) | _ => none)

/-- `(dtypeof ((name dtype)…) e)` ↦ `(frame ((name dtype)…))` | `(series dtype)` | `(scalar dtype)` | `none` -/
def hDTypeOf : Handler := handler fun args =>
  match args with
  | [cols, e] => do
    match Dask.RelExpr.dtypeOf (← toTCols? cols) (← toE? e) with
    | some (.frame cs) => pure (.list [.sym "frame", .list (cs.map (fun (n, d) => .list [.str n, ofDT d]))])
    | some (.series d) => pure (.list [.sym "series", ofDT d])
    | some (.scalar d) => pure (.list [.sym "scalar", ofDT d])
    | none => pure (.sym "none")
  | _ => none

/-- `(bindtype <op> <da> <db>)` / `(notdtype <d>)` ↦ dtype | `none` -/
def hBinDType : Handler := handler fun args =>
  match args with
  | [.sym op, a, b] => do
    match Dask.RelExpr.binDType (← toBinOp? op) (← toDT? a) (← toDT? b) with
    | some d => pure (ofDT d)
    | none => pure (.sym "none")
  | _ => none

def hNotDType : Handler := handler fun args =>
  match args with
  | [a] => do
    match Dask.RelExpr.notDType (← toDT? a) with
    | some d => pure (ofDT d)
    | none => pure (.sym "none")
  | _ => none

open Dask.OrRewrite in
partial def toP? : SExp → Option P
  | .list [.sym "atom", .int n] => if n ≥ 0 then some (.atom n.toNat) else none
  | .list [.sym "and", a, b] => do pure (.and (← toP? a) (← toP? b))
  | .list [.sym "or", a, b] => do pure (.or (← toP? a) (← toP? b))
  | _ => none

open Dask.OrRewrite in
def ofP : P → SExp
  | .atom n => .list [.sym "atom", .int n]
  | .and a b => .list [.sym "and", ofP a, ofP b]
  | .or a b => .list [.sym "or", ofP a, ofP b]

/-- `(rewritefilters p)` ↦ the predicate `rewrite_filters` returns; `(orcomps p)` / `(andcomps p)` ↦ component lists -/
def hRewriteFilters : Handler := handler fun args =>
  match args with
  | [p] => do pure (ofP (Dask.OrRewrite.rewriteFilters (← toP? p)))
  | _ => none

def hPredComps : Handler := handler fun args =>
  match args with
  | [.sym "or", p] => do pure (.list ((Dask.OrRewrite.orComps (← toP? p)).map ofP))
  | [.sym "and", p] => do pure (.list ((Dask.OrRewrite.andComps (← toP? p)).map ofP))
  | _ => none

/-- `(metaof (cols…) e)` ↦ `(frame (cols…))` | `series` | `scalar` | `none` -/
def hMetaOf : Handler := handler fun args =>
  match args with
  | [cols, e] => do
    match Dask.RelExpr.metaOf (← toStrs? cols) (← toE? e) with
    | some (.frame cs) => pure (.list [.sym "frame", .list (cs.map .str)])
    | some .series => pure (.sym "series")
    | some .scalar => pure (.sym "scalar")
    | none => pure (.sym "none")
  | _ => none

end DfRows

open DfRows in
def table : List (String × Handler) := [
  ("cum", hCum), ("cumdf", hCumDF), ("cumspec", hCumSpec), ("takelast", hTakeLast),
  ("aggss", hAggSS), ("aggvs", hAggVS),
  ("overlap", hOverlap), ("winspec", hWinSpec), ("sideok", hSideOK), ("combined", hCombined),
  ("rollblockwise", hRollBlockwise), ("fillu", hFillU), ("fillspec", hFillSpec),
  ("tstart", hTStart), ("tslow", hTSlow), ("ttail", hTTail), ("toverlap", hTOverlap), ("tspec", hTSpec),
  ("pipe", hPipe), ("pipespec", hPipeSpec), ("mapcol", hMapCol), ("mapcolspec", hMapColSpec),
  ("treeshape", hTreeShape), ("reduce", hReduce), ("reducespec", hReduceSpec),
  ("reduce2", hReduce2), ("reduce2spec", hReduce2Spec), ("idxfn", hIdxFn), ("vcfn", hVcFn), ("mmfn", hMmFn),
  ("opteval", hOptEval), ("optcheck", hOptCheck), ("metaof", hMetaOf),
  ("rewritefilters", hRewriteFilters), ("predcomps", hPredComps),
  ("dtypeof", hDTypeOf), ("bindtype", hBinDType), ("notdtype", hNotDType)] ++ Dask.CoMomentIO.handlers ++ Dask.RelExpr2IO.handlers ++ Dask.OverlapTime2IO.handlers ++ Dask.MetaLabelsIO.handlers

def main : IO Unit := runDriver table
