import DaskModel.DriverLib
import DaskModel.Model.Slice1D
import DaskModel.Model.SetItem
import DaskModel.Model.Store
import DaskModel.Model.Take
import DaskModel.Model.ArrOverlap
import DaskModel.Model.SliceND
import DaskModel.Model.SetItemND
import DaskModel.Model.NormIndex
import DaskModel.Model.VIndex
import DaskModel.Model.ArrayCache
import DaskModel.Model.C20xIO
import DaskModel.Model.ArrOverlapNdIO
import DaskModel.Model.C21xIO
import DaskModel.Model.C29xIO
open Dask
open Dask.Slice1D
open Dask.SetItem
open Dask.Store
open Dask.Take
open Dask.ArrOverlap
open Dask.SliceND
open Dask.SetItemND
open Dask.NormIndex
open Dask.VIndex

/-! Line-protocol handlers of group `slicing` (C20, C21, C26, C29). -/

namespace SlicingDriver

def toSlice? (e : SExp) : Option PSlice :=
  match e with
  | .list [a, b, c] => do
    let a ← a.toOptInt?
    let b ← b.toOptInt?
    let c ← c.toOptInt?
    pure ⟨a, b, c⟩
  | _ => none

def ofSlice (s : PSlice) : SExp := .list [SExp.ofOptInt s.start, SExp.ofOptInt s.stop, SExp.ofOptInt s.step]

def raised : SExp := .list [.sym "raised"]
def ok (xs : List SExp) : SExp := .list (.sym "ok" :: xs)

def ofPlan (d : List (Nat × PSlice)) : SExp :=
  .list (d.map fun (k, v) => .list [SExp.ofNat k, ofSlice v])

/-- `(pyindices n (start stop step))` ↦ `(ok a b c)` | `(raised)` -/
def hPyIndices : Handler := handler fun args =>
  match args with
  | [n, s] => do
    let n ← n.toNat?
    let s ← toSlice? s
    match pyIndices n s with
    | some (a, b, c) => pure (ok [.int a, .int b, .int c])
    | none => pure raised
  | _ => none

/-- `(pyslice n (start stop step))` ↦ `(ok (positions…))` | `(raised)` -/
def hPySlice : Handler := handler fun args =>
  match args with
  | [n, s] => do
    let n ← n.toNat?
    let s ← toSlice? s
    match pySliceIdx n s with
    | some ps => pure (ok [SExp.ofInts ps])
    | none => pure raised
  | _ => none

/-- `(pymod a b)` -/
def hPyMod : Handler := handler fun args =>
  match args with
  | [a, b] => do pure (.int (pyMod (← a.toInt?) (← b.toInt?)))
  | _ => none

/-- `(normslice (start stop step) dim)` ↦ `(ok (start stop step))` | `(raised)` -/
def hNormSlice : Handler := handler fun args =>
  match args with
  | [s, n] => do
    let n ← n.toNat?
    let s ← toSlice? s
    match normalizeSlice s n with
    | some r => pure (ok [ofSlice r])
    | none => pure raised
  | _ => none

/-- `(slice1d dim (lengths…) (start stop step))` ↦ `((k (slice)) …)` in insertion order -/
def hSlice1d : Handler := handler fun args =>
  match args with
  | [n, ls, s] => do
    let n ← n.toNat?
    let ls ← ls.toNats?
    let s ← toSlice? s
    pure (ofPlan (slice1d n ls s))
  | _ => none

/-- `(slice1dint (lengths…) index)` ↦ `(ok i ind)` | `(raised)` -/
def hSlice1dInt : Handler := handler fun args =>
  match args with
  | [ls, i] => do
    let ls ← ls.toNats?
    let i ← i.toInt?
    match slice1dInt ls i with
    | some (b, o) => pure (ok [SExp.ofNat b, .int o])
    | none => pure raised
  | _ => none

/-- `(newblockdim dim (lengths…) (slice))` ↦ `(ok (sizes…))` | `(raised)` -/
def hNewBlockdim : Handler := handler fun args =>
  match args with
  | [n, ls, s] => do
    let n ← n.toNat?
    let ls ← ls.toNats?
    let s ← toSlice? s
    match newBlockdim n ls s with
    | some r => pure (ok [SExp.ofInts r])
    | none => pure raised
  | _ => none

/-- `(planden (lengths…) (slice))`: normalise, plan, and list the global positions read, block by block
    in output order ↦ `(ok (positions…) (slice))` | `(raised)` -/
def hPlanDen : Handler := handler fun args =>
  match args with
  | [ls, s] => do
    let ls ← ls.toNats?
    let s ← toSlice? s
    match normalizeSlice s ls.sum with
    | some ns => pure (ok [SExp.ofInts (planDen ls ns (slice1d ls.sum ls ns)), ofSlice ns])
    | none => pure raised
  | _ => none

/-- `(posify dim ind)` ↦ `(ok v)` | `(raised)` (IndexError from `check_index`) -/
def hPosify : Handler := handler fun args =>
  match args with
  | [n, i] => do
    let n ← n.toNat?
    let i ← i.toInt?
    if checkIntOOB n i then pure raised else pure (ok [.int (posifyInt n i)])
  | _ => none

/-- `(takeplan (lengths…) (index…))` ↦ `(identity)` | `(plan (chunks…) ((taker…) …))` | `(raised)` -/
def hTakePlan : Handler := handler fun args =>
  match args with
  | [ls, idx] => do
    let ls ← ls.toNats?
    let idx ← idx.toInts?
    match takeIsIdentity ls.sum idx with
    | none => pure raised
    | some true => pure (.list [.sym "identity"])
    | some false =>
      pure (.list [.sym "plan", SExp.ofNats (takeChunks ls idx), .list ((takeNewChunks ls idx).map SExp.ofInts)])
  | _ => none

/-! ### C21 -/

/-- `(parseslice size (slice))` ↦ `(ok (slice) implied reversed)` | `(raised)` -/
def hParseSlice : Handler := handler fun args =>
  match args with
  | [n, s] => do
    let n ← n.toNat?
    let s ← toSlice? s
    match parseSlice n s with
    | some p => pure (ok [ofSlice p.index, .int p.implied, SExp.ofBool p.reversed])
    | none => pure raised
  | _ => none

def ofBlockSlice : Option BlockSlice → SExp
  | none => .sym "none"
  | some b => .list [.int b.bstart, .int b.bstop, .int b.size, .int b.npre]

/-- `(blockslices (lengths…) start stop step)` ↦ per block `none` | `(bstart bstop size npre)` -/
def hBlockSlices : Handler := handler fun args =>
  match args with
  | [ls, a, b, c] => do
    let ls ← ls.toNats?
    pure (.list ((axisPlanSlice ls (← a.toInt?) (← b.toInt?) (← c.toInt?)).map ofBlockSlice))
  | _ => none

/-- `(blockint (lengths…) (index…))` ↦ per block `((block index…) (value positions…))` -/
def hBlockInt : Handler := handler fun args =>
  match args with
  | [ls, idx] => do
    let ls ← ls.toNats?
    let idx ← idx.toInts?
    pure (.list ((locations ls).map fun (l0, l1) =>
      .list [SExp.ofInts (blockIndexInt idx l0 l1), SExp.ofNats (valueIndicesInt idx l0 l1)]))
  | _ => none

/-- `(blockbool (lengths…) (mask as 0/1 …))` ↦ per block `((mask…) size npre)` -/
def hBlockBool : Handler := handler fun args =>
  match args with
  | [ls, m] => do
    let ls ← ls.toNats?
    let m ← m.toNats?
    let mask := m.map (fun v => decide (v ≠ 0))
    pure (.list ((locations ls).map fun (l0, l1) =>
      let (blk, size, npre) := blockBool mask l0.toNat l1.toNat
      .list [SExp.ofNats (blk.map fun b => if b then 1 else 0), SExp.ofNat size, SExp.ofNat npre]))
  | _ => none

/-- `(revvalue size a b)` ↦ `(ok (slice))` -/
def hRevValue : Handler := handler fun args =>
  match args with
  | [n, a, b] => do
    match reverseValueSlice (← n.toNat?) (← a.toInt?) (← b.toInt?) with
    | some s => pure (ok [ofSlice s])
    | none => pure raised
  | _ => none

/-! ### C26 -/

def toBoolSym? (e : SExp) : Option Bool := e.toBool?

/-- `(overlapchunks dl dr (cs…))` -/
def hOverlapChunks : Handler := handler fun args =>
  match args with
  | [a, b, cs] => do pure (SExp.ofNats (overlapChunks (← a.toNat?) (← b.toNat?) (← cs.toNats?)))
  | _ => none

/-- `(trimchunks bdyNone dl dr (cs…))` -/
def hTrimChunks : Handler := handler fun args =>
  match args with
  | [bn, a, b, cs] => do
    pure (SExp.ofInts (trimChunks (← toBoolSym? bn) (← a.toNat?) (← b.toNat?) (← cs.toInts?)))
  | _ => none

/-- `(ensuremin size (cs…))` ↦ `(ok (cs…))` | `(raised)` -/
def hEnsureMin : Handler := handler fun args =>
  match args with
  | [sz, cs] => do
    match ensureMin (← sz.toNat?) (← cs.toNats?) with
    | some r => pure (ok [SExp.ofNats r])
    | none => pure raised
  | _ => none

/-- `(overlapblocks dl dr ((blk…) …))` -/
def hOverlapBlocks : Handler := handler fun args =>
  match args with
  | [a, b, bs] => do pure (SExp.ofNatss (overlapBlocks (← a.toNat?) (← b.toNat?) (← bs.toNatss?)))
  | _ => none

/-- `(trimblocks bdyNone dl dr ((blk…) …))` -/
def hTrimBlocks : Handler := handler fun args =>
  match args with
  | [bn, a, b, bs] => do
    pure (SExp.ofNatss (trimBlocks (← toBoolSym? bn) (← a.toNat?) (← b.toNat?) (← bs.toNatss?)))
  | _ => none

/-- `(overlapboundary d (padL…) (padR…) ((blk…) …))`: the blocks of `overlap(x, d, boundary)` along one axis;
    cells are integers (positions; a negative number stands for the constant fill) -/
def hOverlapBoundary : Handler := handler fun args =>
  match args with
  | [d, pl, pr, bs] => do
    pure (.list ((overlapWithBoundary (← d.toNat?) (← pl.toInts?) (← pr.toInts?) (← bs.toIntss?)).map SExp.ofInts))
  | _ => none

/-- `(trimarg (ranks…))` ↦ index of the argument whose depth/boundary drive the trim of map_overlap, or `none` -/
def hTrimArg : Handler := handler fun args =>
  match args with
  | [rs] => do
    match trimArg (← rs.toNats?) with
    | some i => pure (SExp.ofNat i)
    | none => pure (.sym "none")
  | _ => none

/-- `(slidingblocks w ((blk…) …))`: per block the windows dask's `sliding_window_view` produces along one axis -/
def hSlidingBlocks : Handler := handler fun args =>
  match args with
  | [w, bs] => do
    pure (.list ((slidingBlocks (← w.toNat?) (← bs.toNatss?)).map fun ws => SExp.ofNatss ws))
  | _ => none

/-- `(padpositions kind d n)` ↦ positions, `none` for the constant fill -/
def hPadPositions : Handler := handler fun args =>
  match args with
  | [.sym k, d, n] => do
    let k ← match k with
      | "periodic" => some Kind.periodic | "reflect" => some Kind.reflect
      | "nearest" => some Kind.nearest | "constant" => some Kind.constant | _ => none
    pure (.list ((padPositions k (← d.toNat?) (← n.toNat?)).map SExp.ofOptNat))
  | _ => none

/-! ### C29 -/

/-- `(slicesfromchunks ((c…) …))` ↦ per block `((start stop) …)` in product order -/
def hSlicesFromChunks : Handler := handler fun args =>
  match args with
  | [cs] => do
    let cs ← cs.toNatss?
    pure (.list ((slicesFromChunks cs).map fun blk => .list (blk.map fun (a, b) => .list [.int a, .int b])))
  | _ => none

/-- `(fuseslice (a) (b))` ↦ `(ok (slice))` | `(raised)` (NotImplementedError) -/
def hFuseSlice : Handler := handler fun args =>
  match args with
  | [a, b] => do
    match fuseSlice (← toSlice? a) (← toSlice? b) with
    | some r => pure (ok [ofSlice r])
    | none => pure raised
  | _ => none

/-- `(fuseint (a) b)` ↦ `(ok v)` | `(raised)` -/
def hFuseInt : Handler := handler fun args =>
  match args with
  | [a, b] => do
    match fuseInt (← toSlice? a) (← b.toInt?) with
    | some r => pure (ok [.int r])
    | none => pure raised
  | _ => none

/-- `(storeplan targetLen region|none (lengths…))` ↦ `(ok ((positions…) …))` | `(raised)` -/
def hStorePlan : Handler := handler fun args =>
  match args with
  | [n, r, ls] => do
    let n ← n.toNat?
    let ls ← ls.toNats?
    let r ← match r with
      | .sym "none" => some none
      | e => (toSlice? e).map some
    match storePlan n r ls with
    | some p => pure (ok [.list (p.map SExp.ofInts)])
    | none => pure raised
  | _ => none

/-- `(npychunks axis ((c…) …))` -/
def hNpyChunks : Handler := handler fun args =>
  match args with
  | [ax, cs] => do pure (SExp.ofNatss (npyChunks (← ax.toNat?) (← cs.toNatss?)))
  | _ => none

def toIdx? (e : SExp) : Option Idx :=
  match e with
  | .list [.sym "sl", s] => do pure (Idx.sl (← toSlice? s))
  | .list [.sym "int", i] => do pure (Idx.int (← i.toInt?))
  | _ => none

def ofBIdx : BIdx → SExp
  | .sl s => .list [.sym "sl", ofSlice s]
  | .int o => .list [.sym "int", .int o]

/-- `(slicend ((lengths…)…) ((sl (a b c)) | (int i) …))` ↦ `(ok (((out…) (in…) (bidx…)) …) (blockdims…))` | `(raised)`:
    the tasks of `slice_slices_and_integers` in dict order and the new blockdims -/
def hSliceND : Handler := handler fun args =>
  match args with
  | [cs, idx] => do
    let cs ← cs.toNatss?
    let idx ← (← idx.toList?).mapM toIdx?
    match newBlockdims cs idx with
    | none => pure raised
    | some bd =>
      pure (ok [.list ((tasks cs idx).map fun t =>
                  .list [SExp.ofNats t.1, SExp.ofNats t.2.1, .list (t.2.2.map ofBIdx)]),
                .list (bd.map SExp.ofInts)])
  | _ => none

def toAIdx? (e : SExp) : Option AIdx :=
  match e with
  | .list [.sym "sl", a, b, c] => do pure (AIdx.sl (← a.toInt?) (← b.toInt?) (← c.toInt?))
  | .list [.sym "int", i] => do pure (AIdx.int (← i.toInt?))
  | .list [.sym "arr", l] => do pure (AIdx.arr (← l.toInts?))
  | _ => none

def ofBIx : BIx → SExp
  | .sl a b c => .list [.sym "sl", .int a, .int b, .int c]
  | .int i => .list [.sym "int", .int i]
  | .arr l => .list [.sym "arr", SExp.ofInts l]

def ofVIx : VIx → SExp
  | .sl s => .list [.sym "sl", ofSlice s]
  | .arr l => .list [.sym "arr", SExp.ofNats l]
  | .ellipsis => .list [.sym "ellipsis"]

/-- `(setitemplan ((lengths…)…) (idx…) (implied…) (reverse…) (vshape…))` ↦ `(raised)` |
    `(ok (none | ((bix…) (vix…))) …)`: the plan of `setitem_array`, block by block in product order -/
def hSetItemPlan : Handler := handler fun args =>
  match args with
  | [cs, idx, implied, reverse, vshape] => do
    let cs ← cs.toNatss?
    let idx ← (← idx.toList?).mapM toAIdx?
    let implied ← implied.toInts?
    let reverse ← reverse.toNats?
    let vshape ← vshape.toNats?
    match planND cs idx implied reverse vshape with
    | .raised => pure raised
    | .ok blocks =>
      pure (ok [.list (blocks.map fun b =>
        match b with
        | none => .sym "none"
        | some (bis, vis) => .list [.list (bis.map ofBIx), .list (vis.map ofVIx)])])
  | _ => none

def toEntry? (e : SExp) : Option Entry :=
  match e with
  | .list [.sym "sl", s] => do pure (Entry.sl (← toSlice? s))
  | .list [.sym "int", i] => do pure (Entry.int (← i.toInt?))
  | .list [.sym "newaxis"] => some Entry.newaxis
  | .list [.sym "ellipsis"] => some Entry.ellipsis
  | .list [.sym "lst", l] => do pure (Entry.lst (← l.toInts?))
  | .list [.sym "mask", l] => do pure (Entry.mask (← (← l.toList?).mapM toBoolSym?))
  | _ => none

def ofEntry : Entry → SExp
  | .sl s => .list [.sym "sl", ofSlice s]
  | .int i => .list [.sym "int", .int i]
  | .newaxis => .list [.sym "newaxis"]
  | .ellipsis => .list [.sym "ellipsis"]
  | .lst l => .list [.sym "lst", SExp.ofInts l]
  | .mask m => .list [.sym "mask", .list (m.map SExp.ofBool)]

/-- `(normindex (shape…) (entry…))` ↦ `(ok (entry…))` | `(raised)` -/
def hNormIndex : Handler := handler fun args =>
  match args with
  | [shape, idx] => do
    let shape ← shape.toNats?
    let idx ← (← idx.toList?).mapM toEntry?
    match normalizeIndex shape idx with
    | some out => pure (ok [.list (out.map ofEntry)])
    | none => pure raised
  | _ => none

/-- `(vindexplan ((lengths…)…) ((coord…)…))` ↦ `(raised)` | `(ok M (pointchunks…) ((key…) ((pos outidx (inblock…)) …)) …)`:
    the slice/merge tasks of `_vindex_array`, one group per (output block, input blocks) in increasing key order -/
def hVIndexPlan : Handler := handler fun args =>
  match args with
  | [cs, pts] => do
    let cs ← cs.toNatss?
    let pts ← pts.toIntss?
    let M := maxPoints cs
    match placeAll M cs 0 pts with
    | none => pure raised
    | some placed =>
      pure (ok [SExp.ofNat M, SExp.ofNats (pointChunks M pts.length),
        .list ((groups placed).map fun g =>
          .list [SExp.ofNats g.1, .list (g.2.map fun q => .list [SExp.ofNat q.pos, SExp.ofNat q.outidx, SExp.ofInts q.inblock])])])
  | _ => none

def toCacheOp? (e : SExp) : Option Dask.ArrayCache.Op :=
  match e with
  | .list [.sym "r", .sym "numblocks"] => some .rNumblocks
  | .list [.sym "r", .sym "npartitions"] => some .rNpartitions
  | .list [.sym "r", .sym "shape"] => some .rShape
  | .list [.sym "r", .sym "ndim"] => some .rNdim
  | .list [.sym "r", .sym "size"] => some .rSize
  | .list [.sym "r", .sym "keys"] => some .rKeys
  | .list [.sym "r", .sym "keyarray"] => some .rKeyArray
  | .list [.sym "wname", n] => do pure (.wName (← n.toNat?))
  | .list [.sym "wchunks", c] => do pure (.wChunks (← c.toNatss?))
  | .list [.sym "assign", n, c] => do pure (.assign (← n.toNat?) (← c.toNatss?))
  | .list [.sym "out", n, c] => do pure (.out (← n.toNat?) (← c.toNatss?))
  | _ => none

/-- `(arraycache name ((c…)…) (op…))` ↦ per op `(answer filled)`: answer = `none` | `(name-or-none (values…))`,
    filled = which of _cached_keys, _key_array, numblocks, npartitions, shape, ndim, size are cached afterwards -/
def hArrayCache : Handler := handler fun args =>
  match args with
  | [n, c, ops] => do
    let n ← n.toNat?
    let c ← c.toNatss?
    let ops ← (← ops.toList?).mapM toCacheOp?
    pure (.list ((Dask.ArrayCache.run (Dask.ArrayCache.constructed n c) ops).map fun r =>
      .list [match r.1 with
             | none => .sym "none"
             | some (nm, vs) => .list [match nm with | none => .sym "none" | some k => SExp.ofNat k, SExp.ofNats vs],
             .list (r.2.map SExp.ofBool)]))
  | _ => none

def table : List (String × Handler) := [
  ("arraycache", hArrayCache),
  ("vindexplan", hVIndexPlan),
  ("normindex", hNormIndex),
  ("setitemplan", hSetItemPlan),
  ("slicend", hSliceND),
  ("overlapchunks", hOverlapChunks), ("trimchunks", hTrimChunks), ("ensuremin", hEnsureMin),
  ("overlapblocks", hOverlapBlocks), ("trimblocks", hTrimBlocks), ("padpositions", hPadPositions),
  ("overlapboundary", hOverlapBoundary), ("trimarg", hTrimArg), ("slidingblocks", hSlidingBlocks),
  ("slicesfromchunks", hSlicesFromChunks), ("fuseslice", hFuseSlice), ("fuseint", hFuseInt),
  ("storeplan", hStorePlan), ("npychunks", hNpyChunks),
  ("parseslice", hParseSlice), ("blockslices", hBlockSlices), ("blockint", hBlockInt),
  ("blockbool", hBlockBool), ("revvalue", hRevValue),
  ("pyindices", hPyIndices), ("pyslice", hPySlice), ("pymod", hPyMod), ("normslice", hNormSlice),
  ("slice1d", hSlice1d), ("slice1dint", hSlice1dInt), ("newblockdim", hNewBlockdim),
  ("planden", hPlanDen), ("posify", hPosify), ("takeplan", hTakePlan)] ++ Dask.C20xIO.handlers ++ Dask.ArrOverlapNdIO.handlers ++ Dask.C21xIO.handlers ++ Dask.C29xIO.handlers

end SlicingDriver

def main : IO Unit := runDriver SlicingDriver.table
