import DaskModel.DriverLib
import DaskModel.Model.Chunks
import DaskModel.Model.ChunksPlanner
import DaskModel.Model.ChunksAuto
import DaskModel.Model.Creation
import DaskModel.Model.CreationFloat
import DaskModel.Model.DiagonalNd
import DaskModel.Model.CreationGrid
import DaskModel.Model.CreationLikeIO
import DaskModel.Model.Structural
import DaskModel.Model.ShufflePlan
import DaskModel.Model.ReshapeRechunk
import DaskModel.Model.StructuralOps
import DaskModel.Model.Counting
import DaskModel.Model.CoarsenAlign
import DaskModel.Model.Coarsen2D
import DaskModel.Model.HistogramDD
import DaskModel.Model.RavelIndex
import DaskModel.Model.UniqueNaNIO
import DaskModel.Model.UniqueNdIO
import DaskModel.Generated.ChunkTolerance
import DaskModel.Model.PadEdgeIO
open Dask
open Dask.Chunks
open Dask.Creation
open Dask.Structural
open Dask.Counting

/-! Line-protocol handlers of group `chunks` (C23, C24, C27, C34). -/

/-- spec: `5` | `none` | `auto` | `(bytes 1024)` | `(t 3 2 1)` -/
def decSpec : SExp → Option Spec
  | .int i => some (.int i)
  | .sym "none" => some .none
  | .sym "auto" => some .auto
  | .list [.sym "f", i] => do pure (.flt (← i.toInt?))
  | .list [.sym "bytes", n] => do pure (.bytes (← n.toNat?))
  | .list (.sym "t" :: xs) => do pure (.tup (← xs.mapM SExp.toInt?))
  | _ => none

def decTop : SExp → Option Top
  | .list [.sym "scalar", s] => do pure (.scalar (← decSpec s))
  | .list (.sym "dict" :: kvs) => do
    let kv ← kvs.mapM (fun e => match e with
      | .list [k, v] => do pure ((← k.toNat?), (← decSpec v))
      | _ => none)
    pure (.dict kv)
  | .list (.sym "seq" :: cs) => do pure (.seq (← cs.mapM decSpec))
  | _ => none

def encErr : Err → SExp
  | .value => .list [.sym "raised", .sym "ValueError"]
  | .zeroDiv => .list [.sym "raised", .sym "ZeroDivisionError"]
  | .auto => .list [.sym "raised", .sym "auto"]
  | .unsupported => .list [.sym "unsupported"]

def encIntss (xs : List (List Int)) : SExp := .list (xs.map SExp.ofInts)

/-- `(normalize top (shape…) limit autores)` ; `autores` = `none` | `(some spec…)` -/
def hNormalize : Handler := handler fun args =>
  match args with
  | [top, shape, limit, ar] => do
    let top ← decTop top
    let shape ← shape.toNats?
    let limit ← limit.toOptInt?
    let ar ← match ar with
      | .sym "none" => some none
      | .list (.sym "some" :: cs) => do pure (some (← cs.mapM decSpec))
      | _ => none
    match normalize top shape (limit.map Int.toNat) ar with
    | .ok r => pure (.list [.sym "ok", encIntss r])
    | .error e => pure (encErr e)
  | _ => none

def hBlockdims : Handler := handler fun args =>
  match args with
  | [d, bd] => do
    match blockdims1 (← d.toNat?) (← bd.toInt?) with
    | .ok r => pure (.list [.sym "ok", SExp.ofInts r])
    | .error e => pure (encErr e)
  | _ => none

def encPiece (p : Piece) : SExp := SExp.ofNats [p.idx, p.start, p.stop]
def encPlan (pl : List (List Piece)) : SExp := .list (pl.map (fun g => .list (g.map encPiece)))

def hIntersect : Handler := handler fun args =>
  match args with
  | [old, new] => do
    match intersect1d (← old.toNats?) (← new.toNats?) with
    | some r => pure (.list [.sym "ok", encPlan r])
    | none => pure (.list [.sym "unsupported"])
  | _ => none

def hOldToNew : Handler := handler fun args =>
  match args with
  | [old, new] => do
    match oldToNew (← old.toNatss?) (← new.toNatss?) with
    | some r => pure (.list [.sym "ok", .list (r.map encPlan)])
    | none => pure (.list [.sym "unsupported"])
  | _ => none

/-- `(rechunk1d (old…) (new…) (xs…))` ↦ the new blocks -/
def hRechunk1d : Handler := handler fun args =>
  match args with
  | [old, new, xs] => do
    match rechunk1d (← old.toNats?) (← new.toNats?) (← xs.toInts?) with
    | some r => pure (.list [.sym "ok", encIntss r])
    | none => pure (.list [.sym "unsupported"])
  | _ => none

def hDivide : Handler := handler fun args =>
  match args with
  | [cs, w] => do
    match divideToWidth (← cs.toNats?) (← w.toNat?) with
    | some r => pure (.list [.sym "ok", SExp.ofNats r])
    | none => pure (.list [.sym "raised"])
  | _ => none

def hMergeNum : Handler := handler fun args =>
  match args with
  | [cs, n] => do
    match mergeToNumber (← cs.toNats?) (← n.toNat?) with
    | some r => pure (.list [.sym "ok", SExp.ofNats r])
    | none => pure (.list [.sym "unsupported"])
  | _ => none

def hGraphSize : Handler := handler fun args =>
  match args with
  | [old, new] => do
    let o ← old.toNatss?
    let n ← new.toNatss?
    pure (SExp.ofNats [estimateGraphSize o n, numberOfBlocks o, numberOfBlocks n, largestBlockSize o, largestBlockSize n])
  | _ => none


/-! ### C23 planner (`merge_to_number` heap path, `find_split_rechunk`, `find_merge_rechunk`, `plan_rechunk`) -/

def encPErr : PErr → SExp
  | .raised => .list [.sym "raised"]
  | .nofuel => .list [.sym "nofuel"]
  | .oracle => .list [.sym "oracle"]

/-- `(merge_full (cs…) n)` -/
def hMergeFull : Handler := handler fun args =>
  match args with
  | [cs, n] => do
    match mergeToNumberFull (← cs.toNats?) (← n.toNat?) with
    | .ok r => pure (.list [.sym "ok", SExp.ofNats r])
    | .error e => pure (encPErr e)
  | _ => none

/-- `(find_split old new limit)` -/
def hFindSplit : Handler := handler fun args =>
  match args with
  | [old, new, limit] => do
    match findSplit (← old.toNatss?) (← new.toNatss?) (← limit.toNat?) with
    | .ok r => pure (.list [.sym "ok", SExp.ofNatss r])
    | .error e => pure (encPErr e)
  | _ => none

/-- `(find_merge Lnum den old new (order…))` ↦ `(ok chunks hit)` -/
def hFindMerge : Handler := handler fun args =>
  match args with
  | [ln, den, old, new, order] => do
    match findMerge (← ln.toNat?) (← den.toNat?) (← old.toNatss?) (← new.toNatss?) (← order.toNats?) with
    | .ok (c, hit) => pure (.list [.sym "ok", SExp.ofNatss c, SExp.ofBool hit])
    | .error e => pure (encPErr e)
  | _ => none

/-- `(plan old new itemsize threshold limit_bytes ((order…)…))` ↦ `(ok (stage…))` -/
def hPlan : Handler := handler fun args =>
  match args with
  | [old, new, isz, thr, lim, orders] => do
    match planRechunk (← old.toNatss?) (← new.toNatss?) (← isz.toNat?) (← thr.toNat?) (← lim.toNat?) (← orders.toNatss?) with
    | .ok r => pure (.list [.sym "ok", .list (r.map SExp.ofNatss)])
    | .error e => pure (encPErr e)
  | _ => none

/-- `(balance (cs…))` ↦ `_balance_chunksizes` -/
def hBalance : Handler := handler fun args =>
  match args with
  | [cs] => do pure (SExp.ofNats (balanceChunks (← cs.toNats?)))
  | _ => none

/-- `(rechunk_locate (old…) (new…))` ↦ for every new block the `(old block, offset)` of each of its elements -/
def hRechunkLocate : Handler := handler fun args =>
  match args with
  | [old, new] => do
    let old ← old.toNats?
    let new ← new.toNats?
    match intersect1d old new with
    | none => pure (.list [.sym "unsupported"])
    | some plan =>
      pure (.list [.sym "ok", .list ((List.range new.length).map (fun j =>
        .list ((List.range (new.getD j 0)).map (fun q =>
          match planLocate plan j q with
          | some (i, r) => SExp.ofNats [i, r]
          | none => .sym "none"))))])
  | _ => none

/-! ### C23 `auto_chunks` (floats observed by the harness, passed as exact fractions) -/

def encSpec : Spec → SExp
  | .int i => .int i
  | .flt i => .list [.sym "f", .int i]
  | .none => .sym "none"
  | .auto => .sym "auto"
  | .bytes n => .list [.sym "bytes", .int n]
  | .tup t => .list (.sym "t" :: t.map SExp.int)

def decFrac : SExp → Option Frac
  | .list [n, d] => do pure ⟨← n.toNat?, ← d.toNat?⟩
  | _ => none

/-- `(auto_chunks (spec…) (shape…) itemsize prev ((n d)…) reduce ((pn pd mn md)…) (flag…))`, `prev` = `none` | `((c…)…)` -/
def hAutoChunks : Handler := handler fun args =>
  match args with
  | [chunks, shape, isz, prev, sizes, reduce, visits, flags] => do
    let chunks ← (← chunks.toList?).mapM decSpec
    let shape ← shape.toNats?
    let isz ← isz.toNat?
    let prev ← match prev with
      | .sym "none" => some none
      | p => do pure (some (← p.toNatss?))
    let sizes ← (← sizes.toList?).mapM decFrac
    let reduce ← reduce.toBool?
    let visits ← (← visits.toList?).mapM (fun e => match e with
      | .list [a, b, c, d] => do pure (AVisit.mk ⟨← a.toNat?, ← b.toNat?⟩ ⟨← c.toNat?, ← d.toNat?⟩)
      | _ => none)
    let flags ← (← flags.toList?).mapM SExp.toBool?
    match autoChunks chunks shape isz prev ⟨sizes, reduce, visits, flags⟩ with
    | .ok r => pure (.list (.sym "some" :: r.map encSpec))
    | .error .raised => pure (.list [.sym "raised"])
    | .error .oracle => pure (.list [.sym "oracle"])
  | _ => none

/-- `(auto_sound limit (spec…) (shape…) itemsize ((n d)…))` ↦ `(sound fits)`: are the observed roots sound, does one
    element fit next to the explicit dimensions (the hypotheses of `auto_noprev_within_limit`) -/
def hAutoSound : Handler := handler fun args =>
  match args with
  | [limit, chunks, shape, isz, sizes] => do
    let limit ← limit.toNat?
    let chunks ← (← chunks.toList?).mapM decSpec
    let shape ← shape.toNats?
    let isz ← isz.toNat?
    let sizes ← (← sizes.toList?).mapM decFrac
    pure (.list [SExp.ofBool (sizesSoundB limit isz shape chunks sizes), SExp.ofBool (decide (isz * largestBlockSpec chunks ≤ limit))])
  | _ => none

/-! ### C34 creation -/

def encABlock (b : ABlock) : SExp := .list [.int b.start, .int b.stop, .int b.len]

/-- `(arange start stop step (chunks…))` ↦ `(num ((bstart bstop len)…) ((values…)…) ((offset size)…) ((values…)…))` | `(raised)`:
    the fallback plan (`chunk.arange` on block bounds) and the plan of `chunk.arange_block` -/
def hArange : Handler := handler fun args =>
  match args with
  | [a, b, s, cs] => do
    let a ← a.toInt?
    let b ← b.toInt?
    let s ← s.toInt?
    let cs ← cs.toNats?
    match arangeNum a b s with
    | none => pure (.list [.sym "raised"])
    | some n => pure (.list [.int n, .list ((arangeBlocks a s 0 cs).map encABlock), encIntss (arangeValues a s cs),
                            .list ((blockOffsets 0 cs).map (fun p => SExp.ofNats [p.1, p.2])), encIntss (arangeValuesInt a s cs)])
  | _ => none

/-- a double as `(m e)` = `m * 2^e` -/
def decF64 : SExp → Option SoftFloat.F64
  | .list [m, e] => do pure ⟨← m.toInt?, ← e.toInt?⟩
  | _ => none

def encF64 (x : SoftFloat.F64) : SExp :=
  let y := SoftFloat.normalize x
  .list [.int y.m, .int y.e]

/-- `(sf op x y)` ↦ the binary64 result `(m e)` (normalised) | `(raised)` | an int | a bool -/
def hSoftFloat : Handler := handler fun args =>
  match args with
  | [.sym op, x, y] => do
    let x ← decF64 x
    let y ← decF64 y
    match op with
    | "add" => pure (encF64 (SoftFloat.add x y))
    | "sub" => pure (encF64 (SoftFloat.sub x y))
    | "mul" => pure (encF64 (SoftFloat.mul x y))
    | "div" => match SoftFloat.div x y with
      | some q => pure (encF64 q)
      | none => pure (.list [.sym "raised"])
    | "ceil" => pure (.int (SoftFloat.ceil x))
    | "ofint" => pure (encF64 (SoftFloat.ofInt x.m))
    | "le" => pure (SExp.ofBool (SoftFloat.le x y))
    | "isclose" => pure (SExp.ofBool (SoftFloat.isclose x y))
    | _ => none
  | _ => none

/-- `(arange_f start stop step (chunks…))` (doubles as `(m e)`) ↦ `(shifted num ((values…)…) (whole…))` | `(raised)` -/
def hArangeF : Handler := handler fun args =>
  match args with
  | [a, b, s, cs] => do
    let a ← decF64 a
    let b ← decF64 b
    let s ← decF64 s
    let cs ← cs.toNats?
    match arangePlanF a b s with
    | none => pure (.list [.sym "raised"])
    | some p => pure (.list [SExp.ofBool p.shifted, .int p.num,
                            .list ((arangeValuesF a p cs).map (fun blk => .list (blk.map encF64))),
                            .list ((arangeSpecF a p).map encF64)])
  | _ => none

/-- `(linspace_f start stop num endpoint (chunks…))` (doubles as `(m e)`) ↦ `(step ((values…)…))` -/
def hLinspaceF : Handler := handler fun args =>
  match args with
  | [a, b, num, ep, cs] => do
    let a ← decF64 a
    let b ← decF64 b
    let num ← num.toNat?
    let ep ← ep.toBool?
    let cs ← cs.toNats?
    pure (.list [encF64 (linspacePlanF a b num ep).step,
                 .list ((linspaceValuesF a b num ep cs).map (fun blk => .list (blk.map encF64)))])
  | _ => none

/-- `(arange_old_lens start step (chunks…))` ↦ the block lengths of the plan before the repair (`none` = raised) -/
def hArangeOldLens : Handler := handler fun args =>
  match args with
  | [a, s, cs] => do
    let a ← decF64 a
    let s ← decF64 s
    let cs ← cs.toNats?
    pure (.list ((oldBlockLens a s 0 cs).map (fun o => match o with | some n => .int n | none => .sym "none")))
  | _ => none

/-- `(linspace a b range num endpoint (chunks…))` ↦ `(((offset size)…) ((values…)…) (spec…))` (numerators over `div`) -/
def hLinspace : Handler := handler fun args =>
  match args with
  | [a, b, r, num, ep, cs] => do
    let a ← a.toInt?
    let b ← b.toInt?
    let r ← r.toInt?
    let num ← num.toNat?
    let ep ← ep.toBool?
    let cs ← cs.toNats?
    pure (.list [.list ((linspaceOffsets 0 cs).map (fun p => SExp.ofNats [p.1, p.2])),
                 encIntss (linspaceValues a b r num ep cs), SExp.ofInts (linspaceSpec a b r num ep)])
  | _ => none

def encEyeCell (c : Bool × Int) : SExp := .list [SExp.ofBool c.1, .int c.2]

/-- `(eye k (vchunks…) (hchunks…) N M)` ↦ `(table matrix)` -/
def hEye : Handler := handler fun args =>
  match args with
  | [k, v, h] => do
    let k ← k.toInt?
    let v ← v.toNats?
    let h ← h.toNats?
    let tab := eyeTable k h 0 v
    let n := Chunks.sum v
    let m := Chunks.sum h
    let mat := (List.range n).map (fun r => (List.range m).map (fun c => (eyeDen v h k r c).getD 99))
    pure (.list [.list (tab.map (fun row => .list (row.map encEyeCell))), SExp.ofNatss mat])
  | _ => none

/-- `(diag (chunks…) (xs…))` ↦ matrix -/
def hDiag : Handler := handler fun args =>
  match args with
  | [cs, xs] => do
    let cs ← cs.toNats?
    let xs ← xs.toInts?
    let n := Chunks.sum cs
    pure (encIntss ((List.range n).map (fun r => (List.range n).map (fun c => (diagDen (0 : Int) cs xs r c).getD 99))))
  | _ => none



/-! ### C24 structural -/

/-- `(concat_plan (counts…))` ↦ for every output block `(i j)` -/
def hConcatPlan : Handler := handler fun args =>
  match args with
  | [counts] => do
    let counts ← counts.toNats?
    pure (.list ((List.range (Chunks.sum counts)).map (fun b =>
      match concatPlan counts b with
      | some (i, j) => SExp.ofNats [i, j]
      | none => .sym "none")))
  | _ => none

def decMode : SExp → Option PadMode
  | .sym "reflect" => some .reflect
  | .sym "symmetric" => some .symmetric
  | .sym "wrap" => some .wrap
  | _ => none

/-- `(pad mode (xs…) l r)` ↦ `(reuse spec)` : dask's `pad_reuse` plan and NumPy's periodic extension -/
def hPad : Handler := handler fun args =>
  match args with
  | [m, xs, l, r] => do
    let m ← decMode m
    let xs ← xs.toInts?
    let l ← l.toNat?
    let r ← r.toNat?
    pure (.list [(match padReuse m xs l r with | some v => .list [.sym "ok", SExp.ofInts v] | none => .list [.sym "raised"]),
      SExp.ofInts (padSpec m xs l r)])
  | _ => none

def hPadChunks : Handler := handler fun args =>
  match args with
  | [c, cs, w] => do pure (SExp.ofNats (padChunks (← c.toBool?) (← cs.toNats?) (← w.toNat?)))
  | _ => none

def hRoll : Handler := handler fun args =>
  match args with
  | [xs, s] => do
    let xs ← xs.toInts?
    let s ← s.toInt?
    pure (.list [SExp.ofInts (roll xs s), SExp.ofInts (rollSpec xs s)])
  | _ => none

def hExpandTuple : Handler := handler fun args =>
  match args with
  | [cs, f] => do pure (SExp.ofNats (expandTuple (← cs.toNats?) (← f.toNat?)))
  | _ => none

def hContractTuple : Handler := handler fun args =>
  match args with
  | [cs, f] => do
    match contractTuple (← cs.toNats?) (← f.toNat?) with
    | some r => pure (.list [.sym "ok", SExp.ofNats r])
    | none => pure (.list [.sym "raised"])
  | _ => none

def hLowerDim : Handler := handler fun args =>
  match args with
  | [a, b] => do pure (SExp.ofNats (lowerDimChunks (← a.toNats?) (← b.toNats?)))
  | _ => none

def encShErr : ShErr → SExp
  | .value => .list [.sym "raised", .sym "ValueError"]
  | .index => .list [.sym "raised", .sym "IndexError"]
  | .zeroDiv => .list [.sym "raised", .sym "ZeroDivisionError"]

/-- `(shuffle_plan (old…) ((group…)…) limit (xs…))` ↦ `(ok noop ((taker…)…) ((values…)…))` | `(raised E)`:
    `_shuffle` as a whole (validation, "already shuffled" shortcut, grouping with the extracted tolerance, block values) -/
def hShufflePlan : Handler := handler fun args =>
  match args with
  | [old, groups, limit, xs] => do
    let old ← old.toNats?
    let groups ← groups.toNatss?
    let limit ← limit.toNat?
    let xs ← xs.toInts?
    let tn := Dask.Generated.ChunkTolerance.tolNum
    let td := Dask.Generated.ChunkTolerance.tolDen
    match shufflePlan old groups limit tn td, shuffleBlocks old (splitBy old xs) groups limit tn td with
    | .ok (noop, takers), .ok bs => pure (.list [.sym "ok", SExp.ofBool noop, SExp.ofNatss takers, encIntss bs])
    | .error e, _ => pure (encShErr e)
    | _, .error e => pure (encShErr e)
  | _ => none

/-- `(take_plan (old…) (index…) limit (xs…))` ↦ `(ok arange ((indexer group…)…) ((values…)…))` | `(raised E)`: `slicing.take` -/
def hTakePlan : Handler := handler fun args =>
  match args with
  | [old, index, limit, xs] => do
    let old ← old.toNats?
    let index ← index.toNats?
    let limit ← limit.toNat?
    let xs ← xs.toInts?
    let tn := Dask.Generated.ChunkTolerance.tolNum
    let td := Dask.Generated.ChunkTolerance.tolDen
    let arange := decide (index ≠ [] ∧ index.length = Chunks.sum old ∧ isArange index = true)
    match takeBlocks old (splitBy old xs) index limit tn td with
    | .ok bs => pure (.list [.sym "ok", SExp.ofBool arange,
        SExp.ofNatss (chunkEvery (averageChunk old) index.length index), encIntss bs])
    | .error e => pure (encShErr e)
  | _ => none

def encRErr : Dask.Reshape.RErr → SExp
  | .notImpl => .list [.sym "raised", .sym "NotImplementedError"]
  | .index => .list [.sym "raised", .sym "IndexError"]
  | .other => .list [.sym "raised", .sym "other"]

def encOptChunks (l : List (Option (List Nat))) : SExp :=
  .list (l.map (fun c => match c with | some c => SExp.ofNats c | none => .sym "none"))

/-- `(reshape_rechunk (inshape…) (outshape…) ((inchunks…)…))` ↦ `(ok (ri…) (ro…) ((a b)…) groupsOK)` | `(raised E)` -/
def hReshapeRechunk : Handler := handler fun args =>
  match args with
  | [ishape, oshape, ichunks] => do
    let ishape ← ishape.toNats?
    let oshape ← oshape.toNats?
    let ichunks ← ichunks.toNatss?
    match Dask.Reshape.reshapeRechunk ishape oshape ichunks with
    | .error e => pure (encRErr e)
    | .ok (ri, ro, groups) =>
      let ok := Dask.Reshape.groupsOK (ri.map (·.getD [])) (ro.map (·.getD [])) groups && ri.all Option.isSome && ro.all Option.isSome
      pure (.list [.sym "ok", encOptChunks ri, encOptChunks ro, .list (groups.map (fun g => SExp.ofNats [g.1, g.2])), SExp.ofBool ok])
  | _ => none

/-- `(reshape_check ((ri…)…) ((ro…)…) ((a b)…))` ↦ `groupsOK` on chunks that came from the real `reshape_rechunk` -/
def hReshapeCheck : Handler := handler fun args =>
  match args with
  | [ri, ro, groups] => do
    let ri ← ri.toNatss?
    let ro ← ro.toNatss?
    let groups ← (← groups.toNatss?).mapM (fun g => match g with | [a, b] => some (a, b) | _ => none)
    pure (SExp.ofBool (Dask.Reshape.groupsOK ri ro groups))
  | _ => none

/-- `(blocks_flat ((chunks…)…) (flat…))` ↦ the C-order data of every block, blocks in product order -/
def hBlocksFlat : Handler := handler fun args =>
  match args with
  | [dims, flat] => do pure (encIntss (Dask.Reshape.blocksFlat 1 (← dims.toNatss?) (← flat.toInts?)))
  | _ => none

/-- all the blocks of a grid, as nested lists -/
def gridBlocks (g : Grid Int) : SExp :=
  .list ((List.range g.rc.length).map (fun i => .list ((List.range g.cc.length).map (fun j =>
    encIntss ((List.range (g.rc.getD i 0)).map (fun r => (List.range (g.cc.getD j 0)).map (fun s => g.blk i j r s)))))))

def encGrid (g : Grid Int) : SExp := .list [SExp.ofNats g.rc, SExp.ofNats g.cc, gridBlocks g]

/-- `(grid_op op k (rc…) (cc…) ((row…)…))` ↦ `(rc' cc' blocks)`: the block plans of transpose / flip / rot90 / tril / triu
    applied to the matrix cut by `rc × cc` -/
def hGridOp : Handler := handler fun args =>
  match args with
  | [op, k, rc, cc, rows] => do
    let k ← k.toInt?
    let rc ← rc.toNats?
    let cc ← cc.toNats?
    let rows ← (← rows.toList?).mapM SExp.toInts?
    let g : Grid Int := Grid.ofFn rc cc (fun p q => (rows.getD p []).getD q 0)
    match op with
    | .sym "transpose" => pure (encGrid g.transpose)
    | .sym "flip0" => pure (encGrid g.flip0)
    | .sym "flip1" => pure (encGrid g.flip1)
    | .sym "rot90" => pure (encGrid (g.rot90 (k % 4).toNat))
    | .sym "tril" => pure (encGrid (g.tril 0 k))
    | .sym "triu" => pure (encGrid (g.triu 0 k))
    | _ => none
  | _ => none

/-- `(stack_op axis (cs…) ((array…)…))` ↦ grid of `stack` of 1-d arrays chunked `cs` along a new first (0) / last (1) axis;
    `(bcast_rows (rows…) (cs…) (xs…))`, `(bcast_len1 (new…) x)` ↦ `broadcast_to` plans -/
def hStackOp : Handler := handler fun args =>
  match args with
  | [axis, cs, arrs] => do
    let axis ← axis.toNat?
    let cs ← cs.toNats?
    let arrs ← (← arrs.toList?).mapM SExp.toInts?
    let blk := fun k => (Vec.ofFn cs (fun q => (arrs.getD k []).getD q 0)).blk
    pure (encGrid (if axis = 0 then stackRows arrs.length cs blk else stackCols arrs.length cs blk))
  | _ => none

def hBcastRows : Handler := handler fun args =>
  match args with
  | [rows, cs, xs] => do
    let xs ← xs.toInts?
    pure (encGrid (broadcastRows (← rows.toNats?) (Vec.ofFn (← cs.toNats?) (fun q => xs.getD q 0))))
  | _ => none

def hBcastLen1 : Handler := handler fun args =>
  match args with
  | [new, x] => do
    let new ← new.toNats?
    let x ← x.toInt?
    let v := broadcastLen1 new (Vec.ofFn [1] (fun _ => x))
    pure (.list [SExp.ofNats v.cs, encIntss ((List.range v.cs.length).map (fun b => (List.range (v.cs.getD b 0)).map (v.blk b)))])
  | _ => none

def decGrid (e : SExp) : Option (Grid Int) :=
  match e with
  | .list [rc, cc, rows] => do
    let rc ← rc.toNats?
    let cc ← cc.toNats?
    let rows ← (← rows.toList?).mapM SExp.toInts?
    pure (Grid.ofFn rc cc (fun p q => (rows.getD p []).getD q 0))
  | _ => none

/-- `(grid_cat op r0 r1 ((rc cc rows)…))` ↦ grid: `hcat` / `vcat` of two arrays, `block` of `[[a, b], [c, d]]`, `tile` by `(r0, r1)` -/
def hGridCat : Handler := handler fun args =>
  match args with
  | [op, r0, r1, gs] => do
    let r0 ← r0.toNat?
    let r1 ← r1.toNat?
    let gs ← (← gs.toList?).mapM decGrid
    match op, gs with
    | .sym "hcat", [a, b] => pure (encGrid (a.hcat b))
    | .sym "vcat", [a, b] => pure (encGrid (a.vcat b))
    | .sym "block", [a, b, c, d] => pure (encGrid (block2x2 a b c d))
    | .sym "tile", [a] => pure (encGrid (a.tile r0 r1))
    | _, _ => none
  | _ => none

/-- `(pad_const (chunks…) ((block…)…) l r v)` ↦ blocks of the constant pad along one axis -/
def hPadConst : Handler := handler fun args =>
  match args with
  | [cs, blocks, l, r, v] => do
    let blocks ← (← blocks.toList?).mapM SExp.toInts?
    pure (encIntss (padConstBlocks (← cs.toNats?) blocks (← l.toNat?) (← r.toNat?) (← v.toInt?)))
  | _ => none

/-- `(squeeze_row (cc…) (row…))` / `(expand_row (cs…) (xs…))` ↦ `(chunks blocks)` / grid: squeeze / expand_dims of a leading length-one axis -/
def hSqueezeRow : Handler := handler fun args =>
  match args with
  | [cc, row] => do
    let cc ← cc.toNats?
    let row ← row.toInts?
    let v := squeezeRow (Grid.ofFn [1] cc (fun _ q => row.getD q 0))
    pure (.list [SExp.ofNats v.cs, encIntss ((List.range v.cs.length).map (fun b => (List.range (v.cs.getD b 0)).map (v.blk b)))])
  | _ => none

def hExpandRow : Handler := handler fun args =>
  match args with
  | [cs, xs] => do
    let xs ← xs.toInts?
    pure (encGrid (expandRow (Vec.ofFn (← cs.toNats?) (fun q => xs.getD q 0))))
  | _ => none

/-- `(nd_transpose (axes…) ((chunks…)…) (flat…))` ↦ `(chunks' ((block data…)…))`: the n-d transpose plan applied to the array
    with C-order data `flat`; blocks in product order, each as its C-order data -/
def hNdTranspose : Handler := handler fun args =>
  match args with
  | [axes, chunks, flat] => do
    let axes ← axes.toNats?
    let chunks ← chunks.toNatss?
    let flat ← flat.toInts?
    let shape := chunks.map Chunks.sum
    let lin := fun (idx : List Nat) => (List.zip shape idx).foldl (fun acc p => acc * p.1 + p.2) 0
    let a : NArr Int := NArr.ofFn chunks (fun idx => flat.getD (lin idx) 0)
    let t := a.transpose axes
    let blocks := (cartesian (t.chunks.map List.length)).map (fun B =>
      (cartesian ((List.zip t.chunks B).map (fun p => p.1.getD p.2 0))).map (fun O => t.blk B O))
    pure (.list [SExp.ofNatss t.chunks, encIntss blocks])
  | _ => none

/-- `(list_op op r ((block…)…))` ↦ blocks of `flip` / `tile` along one axis -/
def hListOp : Handler := handler fun args =>
  match args with
  | [op, r, blocks] => do
    let r ← r.toNat?
    let blocks ← (← blocks.toList?).mapM SExp.toInts?
    match op with
    | .sym "flip" => pure (encIntss (flipBlocks blocks))
    | .sym "tile" => pure (encIntss (tileBlocks r blocks))
    | .sym "diff" => pure (SExp.ofInts (diffN r blocks.flatten))
    | _ => none
  | _ => none



/-! ### C27 counting -/

/-- `(searchsorted right ((block…)…) (needles…))` -/
def hSearchsorted : Handler := handler fun args =>
  match args with
  | [r, bs, ys] => do
    let r ← r.toBool?
    let bs ← bs.toNatss?
    let ys ← ys.toNats?
    pure (SExp.ofNats (ys.map (searchsorted r bs)))
  | _ => none

/-- `(bincount ((block…)…) minlength)` ↦ `(merged-per-chunk whole)` -/
def hBincount : Handler := handler fun args =>
  match args with
  | [bs, m] => do
    let bs ← bs.toNatss?
    let m ← m.toNat?
    pure (.list [SExp.ofNats (bincountAgg (bs.map (fun b => bincount b m))), SExp.ofNats (bincount bs.flatten m)])
  | _ => none

/-- `(histogram (edges…) ((block…)…))` -/
def hHistogram : Handler := handler fun args =>
  match args with
  | [e, bs] => do
    let e ← e.toNats?
    let bs ← bs.toNatss?
    pure (.list [SExp.ofNats (histMerge e bs), SExp.ofNats (histBlock e bs.flatten)])
  | _ => none

/-- `(bincount_w ((block…)…) ((weights…)…) minlength)` ↦ `(merged whole)` with integer (pre-scaled) weights -/
def hBincountW : Handler := handler fun args =>
  match args with
  | [bs, ws, m] => do
    let bs ← bs.toNatss?
    let ws ← ws.toIntss?
    let m ← m.toNat?
    let pairs := bs.zip ws
    pure (.list [SExp.ofInts (bincountAggW (pairs.map (fun b => bincountW b.1 b.2 m))),
                 SExp.ofInts (bincountW bs.flatten ws.flatten m)])
  | _ => none

/-- `(unique_inverse (xs…))` ↦ the inverse mapping computed with the masked-sum formula -/
def hUniqueInverse : Handler := handler fun args =>
  match args with
  | [xs] => do
    let xs ← xs.toNats?
    pure (SExp.ofNats (xs.map (inverseOf (uniq xs))))
  | _ => none

def encRows (rs : List URow) : SExp := .list (rs.map (fun r => SExp.ofNats [r.value, r.index, r.count]))

/-- `(unique ((block…)…))` ↦ `(chunked whole)` rows `(value first-index count)` -/
def hUnique : Handler := handler fun args =>
  match args with
  | [bs] => do
    let bs ← bs.toNatss?
    pure (.list [encRows (uniqueChunked bs), encRows (uniqueSpec bs.flatten)])
  | _ => none

/-- `(unique_internal ((v i c)…))` -/
def hUniqueInternal : Handler := handler fun args =>
  match args with
  | [rows] => do
    let rows ← rows.toNatss?
    let rows ← rows.mapM (fun r => match r with | [v, i, c] => some (URow.mk v i c) | _ => none)
    pure (encRows (uniqueInternal rows))
  | _ => none

def hNonzero : Handler := handler fun args =>
  match args with
  | [bs] => do
    let bs ← bs.toNatss?
    pure (.list [SExp.ofNats (nonzeroChunked 0 bs), SExp.ofNats (nonzeroSpec bs.flatten), .int (countNonzeroChunked bs)])
  | _ => none

/-- `(coarsen_sum d ((block…)…))` -/
def hCoarsen : Handler := handler fun args =>
  match args with
  | [d, bs] => do
    let d ← d.toNat?
    let bs ← bs.toNatss?
    pure (.list [SExp.ofNats (coarsenChunked Chunks.sum d bs), SExp.ofNats (coarsenBlock Chunks.sum d bs.flatten)])
  | _ => none

def c27Raised : SExp := .list [.sym "raised"]
def c27OkNats : Option (List Nat) → SExp
  | some r => .list [.sym "ok", SExp.ofNats r]
  | none => c27Raised
def c27Natsss? (e : SExp) : Option (List (List (List Nat))) := do (← e.toList?).mapM SExp.toNatss?
def c27Order? : SExp → Option Counting.Order
  | .sym "C" => some .C
  | .sym "F" => some .F
  | _ => none
def c27Mode? : SExp → Option Counting.Mode
  | .sym "raise" => some .raise
  | .sym "wrap" => some .wrap
  | .sym "clip" => some .clip
  | _ => none

/-- `(aligned_coarsen ((chunks…)…) m ((order…)…))` ↦ one `(ok (…))` | `(raised)` per chunk tuple; `order` is the
    modification order NumPy's argsort produced for that tuple (`()` = use the model's stable argsort) -/
def hAlignedCoarsen : Handler := handler fun args =>
  match args with
  | [css, m, orders] => do
    let css ← css.toNatss?
    let m ← m.toNat?
    let orders ← orders.toNatss?
    pure (.list ((css.zip orders).map (fun (cs, o) =>
      c27OkNats (if o.isEmpty then alignedCoarsenChunks cs m else alignedCoarsenChunksWith o cs m))))
  | _ => none

/-- `(da_coarsen trim d (chunks…) (xs…) (order…))` ↦ `(ok ((block…)…) (declared chunks…) (coarsened whole…))` | `(raised)` -/
def hDaCoarsen : Handler := handler fun args =>
  match args with
  | [t, d, cs, xs, o] => do
    let t ← t.toBool?
    let d ← d.toNat?
    let cs ← cs.toNats?
    let xs ← xs.toNats?
    let o ← o.toNats?
    let o := if o.isEmpty then modificationOrder d cs else o
    match daCoarsenWith o Chunks.sum t d cs xs, alignedCoarsenChunksWith o cs d with
    | some blocks, some al => pure (.list [.sym "ok", SExp.ofNatss blocks, SExp.ofNats (coarsenDeclaredChunks d al),
        SExp.ofNats (coarsenBlock Chunks.sum d xs)])
    | _, _ => pure c27Raised
  | _ => none

/-- `(da_coarsen2 trim d0 d1 (cs0…) (cs1…) ((row…)…) (o0…) (o1…))` ↦ `(ok ((row…)…) ((row…)…))` (block-wise, whole) | `(raised)` -/
def hDaCoarsen2 : Handler := handler fun args =>
  match args with
  | [t, d0, d1, cs0, cs1, rows, o0, o1] => do
    let t ← t.toBool?
    let d0 ← d0.toNat?
    let d1 ← d1.toNat?
    let cs0 ← cs0.toNats?
    let cs1 ← cs1.toNats?
    let rows ← rows.toNatss?
    let red := fun (w : List (List Nat)) => Chunks.sum (w.map Chunks.sum)
    match daCoarsen2With (← o0.toNats?) (← o1.toNats?) red t d0 d1 cs0 cs1 rows with
    | some r => pure (.list [.sym "ok", SExp.ofNatss r, SExp.ofNatss (coarsen2 red d0 d1 (Chunks.sum cs1) rows)])
    | none => pure c27Raised
  | _ => none

/-- `(histogram_w (edges…) ((block…)…) ((weights…)…))` ↦ `(merged whole)` with integer (pre-scaled) weights -/
def hHistogramW : Handler := handler fun args =>
  match args with
  | [e, bs, ws] => do
    let e ← e.toNats?
    let bs ← bs.toNatss?
    let ws ← ws.toIntss?
    pure (.list [SExp.ofInts (histMergeW e (bs.zip ws)), SExp.ofInts (histBlockW e bs.flatten ws.flatten)])
  | _ => none

/-- `(histdd ((edges…)…) (((row…)…)…))` ↦ `(merged whole)` -/
def hHistdd : Handler := handler fun args =>
  match args with
  | [e, bs] => do
    let e ← e.toNatss?
    let bs ← c27Natsss? bs
    pure (.list [SExp.ofNats (histddMerge e bs), SExp.ofNats (histddBlock e bs.flatten)])
  | _ => none

/-- `(hist2d (ex…) (ey…) ((xblock…)…) ((yblock…)…))` ↦ `(ok merged whole)` | `(raised)` -/
def hHist2d : Handler := handler fun args =>
  match args with
  | [ex, ey, xb, yb] => do
    let ex ← ex.toNats?
    let ey ← ey.toNats?
    let xb ← xb.toNatss?
    let yb ← yb.toNatss?
    match histogram2d ex ey xb yb with
    | some r => pure (.list [.sym "ok", SExp.ofNats r, SExp.ofNats (histddBlock [ex, ey] (zipRows xb.flatten yb.flatten))])
    | none => pure c27Raised
  | _ => none

/-- `(digitize right (bins…) ((block…)…))` ↦ `(ok ((…)…))` | `(raised)` -/
def hDigitize : Handler := handler fun args =>
  match args with
  | [r, bins, bs] => do
    match daDigitize (← r.toBool?) (← bins.toNats?) (← bs.toNatss?) with
    | some r => pure (.list [.sym "ok", SExp.ofNatss r])
    | none => pure c27Raised
  | _ => none

/-- `(compress (cs…) (cond as 0/1…) (xs…))` ↦ `(ok ((block…)…) (whole…))` | `(raised)` -/
def hCompress : Handler := handler fun args =>
  match args with
  | [cs, cond, xs] => do
    let cs ← cs.toNats?
    let cond := (← cond.toNats?).map (· != 0)
    let xs ← xs.toInts?
    match compressChunked cs cond xs, compress cond xs with
    | some bs, some w => pure (.list [.sym "ok", .list (bs.map SExp.ofInts), SExp.ofInts w])
    | _, _ => pure c27Raised
  | _ => none

/-- `(isin (xs…) ((test block…)…))` ↦ `(chunked whole)` as 0/1 per element -/
def hIsin : Handler := handler fun args =>
  match args with
  | [xs, tbs] => do
    let xs ← xs.toNats?
    let tbs ← tbs.toNatss?
    let b2n := fun (b : Bool) => if b then 1 else 0
    pure (.list [SExp.ofNats (xs.map (fun x => b2n (isinChunked x tbs))), SExp.ofNats (xs.map (fun x => b2n (tbs.flatten.contains x)))])
  | _ => none

/-- `(ss_blocks right ((block…)…) (needles…))` ↦ per block the row `_searchsorted_block` returns (`0 ↦ -1`, no offset) -/
def hSsBlocks : Handler := handler fun args =>
  match args with
  | [r, bs, ys] => do
    let r ← r.toBool?
    let bs ← bs.toNatss?
    let ys ← ys.toNats?
    pure (.list (bs.map (fun b => SExp.ofInts (ys.map (fun y => ssBlock (sidePred r y) 0 b)))))
  | _ => none

/-- `(compress_np (cond as 0/1…) (xs…))` ↦ `(ok (…))` | `(raised)` : a NumPy condition, possibly longer than the axis -/
def hCompressNp : Handler := handler fun args =>
  match args with
  | [cond, xs] => do
    let cond := (← cond.toNats?).map (· != 0)
    match compressNp cond (← xs.toInts?) with
    | some w => pure (.list [.sym "ok", SExp.ofInts w])
    | none => pure c27Raised
  | _ => none

/-- `(unravel order (shape…) ((block…)…))` ↦ `(ok (((coords…)…)…))` | `(raised)` -/
def hUnravel : Handler := handler fun args =>
  match args with
  | [o, shape, bs] => do
    match daUnravel (← c27Order? o) (← shape.toNats?) (← bs.toNatss?) with
    | some r => pure (.list [.sym "ok", .list (r.map SExp.ofNatss)])
    | none => pure c27Raised
  | _ => none

/-- `(ravel order mode (dims…) (((idx…)…)…))` ↦ `(ok ((…)…))` | `(raised)` -/
def hRavel : Handler := handler fun args =>
  match args with
  | [o, m, dims, bs] => do
    let bs ← (← bs.toList?).mapM SExp.toIntss?
    match daRavelMulti (← c27Order? o) (← c27Mode? m) (← dims.toNats?) bs with
    | some r => pure (.list [.sym "ok", SExp.ofNatss r])
    | none => pure c27Raised
  | _ => none

/-- `(argwhere (shape…) (xs…) k)` ↦ `(rows flatnonzero column-k)` -/
def hArgwhere : Handler := handler fun args =>
  match args with
  | [shape, xs, k] => do
    let shape ← shape.toNats?
    let xs ← xs.toNats?
    pure (.list [SExp.ofNatss (argwhere shape xs), SExp.ofNats (flatnonzero xs), SExp.ofNats (nonzeroCol shape xs (← k.toNat?))])
  | _ => none

/-- `(bincount_tree (((block…)…)…) minlength)` ↦ `(two-level whole)` -/
def hBincountTree : Handler := handler fun args =>
  match args with
  | [gs, m] => do
    let gs ← c27Natsss? gs
    let m ← m.toNat?
    pure (.list [SExp.ofNats (bincountAgg (gs.map (fun g => bincountAgg (g.map (fun b => bincount b m))))),
                 SExp.ofNats (bincount gs.flatten.flatten m)])
  | _ => none



/-- `(shuffle (old…) ((group…)…) limit (xs…))` ↦ `((new chunk takers…) (values…))` with the extracted tolerance -/
def hShuffle : Handler := handler fun args =>
  match args with
  | [old, groups, limit, xs] => do
    let old ← old.toNats?
    let groups ← groups.toNatss?
    let limit ← limit.toNat?
    let xs ← xs.toInts?
    let newChunks := packGroups limit Dask.Generated.ChunkTolerance.tolNum Dask.Generated.ChunkTolerance.tolDen [] groups
    let vals := newChunks.map (fun T => shuffleChunk old (splitBy old xs) T)
    pure (.list [SExp.ofNatss newChunks, encIntss vals])
  | _ => none

/-- `(diagonal (rch…) (cch…) k)` ↦ `(ok ((I J k len)…))` | `(raised)` -/
def hDiagonal : Handler := handler fun args =>
  match args with
  | [r, c, k] => do
    match diagonalPlan (← r.toNats?) (← c.toNats?) (← k.toInt?) with
    | some segs => pure (.list [.sym "ok", .list (segs.map (fun s => SExp.ofInts [s.I, s.J, s.k, s.len]))])
    | none => pure (.list [.sym "raised"])
  | _ => none

/-- `(diagonal_nd ((chunks…)…) offset axis1 axis2)` ↦ `(ok axis1 axis2 ((out_chunks…)…) (((out…) (in…) k)…))` | `(raised)` -/
def hDiagonalNd : Handler := handler fun args =>
  match args with
  | [cs, off, a1, a2] => do
    match diagonalNdPlan (← cs.toNatss?) (← off.toInt?) (← a1.toInt?) (← a2.toInt?) with
    | some (x1, x2, oc, tasks) =>
      pure (.list [.sym "ok", .int x1, .int x2, SExp.ofNatss oc,
                   .list (tasks.map (fun t => .list [SExp.ofNats t.out, SExp.ofNats t.inp, .int t.k]))])
    | none => pure (.list [.sym "raised"])
  | _ => none

/-- `(diagonal_read ((chunks…)…) a1 a2 k (q…) t)` ↦ the global input position read, or `none` -/
def hDiagonalRead : Handler := handler fun args =>
  match args with
  | [cs, a1, a2, k, q, t] => do
    match diagonalNdRead (← cs.toNatss?) (← a1.toNat?) (← a2.toNat?) (← k.toInt?) (← q.toNats?) (← t.toNat?) with
    | some p => pure (SExp.ofNats p)
    | none => pure (.sym "none")
  | _ => none

/-- `(diag_k (chunks…) (xs…) k)` ↦ the `(n+|k|)²` matrix of `diag(v, k)` through the plan -/
def hDiagK : Handler := handler fun args =>
  match args with
  | [cs, xs, k] => do
    let cs ← cs.toNats?
    let xs ← xs.toInts?
    let k ← k.toInt?
    let m := Chunks.sum cs + k.natAbs
    pure (encIntss ((List.range m).map (fun r => (List.range m).map (fun c => (diagKDen (0 : Int) cs xs k r c).getD 99))))
  | _ => none

/-- `(meshgrid ((cs…)…) xy sparse)` ↦ for every output `j`: `(((chunks…)…) axis)` — its chunks and the axis along which
    input `j` varies -/
def hMeshgrid : Handler := handler fun args =>
  match args with
  | [cs, xy, sp] => do
    let cs ← cs.toNatss?
    let xy ← xy.toBool?
    let sp ← sp.toBool?
    pure (.list ((List.range cs.length).map (fun j =>
      .list [SExp.ofNatss (meshgridChunks cs xy sp j), .int (sigma xy cs.length j)])))
  | _ => none

/-- `(grid ((chunks…)…))` ↦ for every block, in product order:
    `((b…) (offs…) (sizes…) ((component 0 values…)…) (weighted-sum values…))`, values row-major -/
def hGrid : Handler := handler fun args =>
  match args with
  | [cs] => do
    let cs ← cs.toNatss?
    pure (.list ((gridBlocks cs).map (fun (b, offs, sizes) =>
      .list [SExp.ofNats b, SExp.ofNats offs, SExp.ofNats sizes,
             SExp.ofNatss ((List.range cs.length).map (fun j => gridBlockVals (fun i => i.getD j 0) offs sizes)),
             SExp.ofNats (gridBlockVals weightedSum offs sizes)])))
  | _ => none

/-- `(tri k (rchunks…) (cchunks…))` ↦ for every block, in product order: `((b…) (sizes…) (0/1 values, row-major))` -/
def hTri : Handler := handler fun args =>
  match args with
  | [k, r, c] => do
    let k ← k.toInt?
    let cs := [← r.toNats?, ← c.toNats?]
    pure (.list ((gridBlocks cs).map (fun (b, offs, sizes) =>
      .list [SExp.ofNats b, SExp.ofNats sizes,
             SExp.ofNats (gridBlockVals (fun p => if triSpec k (p.getD 0 0) (p.getD 1 0) then 1 else 0) offs sizes)])))
  | _ => none


def table : List (String × Handler) := [
  ("tri", hTri),
  ("shuffle", hShuffle), ("diagonal", hDiagonal), ("diagonal_nd", hDiagonalNd), ("diagonal_read", hDiagonalRead), ("diag_k", hDiagK),
  ("meshgrid", hMeshgrid), ("grid", hGrid),
  ("searchsorted", hSearchsorted), ("bincount_w", hBincountW), ("unique_inverse", hUniqueInverse), ("bincount", hBincount), ("histogram", hHistogram), ("unique", hUnique),
  ("unique_internal", hUniqueInternal), ("nonzero", hNonzero), ("coarsen_sum", hCoarsen),
  ("aligned_coarsen", hAlignedCoarsen), ("da_coarsen", hDaCoarsen), ("da_coarsen2", hDaCoarsen2), ("histdd", hHistdd), ("histogram_w", hHistogramW), ("hist2d", hHist2d),
  ("digitize", hDigitize), ("compress", hCompress), ("compress_np", hCompressNp), ("isin", hIsin), ("ss_blocks", hSsBlocks), ("unravel", hUnravel), ("ravel", hRavel), ("argwhere", hArgwhere),
  ("bincount_tree", hBincountTree),
  ("concat_plan", hConcatPlan), ("pad", hPad), ("pad_chunks", hPadChunks), ("roll", hRoll),
  ("expand_tuple", hExpandTuple), ("contract_tuple", hContractTuple), ("lower_dim", hLowerDim),
  ("shuffle_plan", hShufflePlan), ("take_plan", hTakePlan),
  ("reshape_rechunk", hReshapeRechunk), ("reshape_check", hReshapeCheck), ("blocks_flat", hBlocksFlat),
  ("grid_op", hGridOp), ("stack_op", hStackOp), ("bcast_rows", hBcastRows), ("bcast_len1", hBcastLen1), ("list_op", hListOp), ("grid_cat", hGridCat), ("pad_const", hPadConst), ("squeeze_row", hSqueezeRow), ("expand_row", hExpandRow), ("nd_transpose", hNdTranspose),
  ("arange", hArange), ("linspace", hLinspace), ("eye", hEye), ("diag", hDiag),
  ("sf", hSoftFloat), ("arange_f", hArangeF), ("linspace_f", hLinspaceF), ("arange_old_lens", hArangeOldLens),
  ("normalize", hNormalize), ("blockdims", hBlockdims), ("intersect1d", hIntersect),
  ("old_to_new", hOldToNew), ("rechunk1d", hRechunk1d), ("divide_to_width", hDivide),
  ("merge_to_number", hMergeNum), ("graph_size", hGraphSize),
  ("merge_full", hMergeFull), ("find_split", hFindSplit), ("find_merge", hFindMerge), ("plan", hPlan),
  ("rechunk_locate", hRechunkLocate), ("auto_chunks", hAutoChunks), ("auto_sound", hAutoSound),
  ("balance", hBalance)] ++ Dask.UniqueNaNIO.handlers ++ Dask.UniqueNdIO.handlers
  ++ Dask.CreationLike.handlers
  ++ Dask.PadEdge.handlers

def main : IO Unit := runDriver table
