import DaskModel.DriverLib
import DaskModel.Model.SDL
import DaskModel.Model.Repart
import DaskModel.Model.Divs
import DaskModel.Model.Shuffle
import DaskModel.Model.SortValuesIO
import DaskModel.Model.Groupby
import DaskModel.Model.Join
import DaskModel.Model.Csv
import DaskModel.Model.CsvOptsIO
import DaskModel.Model.MergeAsofIO
import DaskModel.Model.AlignIO
import DaskModel.Model.FromPandasUnsortedIO
import DaskModel.Model.MergePlanIO
import DaskModel.Model.PartQuantIO
import DaskModel.Model.GroupbyXIO
import DaskModel.Model.AlignDivsIO
import DaskModel.Model.LocListIO
open Dask

/-- `(sdl (seq…) npartitions n)` / `(sdl (seq…) chunksize c)` ↦ `(ok (divisions…) (locations…))` | `(raised)` -/
def hSdl : Handler := handler fun args =>
  match args with
  | [seq, .sym mode, n] => do
    let seq ← seq.toNats?
    let n ← n.toNat?
    let m ← match mode with
      | "npartitions" => some (SDL.Mode.npartitions n)
      | "chunksize" => some (SDL.Mode.chunksize n)
      | _ => none
    match SDL.sdl seq m with
    | some (d, l) => pure (.list [.sym "ok", SExp.ofNats d, SExp.ofNats l])
    | none => pure (.list [.sym "raised"])
  | _ => none

/-- `(sdl-stats (seq…) mode n)` ↦ `(ok iterations stepbacks)` | `(raised)` -/
def hSdlStats : Handler := handler fun args =>
  match args with
  | [seq, .sym mode, n] => do
    let seq ← seq.toNats?
    let n ← n.toNat?
    let m ← match mode with
      | "npartitions" => some (SDL.Mode.npartitions n)
      | "chunksize" => some (SDL.Mode.chunksize n)
      | _ => none
    match SDL.sdlStats seq m with
    | some (it, b) => pure (.list [.sym "ok", SExp.ofNats [it, b]])
    | none => pure (.list [.sym "raised"])
  | _ => none

/-! ## C44 / C41: repartition -/
def okOr (r : Option SExp) : SExp := match r with | some e => .list [.sym "ok", e] | none => .list [.sym "raised"]

/-- rows `(key, global position)` of partitions given as lists of keys -/
def numberRows (parts : List (List Nat)) : List (List (Nat × Nat)) :=
  (parts.foldl (fun (acc : List (List (Nat × Nat)) × Nat) p =>
    (acc.1 ++ [(List.range p.length).map fun t => (p.getD t 0, acc.2 + t)], acc.2 + p.length)) ([], 0)).1

def idsOf (ps : List (List (Nat × Nat))) : SExp := SExp.ofNatss (ps.map (·.map (·.2)))

def hToFewerBounds : Handler := handler fun args =>
  match args with
  | [n, o] => do pure (okOr ((Repart.toFewerBoundaries (← n.toNat?) (← o.toNat?)).map SExp.ofNats))
  | _ => none

def hSplitPositions : Handler := handler fun args =>
  match args with
  | [l, k] => do pure (okOr ((Repart.splitPositions (← l.toNat?) (← k.toNat?)).map SExp.ofNats))
  | _ => none

def hNsplits : Handler := handler fun args =>
  match args with
  | [n, o] => do pure (okOr ((Repart.nsplits (← n.toNat?) (← o.toNat?)).map SExp.ofNats))
  | _ => none

def hLowerKind : Handler := handler fun args =>
  match args with
  | [n, o, i] => do
    let interp ← match i with
      | .sym "none" => some none
      | e => (e.toNats?).map some
    pure (match Repart.lowerKind (← n.toNat?) (← o.toNat?) interp with
      | .fewer => .list [.sym "fewer"]
      | .same => .list [.sym "same"]
      | .more => .list [.sym "more"]
      | .divisions d => .list [.sym "divisions", SExp.ofNats d])
  | _ => none

def hDivLayer : Handler := handler fun args =>
  match args with
  | [a, b, f] => do
    let r := Repart.divisionsLayer (← a.toNats?) (← b.toNats?) (← f.toBool?)
    pure (match r with
      | some L => .list [.sym "ok",
          .list (L.slices.map fun s => .list [SExp.ofNat s.src, SExp.ofNat s.lo, SExp.ofNat s.hi, SExp.ofBool s.rb]),
          SExp.ofNatss L.out, SExp.ofNats L.c]
      | none => .list [.sym "raised"])
  | _ => none

/-- `(div-layer-ok a b ((src lo hi rb)…) ((k…)…))` ↦ `true|false`: the certificate `Repart.layerOK` evaluated on a
    layer given explicitly (the harness passes the layer the REAL `_layer()` built) -/
def hDivLayerOK : Handler := handler fun args =>
  match args with
  | [a, b, .list sl, out] => do
    let slices ← sl.mapM fun e => match e with
      | .list [src, lo, hi, rb] => do
        pure ({ src := ← src.toNat?, lo := ← lo.toNat?, hi := ← hi.toNat?, rb := ← rb.toBool? } : Repart.Slice)
      | _ => none
    pure (SExp.ofBool (Repart.layerOK (← a.toNats?) (← b.toNats?) { slices := slices, out := ← out.toNatss?, c := [] }))
  | _ => none

/-- `(repart-divs (keys-of-partition…) a b force)` ↦ global row positions per new partition -/
def hRepartDivs : Handler := handler fun args =>
  match args with
  | [ps, a, b, f] => do
    let parts := numberRows (← ps.toNatss?)
    pure (okOr ((Repart.repartitionDivisions (·.1) parts (← a.toNats?) (← b.toNats?) (← f.toBool?)).map idsOf))
  | _ => none

def partsOfLengths (ls : List Nat) : List (List (Nat × Nat)) := numberRows (ls.map (List.replicate · 0))

/-- `(tofewer (partition lengths…) new)` ↦ global row positions per new partition -/
def hToFewer : Handler := handler fun args =>
  match args with
  | [ls, n] => do
    let parts := partsOfLengths (← ls.toNats?)
    pure (okOr (((Repart.toFewerRaw (← n.toNat?) parts.length).bind (Repart.toFewer parts)).map idsOf))
  | _ => none

def hToMore : Handler := handler fun args =>
  match args with
  | [ls, n] => do pure (okOr ((Repart.toMore (partsOfLengths (← ls.toNats?)) (← n.toNat?)).map idsOf))
  | _ => none

/-- `(iter-chunks (sizes…) max)` ↦ `(ok (chunk lengths…))` | `(raised)` -/
def hIterChunks : Handler := handler fun args =>
  match args with
  | [sz, m] => do pure (okOr ((Repart.iterChunks (← sz.toNats?) (← m.toNat?)).map SExp.ofNats))
  | _ => none

/-- `(size-nsplits (usages…) size)` ↦ `(ok (nsplits…))` | `(raised)` -/
def hSizeNsplits : Handler := handler fun args =>
  match args with
  | [us, sz] => do pure (okOr ((Repart.sizeNsplits (← us.toNats?) (← sz.toNat?)).map SExp.ofNats))
  | _ => none

/-- `(repart-size (partition lengths…) (nsplits…) (chunk lengths…))` ↦ global row positions per new partition -/
def hRepartSize : Handler := handler fun args =>
  match args with
  | [ls, ks, lens] => do
    pure (okOr ((Repart.repartitionSizeWith Repart.splitPositions (partsOfLengths (← ls.toNats?)) (← ks.toNats?)
      (← lens.toNats?)).map idsOf))
  | _ => none

/-! ## C41 -/
def optNat? : SExp → Option (Option Nat)
  | .sym "none" => some none
  | e => e.toNat?.map some

def hTruthful : Handler := handler fun args =>
  match args with
  | [d, ps] => do pure (SExp.ofBool (Divs.truthfulB (← d.toNats?) (← ps.toNatss?)))
  | _ => none

def hLocSliceDivs : Handler := handler fun args =>
  match args with
  | [d, a, b] => do
    pure (match Divs.locSlice (← d.toNats?) (← optNat? a) (← optNat? b) with
      | some pl => .list [.sym "ok", SExp.ofNat pl.start, SExp.ofNat pl.stop, SExp.ofNats pl.divisions]
      | none => .list [.sym "raised"])
  | _ => none

def hPartitionsDivs : Handler := handler fun args =>
  match args with
  | [d, sel] => do pure (okOr ((Divs.partitionsDivs (← d.toNats?) (← sel.toNats?)).map SExp.ofNats))
  | _ => none

/-- `(pandas-div-locs (sorted index keys…) (divisions…))` ↦ locations of `FromPandasDivisions` -/
def hPandasDivLocs : Handler := handler fun args =>
  match args with
  | [ks, b] => do pure (SExp.ofNats (Divs.pandasDivLocs (← ks.toNats?) (← b.toNats?)))
  | _ => none

/-- `(concat-divs d1 d2)` ↦ `(mono (divisions…))` | `(not-mono)`: `Concat._divisions` of two frames with known divisions -/
def hConcatDivs : Handler := handler fun args =>
  match args with
  | [d1, d2] => do
    let d1 ← d1.toNats?
    let d2 ← d2.toNats?
    pure (if Divs.concatMonotonic d1 d2 then .list [.sym "mono", SExp.ofNats (Divs.concatMonoDivs d1 d2)]
          else .list [.sym "not-mono"])
  | _ => none

/-! ## C40 -/
def hStageIndex : Handler := handler fun args =>
  match args with
  | [inds, st, k, np, nf, h] => do
    let st ← st.toNat?; let k ← k.toNat?; let np ← np.toNat?; let nf ← nf.toNat?; let h ← h.toBool?
    pure (SExp.ofNats ((← inds.toNats?).map fun i => Shuffle.stageIndex i st k np nf h))
  | _ => none

def hSimpleShuffle : Handler := handler fun args =>
  match args with
  | [ps, n] => do pure (idsOf (Shuffle.simpleShuffle (numberRows (← ps.toNatss?)) (← n.toNat?)))
  | _ => none

def hTaskShuffle : Handler := handler fun args =>
  match args with
  | [ps, n, k, st] => do
    pure (idsOf (Shuffle.taskShuffle (numberRows (← ps.toNatss?)) (← n.toNat?) (← k.toNat?) (← st.toNat?)))
  | _ => none

def hLayerWiring : Handler := handler fun args =>
  match args with
  | [k, st, s] => do
    pure (.list ((Shuffle.layerWiring (← k.toNat?) (← st.toNat?) (← s.toNat?)).map fun (idx, srcs) =>
      .list [SExp.ofNat idx, SExp.ofNatss srcs]))
  | _ => none

def hSetPartitionsPre : Handler := handler fun args =>
  match args with
  | [d, xs, asc, nal] => do
    let d ← d.toNats?; let asc ← asc.toBool?; let nal ← nal.toBool?
    let xs ← (← xs.toList?).mapM optNat?
    pure (SExp.ofNats (xs.map fun x => Shuffle.setPartitionsPre d x asc nal))
  | _ => none

/-! ## C38 -/
/-- partitions as lists of `(key value|none)` -/
def rowsOf? (e : SExp) : Option (List (List (Nat × Option Int))) := do
  (← e.toList?).mapM fun p => do
    (← p.toList?).mapM fun r => match r with
      | .list [k, v] => do pure (← k.toNat?, ← v.toOptInt?)
      | _ => none

def dedupNat (xs : List Nat) : List Nat := xs.foldl (fun acc x => if acc.contains x then acc else acc ++ [x]) []

/-- `(groupby agg split_every parts)` ↦ `((key state…)…)`, keys in first-appearance order; a state is
    `none` (no non-NA value) or the integers of the monoid element -/
def hGroupby : Handler := handler fun args =>
  match args with
  | [.sym agg, k, ps] => do
    let k ← k.toNat?
    let parts ← rowsOf? ps
    let keys := dedupNat (parts.flatten.map (·.1))
    let fuel := parts.length + 2
    let run1 (op : Int → Int → Int) (inj : Option Int → Option Int) : SExp :=
      let f := Groupby.treeReduce op k fuel (parts.map (Groupby.chunk op inj))
      .list (keys.map fun key => .list [SExp.ofNat key, SExp.ofOptInt (f key)])
    match agg with
    | "sum" => pure (run1 (· + ·) (fun v => some (v.getD 0)))
    | "count" => pure (run1 (· + ·) (fun v => some (if v.isSome then 1 else 0)))
    | "size" => pure (run1 (· + ·) (fun _ => some 1))
    | "min" => pure (run1 Groupby.opMin id)
    | "max" => pure (run1 Groupby.opMax id)
    | "first" => pure (run1 Groupby.opFirst id)
    | "last" => pure (run1 Groupby.opLast id)
    | "mean" =>
      let f := Groupby.treeReduce Groupby.opPair k fuel (parts.map (Groupby.chunk Groupby.opPair
        (fun (v : Option Int) => some (v.getD 0, if v.isSome then 1 else 0))))
      pure (.list (keys.map fun key => match f key with
        | some (s, c) => .list [SExp.ofNat key, .int s, .int c]
        | none => .list [SExp.ofNat key, .sym "none"]))
    | "var" =>
      let f := Groupby.treeReduce Groupby.opTriple k fuel (parts.map (Groupby.chunk Groupby.opTriple
        (fun (v : Option Int) => some (if v.isSome then 1 else 0, v.getD 0, (v.getD 0) * (v.getD 0)))))
      pure (.list (keys.map fun key => match f key with
        | some (c, s, q) => .list [SExp.ofNat key, .int c, .int s, .int q]
        | none => .list [SExp.ofNat key, .sym "none"]))
    | _ => none
  | _ => none

/-- partitions as lists of `(key value|none label)` -/
def idxRowsOf? (e : SExp) : Option (List (List (Nat × (Option Int × Int)))) := do
  (← e.toList?).mapM fun p => do
    (← p.toList?).mapM fun r => match r with
      | .list [k, v, l] => do pure (← k.toNat?, (← v.toOptInt?, ← l.toInt?))
      | _ => none

/-- `(groupby-nunique split_every parts)` ↦ `((key n)…)`: `NUnique` (chunk, combine tree, counting aggregate) and the
    specification, keys in first-appearance order: `(key model spec)` -/
def hGroupbyNunique : Handler := handler fun args =>
  match args with
  | [k, ps] => do
    let k ← k.toNat?
    let parts ← rowsOf? ps
    let keys := dedupNat (parts.flatten.map (·.1))
    let f := Groupby.nunique k (parts.length + 2) parts
    pure (.list (keys.map fun key => .list [SExp.ofNat key, SExp.ofNat (f key), SExp.ofNat (Groupby.nuniqueSpec parts.flatten key)]))
  | _ => none

/-- `(groupby-idx min|max split_every parts)` ↦ `((key current|none spec|none)…)`: the label `IdxMin`/`IdxMax` return as
    they are (idxmin chunk, `first` aggregate) and the label of the arg-min/arg-max of the whole frame -/
def hGroupbyIdx : Handler := handler fun args =>
  match args with
  | [.sym how, k, ps] => do
    let k ← k.toNat?
    let parts ← idxRowsOf? ps
    let op ← match how with
      | "min" => some Groupby.opArgmin
      | "max" => some Groupby.opArgmax
      | _ => none
    let keys := dedupNat (parts.flatten.map (·.1))
    let cur := Groupby.idxCurrent op k (parts.length + 2) parts
    let spec := Groupby.chunk op Groupby.idxInj parts.flatten
    pure (.list (keys.map fun key => .list [SExp.ofNat key, SExp.ofOptInt ((cur key).map (·.2)),
      SExp.ofOptInt ((spec key).map (·.2))]))
  | _ => none

def cumOp? (name : String) : Option ((Int → Int → Int) × Int) :=
  match name with
  | "sum" => some ((· + ·), 0)
  | "prod" => some ((· * ·), 1)
  | "count" => some (Groupby.opCount, -1)
  | _ => none

/-- `(groupby-cum sum|prod|count parts)` ↦ `((dask cells…) (global cells…))`: `GroupByCumulativeFinalizer` partition by
    partition (flattened) and the cumulative operation over the whole frame; for `count` every cell counts as 0 -/
def hGroupbyCum : Handler := handler fun args =>
  match args with
  | [.sym name, ps] => do
    let (op, e) ← cumOp? name
    let parts ← rowsOf? ps
    let parts := if name == "count" then parts.map (·.map fun r => (r.1, some (0 : Int))) else parts
    pure (.list [.list ((Groupby.cumDask op e parts).flatten.map SExp.ofOptInt),
      .list ((Groupby.cumRaw op parts.flatten).map SExp.ofOptInt)])
  | _ => none

def stOf? (e : SExp) : Option (Groupby.St × List Nat) := do
  let rows ← (← e.toList?).mapM fun r => match r with
    | .list [k, v] => do pure (← k.toNat?, ← v.toOptInt?)
    | _ => none
  pure (fun k => (rows.find? (·.1 == k)).bind (·.2), rows.map (·.1))

/-- `(cum-filled sum|prod|count a b)` with `a`, `b` = `((key value|none)…)` ↦ `((key value)…)` over the union of the keys,
    `_cum_agg_filled` with "absent = initial" made explicit -/
def hCumFilled : Handler := handler fun args =>
  match args with
  | [.sym name, a, b] => do
    let (op, e) ← cumOp? name
    let (fa, ka) ← stOf? a
    let (fb, kb) ← stOf? b
    let f := Groupby.cumFilled op e fa fb
    pure (.list ((dedupNat (ka ++ kb)).map fun k => .list [SExp.ofNat k, .int ((f k).getD e)]))
  | _ => none

/-- `(cum-aligned sum|prod|count rows carried)` ↦ cells of `_cum_agg_aligned(part, carried, …)` -/
def hCumAligned : Handler := handler fun args =>
  match args with
  | [.sym name, rows, c] => do
    let (op, e) ← cumOp? name
    let rows ← (← rowsOf? (.list [rows])).head?
    let rows := if name == "count" then rows.map fun r => (r.1, some (0 : Int)) else rows
    let (fc, _) ← stOf? c
    pure (.list ((Groupby.cumAligned op e rows fc).map SExp.ofOptInt))
  | _ => none

/-- `(tree-levels split_every n)` ↦ batch sizes of every inner level of `TreeReduce._layer` -/
def hTreeLevels : Handler := handler fun args =>
  match args with
  | [k, n] => do
    let k ← k.toNat?; let n ← n.toNat?
    pure (SExp.ofNatss (Groupby.treeLevels k (n + 2) n))
  | _ => none

/-! ## C39 -/
def pairs? (e : SExp) : Option (List (Nat × Nat)) := do
  (← e.toList?).mapM fun r => match r with
    | .list [k, v] => do pure (← k.toNat?, ← v.toNat?)
    | _ => none

def ofOut (o : Join.Out) : SExp := .list [SExp.ofNat o.1, SExp.ofOptNat o.2.1, SExp.ofOptNat o.2.2]

/-- `(join how L R)` / `(hash-join how n L R)` (identity hash) ↦ output rows `(key left? right?)` -/
def joinOf? (how : String) : Option (List Join.Row → List Join.Row → List Join.Out) :=
  match how with
  | "inner" => some Join.inner | "left" => some Join.left | "leftsemi" => some Join.leftsemi
  | "outer" => some Join.outer | "right" => some Join.right | _ => none

def hJoin : Handler := handler fun args =>
  match args with
  | [.sym how, l, r] => do pure (.list (((← joinOf? how) (← pairs? l) (← pairs? r)).map ofOut))
  | _ => none

def hHashJoin : Handler := handler fun args =>
  match args with
  | [.sym how, n, l, r] => do
    pure (.list ((Join.hashJoin (← joinOf? how) (fun k => k) (← n.toNat?) (← pairs? l) (← pairs? r)).map ofOut))
  | _ => none

/-! ## C47 -/
/-- `(csv-parts (bytes…) bs|none)` ↦ `(ok ((row…)…))` rows (byte lists) per partition -/
def hCsvParts : Handler := handler fun args =>
  match args with
  | [d, b] => do
    let r := Csv.readCsvParts (← d.toNats?) (← optNat? b)
    pure (okOr (r.map fun parts => .list (parts.map SExp.ofNatss)))
  | _ => none

def table : List (String × Handler) := [("sdl", hSdl), ("sdl-stats", hSdlStats), ("groupby", hGroupby), ("groupby-nunique", hGroupbyNunique), ("groupby-idx", hGroupbyIdx), ("groupby-cum", hGroupbyCum),
  ("cum-filled", hCumFilled), ("cum-aligned", hCumAligned), ("tree-levels", hTreeLevels), ("csv-parts", hCsvParts), ("join", hJoin), ("hash-join", hHashJoin),
  ("stage-index", hStageIndex), ("simple-shuffle", hSimpleShuffle), ("task-shuffle", hTaskShuffle),
  ("layer-wiring", hLayerWiring), ("set-partitions-pre", hSetPartitionsPre),
  ("truthful", hTruthful), ("locslice-divs", hLocSliceDivs), ("partitions-divs", hPartitionsDivs), ("concat-divs", hConcatDivs), ("pandas-div-locs", hPandasDivLocs),
  ("tofewer-bounds", hToFewerBounds), ("split-positions", hSplitPositions), ("nsplits", hNsplits),
  ("lower-kind", hLowerKind), ("div-layer", hDivLayer), ("div-layer-ok", hDivLayerOK), ("repart-divs", hRepartDivs),
  ("tofewer", hToFewer), ("tomore", hToMore),
  ("iter-chunks", hIterChunks), ("size-nsplits", hSizeNsplits), ("repart-size", hRepartSize)] ++ Dask.CsvOpts.handlers ++ Dask.MergeAsof.handlers ++ Dask.Align.handlers ++ Dask.MergePlan.handlers ++ Dask.SortValuesIO.handlers ++ Dask.PQ.handlers ++ Dask.GroupbyX.handlers ++ Dask.AlignDivs.handlers ++ Dask.LocList.handlers ++ Dask.FPU.handlers

def main : IO Unit := runDriver table
