import DaskModel.DriverLib
import DaskModel.Model.SDL
open Dask

/-- `(sdl (seq…) npartitions n)` / `(sdl (seq…) chunksize c)` ↦ `(ok (divisions…) (locations…))` | `(raised)` -/
def hSdl : Handler := handler fun args =>
  match args with
  | [seq, .sym mode, n] => do
    let seq ← seq.toNats?
    let n ← n.toNat?
    let m ← match mode with
      | "npartitions" => some (SDL.Mode.npartitions n)
      | "chunksize" => some (SDL.Mode.chunksize n)
      | _ => none
    match SDL.sdl seq m with
    | some (d, l) => pure (.list [.sym "ok", SExp.ofNats d, SExp.ofNats l])
    | none => pure (.list [.sym "raised"])
  | _ => none

def table : List (String × Handler) := [("sdl", hSdl)]

def main : IO Unit := runDriver table
