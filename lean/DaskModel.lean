-- Root of the `DaskModel` library. Property theorem modules are built by name
-- (`lake build DaskModel.Props.Cnn`); this root only pulls in the shared infrastructure.
import DaskModel.Sexp
import DaskModel.DriverLib
