# fuzz: optimization functions preserve values (C09), order (C06), schedulers (C01)
import random, sys, itertools, dask
from dask.core import get as core_get, flatten
from dask.optimization import cull, inline, inline_functions, fuse_linear, fuse
from dask.order import order
from dask.local import get_sync
from dask.threaded import get as tget
rnd=random.Random(int(sys.argv[1]) if len(sys.argv)>1 else 0)
def add(*a): return ('add',)+a
def inc(x): return ('inc',x)
def ident(x): return x
def gen(n):
    dsk={}
    for i in range(n):
        k=f'k{i}'
        prev=[f'k{j}' for j in range(i)]
        t=rnd.random()
        if not prev or t<0.15: dsk[k]=rnd.choice([i, (inc,i), f'lit{i}', [i,i+1]])
        elif t<0.3: dsk[k]=rnd.choice(prev)   # alias
        elif t<0.4: dsk[k]=[rnd.choice(prev) for _ in range(rnd.randint(1,3))]
        else:
            args=[]
            for _ in range(rnd.randint(1,3)):
                u=rnd.random()
                if u<0.6: args.append(rnd.choice(prev))
                elif u<0.7: args.append((inc,rnd.choice(prev)))
                elif u<0.8: args.append([rnd.choice(prev),7])
                elif u<0.85: args.append({'a':rnd.choice(prev)})
                else: args.append(rnd.randint(0,3))
            dsk[k]=(rnd.choice([add,inc,ident]) if len(args)==1 else add,)+tuple(args)
    return dsk
bad={}
def rec(tag,info):
    bad.setdefault(tag,[])
    if len(bad[tag])<3: bad[tag].append(info)
for it in range(3000):
    n=rnd.randint(1,7); dsk=gen(n)
    keys=rnd.sample(list(dsk),rnd.randint(1,n))
    try: ref=core_get(dsk,keys)
    except Exception as e: rec('refexc',(dsk,keys,repr(e)[:80])); continue
    # order
    try:
        o=order(dsk)
        if set(o)!=set(dsk) or len(set(o.values()))!=len(o): rec('order',(dsk,o))
    except Exception as e: rec('orderexc',(dsk,repr(e)[:80]))
    def chk(tag,g):
        try:
            r=core_get(g,keys)
            if r!=ref: rec(tag,(dsk,keys,g,r,ref))
        except Exception as e: rec(tag+'exc',(dsk,keys,g,repr(e)[:100]))
    try:
        c,deps=cull(dsk,keys); chk('cull',c)
        chk('inline',inline(dsk,[k for k in dsk if rnd.random()<0.4 and k not in keys]))
        chk('inline_all',inline(dsk,[k for k in dsk if k not in keys], inline_constants=True))
        chk('inlinef',inline_functions(dsk,keys,[inc]))
        for rk in (True,False):
            g,d2=fuse_linear(dsk,keys=keys,rename_keys=rk); chk('fuse_linear%s'%rk,g)
            from dask.core import get_dependencies
            for k in g:
                if set(get_dependencies(g,k))!=set(d2.get(k,())): rec('fuse_linear_deps',(dsk,keys,g,d2)); break
        for aw in (1,2,3,float('inf')):
            for rk in (True,False):
                g,d2=fuse(dsk,keys=keys,ave_width=aw,rename_keys=rk,max_height=rnd.choice([None,1,2,5]),max_width=rnd.choice([None,1,2,3]),max_depth_new_edges=rnd.choice([None,0,1,3]))
                chk('fuse',g)
                for k in g:
                    if set(get_dependencies(g,k))!=set(d2.get(k,())): rec('fuse_deps',(dsk,keys,g,d2)); break
        g,d2=fuse(dsk,ave_width=2)  # keys None
        try:
            if core_get(g,keys)!=ref: rec('fuse_nokeys',(dsk,keys,g))
        except Exception as e: rec('fuse_nokeys_exc',(dsk,keys,g,repr(e)[:80]))
    except Exception as e:
        rec('optexc',(dsk,keys,repr(e)[:120]))
    if it%10==0:
        for getter,nm in ((get_sync,'sync'),(tget,'thr')):
            try:
                r=getter(dsk,keys)
                if tuple(r)!=tuple(ref): rec('sched'+nm,(dsk,keys,r,ref))
            except Exception as e: rec('schedexc'+nm,(dsk,keys,repr(e)[:80]))
print({k:len(v) for k,v in bad.items()})
for k,v in bad.items():
    for i in v: print(k,i)
