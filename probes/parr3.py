import numpy as np, dask, dask.array as da, itertools, random, sys, warnings
warnings.filterwarnings('ignore')
dask.config.set(scheduler='sync')
rnd = random.Random(int(sys.argv[1]) if len(sys.argv)>1 else 0)
def comps(n):
    if n==0: return [(0,)]
    out=[]
    for k in range(1<<(n-1)):
        c=[];cur=1
        for b in range(n-1):
            if k>>b&1: c.append(cur);cur=1
            else: cur+=1
        c.append(cur); out.append(tuple(c))
    return out
bad={}
def rec(tag, info):
    bad.setdefault(tag,[])
    if len(bad[tag])<3: bad[tag].append(info)
def rarr(maxd=3,maxn=5,minn=1,dt=int):
    nd=rnd.randint(1,maxd); sh=tuple(rnd.randint(minn,maxn) for _ in range(nd))
    x=(np.arange(int(np.prod(sh)))*3%7).reshape(sh).astype(dt)
    ch=tuple(rnd.choice(comps(s)) for s in sh)
    return x,da.from_array(x,chunks=ch),ch
def eq(a,b):
    a=np.asarray(a);b=np.asarray(b)
    return a.shape==b.shape and a.dtype==b.dtype and np.array_equal(a,b,equal_nan=True)
from dask.array.core import normalize_chunks
for it in range(1500):
    t=rnd.randrange(14)
    try:
        if t==0: # normalize_chunks
            nd=rnd.randint(1,3); sh=tuple(rnd.randint(0,20) for _ in range(nd))
            spec=rnd.choice(['int','tuple','auto','dict','bytes','mixed'])
            if spec=='int': ch=rnd.randint(1,7)
            elif spec=='tuple': ch=tuple(rnd.choice([rnd.randint(1,7),-1,None,'auto']) for _ in sh)
            elif spec=='auto': ch='auto'
            elif spec=='dict': ch={i:rnd.choice([rnd.randint(1,7),-1,'auto']) for i in range(nd) if rnd.random()<0.7}
            elif spec=='bytes': ch=rnd.choice(['16B','64B','1kiB'])
            else: ch=tuple(rnd.choice([rnd.randint(1,7),'auto']) for _ in sh)
            lim=rnd.choice([None,8,64,200]); prev=tuple(rnd.choice(comps(s)) for s in sh) if rnd.random()<0.5 else None
            try: r=normalize_chunks(ch,sh,limit=lim,dtype=np.dtype('i4'),previous_chunks=prev)
            except (ValueError,NotImplementedError,TypeError) as e:
                if spec in('int','auto','bytes') : rec('nc_exc',(ch,sh,lim,prev,repr(e)[:80]))
                continue
            ok=len(r)==nd and all(sum(c)==s and (all(x>0 for x in c) or c==(0,)) for c,s in zip(r,sh))
            if not ok: rec('normalize',(ch,sh,lim,prev,r))
            if spec in('auto','bytes') and all(s>0 for s in sh):
                L=lim if spec=='auto' else {'16B':16,'64B':64,'1kiB':1024}[ch]
                if L is not None and L>=4:
                    mx=4*int(np.prod([max(c) for c in r]))
                    if mx>L: rec('autolimit',(ch,sh,lim,prev,r,mx))
        elif t==1: # elemwise broadcasting
            x,d,ch=rarr(); y,e,ch2=rarr()
            try: ex=x+y*2
            except ValueError: continue
            r=d+e*2
            if not eq(r.compute(),ex): rec('elem',(x.shape,ch,y.shape,ch2))
            r=da.where(d>2,d,e)
            if not eq(r.compute(),np.where(x>2,x,y)): rec('where',(x.shape,ch,y.shape,ch2))
        elif t==2: # unique/bincount/histogram
            v=np.array([rnd.randint(0,5) for _ in range(rnd.randint(1,12))]); dv=da.from_array(v,chunks=(rnd.choice(comps(len(v))),))
            u,ind,inv,cnt=da.unique(dv,return_index=True,return_inverse=True,return_counts=True); eu,eind,einv,ecnt=np.unique(v,return_index=True,return_inverse=True,return_counts=True)
            u,ind,inv,cnt=dask.compute(u,ind,inv,cnt)
            if not(eq(u,eu) and np.array_equal(ind,eind) and np.array_equal(inv,einv) and np.array_equal(cnt,ecnt)): rec('unique',(v.tolist(),dv.chunks,ind.tolist(),eind.tolist(),inv.tolist(),einv.tolist()))
            ml=rnd.randint(0,8)
            if not np.array_equal(da.bincount(dv,minlength=ml).compute(),np.bincount(v,minlength=ml)): rec('bincount',(v.tolist(),dv.chunks,ml))
            bins=sorted(set(rnd.randint(0,6) for _ in range(4)))
            if len(bins)>=2:
                h,b=da.histogram(dv,bins=bins); eh,eb=np.histogram(v,bins=bins)
                if not np.array_equal(h.compute(),eh): rec('hist',(v.tolist(),bins))
                if not np.array_equal(da.digitize(dv,np.array(bins)).compute(),np.digitize(v,bins)): rec('digitize',(v.tolist(),bins))
            s=np.sort(v); ds=da.from_array(s,chunks=dv.chunks)
            q=np.array([rnd.randint(-1,7) for _ in range(4)]); dq=da.from_array(q,chunks=2)
            for side in('left','right'):
                if not np.array_equal(da.searchsorted(ds,dq,side=side).compute(),np.searchsorted(s,q,side=side)): rec('searchsorted',(s.tolist(),ds.chunks,q.tolist(),side))
            if not np.array_equal(da.isin(dv,[1,3]).compute(),np.isin(v,[1,3])): rec('isin',())
        elif t==3: # nonzero/argwhere/count_nonzero
            x,d,ch=rarr()
            x=(x%3==0)*x; d=da.from_array(x,chunks=ch)
            if not np.array_equal(da.argwhere(d).compute(),np.argwhere(x)): rec('argwhere',(x.tolist(),ch))
            if not np.array_equal(da.flatnonzero(d).compute(),np.flatnonzero(x)): rec('flatnonzero',(x.tolist(),ch))
            ax=rnd.choice([None]+list(range(x.ndim)))
            if not np.array_equal(da.count_nonzero(d,axis=ax).compute(),np.count_nonzero(x,axis=ax)): rec('count_nonzero',(x.shape,ch,ax))
        elif t==4: # arange/linspace
            st=rnd.choice([0,1,-3,2.5,0.1]); sp=rnd.choice([5,10,-4,7.3,1.0]); step=rnd.choice([1,2,-1,0.5,0.1,0.3,-0.7,3])
            try: e=np.arange(st,sp,step)
            except Exception: continue
            cs=rnd.randint(1,5)
            r=da.arange(st,sp,step,chunks=cs)
            g=r.compute()
            if g.shape!=e.shape or not np.allclose(g,e) or g.dtype!=e.dtype or sum(r.chunks[0])!=len(e): rec('arange',(st,sp,step,cs,g.tolist(),e.tolist()))
            num=rnd.randint(0,9); ep=rnd.choice([True,False])
            e=np.linspace(st,sp,num,endpoint=ep); r=da.linspace(st,sp,num,endpoint=ep,chunks=cs); g=r.compute()
            if g.shape!=e.shape or not np.allclose(g,e): rec('linspace',(st,sp,num,ep,cs,g.tolist(),e.tolist()))
        elif t==5: # eye/diag/tri
            n=rnd.randint(1,6); m=rnd.choice([None,rnd.randint(1,6)]); k=rnd.randint(-4,4); cs=rnd.randint(1,4)
            if not eq(da.eye(n,chunks=cs,M=m,k=k).compute(),np.eye(n,M=m,k=k)): rec('eye',(n,m,k,cs))
            if not eq(da.tri(n,m,k,chunks=cs).compute(),np.tri(n,m,k)): rec('tri',(n,m,k,cs))
            x,d,ch=rarr(maxd=2)
            try: e=np.diag(x,k)
            except Exception: continue
            if not eq(da.diag(d,k).compute(),e): rec('diag',(x.shape,ch,k))
            if x.ndim==2:
                if not eq(da.diagonal(d,offset=k).compute(),np.diagonal(x,offset=k)): rec('diagonal',(x.shape,ch,k))
        elif t==6: # store
            x,d,ch=rarr()
            big=tuple(s+rnd.randint(0,3) for s in x.shape); off=tuple(rnd.randint(0,b-s) for b,s in zip(big,x.shape))
            tgt=np.full(big,-9); region=tuple(slice(o,o+s) for o,s in zip(off,x.shape))
            lock=rnd.choice([True,False]); comp=rnd.choice([True,False])
            r=da.store(d,tgt,regions=region,lock=lock,compute=comp)
            if not comp: dask.compute(r)
            exp=np.full(big,-9); exp[region]=x
            if not np.array_equal(tgt,exp): rec('store',(x.shape,ch,big,off,lock,comp))
        elif t==7: # map_blocks block_info
            x,d,ch=rarr()
            seen=[]
            def f(b,block_info=None,block_id=None):
                bi=block_info[0]
                sl=tuple(slice(a,c) for a,c in bi['array-location'])
                ok=np.array_equal(b,x[sl]) and bi['chunk-location']==block_id and bi['shape']==x.shape and bi['num-chunks']==tuple(len(c) for c in ch)
                seen.append((block_id,ok))
                return b
            r=d.map_blocks(f,dtype=x.dtype).compute()
            ids=[s[0] for s in seen]
            nb=int(np.prod([len(c) for c in ch]))
            if not all(s[1] for s in seen) : rec('block_info',(x.shape,ch,seen))
            if len(set(ids))!=nb or len(ids)!=nb: rec('block_calls',(x.shape,ch,len(ids),nb))
        elif t==8: # tensordot / einsum / matmul
            a,da_,ch=rarr(maxd=2,dt=float); b,db_,ch2=rarr(maxd=2,dt=float)
            if a.ndim==2 and b.ndim==2 and a.shape[1]==b.shape[0]:
                pass
            else:
                b=np.arange(a.shape[-1]*3,dtype=float).reshape(a.shape[-1],3); db_=da.from_array(b,chunks=(rnd.choice(comps(a.shape[-1])),rnd.choice(comps(3))))
            db_=db_.rechunk({0:da_.chunks[-1]}) if rnd.random()<0.5 else db_
            if not np.allclose((da_@db_).compute(),a@b): rec('matmul',(a.shape,da_.chunks,b.shape,db_.chunks))
            if not np.allclose(da.tensordot(da_,db_,axes=1).compute(),np.tensordot(a,b,axes=1)): rec('tensordot',(a.shape,da_.chunks,b.shape,db_.chunks))
            if a.ndim==2:
                if not np.allclose(da.einsum('ij,jk->ik',da_,db_).compute(),np.einsum('ij,jk->ik',a,b)): rec('einsum',())
                if not np.allclose(da.einsum('ij,jk->ki',da_,db_).compute(),np.einsum('ij,jk->ki',a,b)): rec('einsum2',())
        elif t==9: # masked
            x,d,ch=rarr(dt=float); m=(np.arange(x.size).reshape(x.shape)*5%3==0)
            mx=np.ma.masked_array(x,mask=m); dm=da.ma.masked_array(d,mask=da.from_array(m,chunks=ch))
            ax=rnd.choice([None]+list(range(x.ndim)))
            for nm in('sum','mean','min','max','count'):
                g=getattr(dm,nm)(axis=ax).compute() if nm!='count' else da.ma.count(dm,axis=ax).compute()
                e=getattr(mx,nm)(axis=ax) if nm!='count' else np.ma.count(mx,axis=ax)
                if not np.array_equal(np.ma.getmaskarray(g),np.ma.getmaskarray(e)) or not np.allclose(np.ma.filled(g,0),np.ma.filled(e,0)): rec('ma_'+nm,(x.shape,ch,ax))
            g=da.ma.filled(dm+1,-1).compute(); e=np.ma.filled(mx+1,-1)
            if not np.array_equal(g,e): rec('ma_filled',(x.shape,ch))
            g=da.ma.masked_where(d>3,d).compute(); e=np.ma.masked_where(x>3,x)
            if not np.array_equal(np.ma.getmaskarray(g),np.ma.getmaskarray(e)): rec('ma_where',())
        elif t==10: # topk / argtopk
            v=np.array(rnd.sample(range(30),rnd.randint(1,10))); dv=da.from_array(v,chunks=(rnd.choice(comps(len(v))),)); k=rnd.choice([1,2,3,-1,-2])
            if abs(k)<=len(v):
                e=np.sort(v)[::-1][:k] if k>0 else np.sort(v)[:-k]
                if not np.array_equal(da.topk(dv,k,split_every=rnd.choice([2,3,None])).compute(),e): rec('topk',(v.tolist(),dv.chunks,k))
                g=da.argtopk(dv,k).compute()
                if not np.array_equal(v[g],e): rec('argtopk',(v.tolist(),dv.chunks,k,g.tolist()))
        elif t==11: # coarsen, squeeze, expand_dims, stack, block
            x,d,ch=rarr()
            g=da.stack([d,d+1],axis=rnd.randint(0,x.ndim)).compute()
            ax=rnd.randint(0,x.ndim)
            if not eq(da.stack([d,d+1],axis=ax).compute(),np.stack([x,x+1],axis=ax)): rec('stack',(x.shape,ch,ax))
            if not eq(da.expand_dims(d,ax).compute(),np.expand_dims(x,ax)): rec('expand_dims',())
            if not eq(da.block([[d,d]] if x.ndim>=2 else [d,d]).compute(),np.block([[x,x]] if x.ndim>=2 else [x,x])): rec('block',(x.shape,ch))
            tgt=tuple(rnd.choice([s]+[1]) for s in x.shape)
            try:
                e=np.broadcast_to(x[tuple(slice(0,1) if t_==1 else slice(None) for t_ in tgt)],x.shape)
                src=d[tuple(slice(0,1) if t_==1 else slice(None) for t_ in tgt)]
                if not eq(da.broadcast_to(src,x.shape).compute(),e): rec('broadcast_to',(x.shape,ch,tgt))
            except Exception as ex: rec('bcast_exc',(repr(ex)[:80],))
        elif t==12: # vindex, bool index
            x,d,ch=rarr(maxd=2)
            if x.ndim==2:
                n=rnd.randint(1,5); i0=[rnd.randrange(-x.shape[0],x.shape[0]) for _ in range(n)]; i1=[rnd.randrange(-x.shape[1],x.shape[1]) for _ in range(n)]
                if not eq(d.vindex[i0,i1].compute(),x[i0,i1]): rec('vindex',(x.shape,ch,i0,i1))
            m=x%2==0
            if not eq(d[m].compute(),x[m]): rec('boolidx',(x.shape,ch))
            dm=da.from_array(m,chunks=ch)
            if not eq(d[dm].compute(),x[m]): rec('boolidx_dask',(x.shape,ch))
            if not eq(da.compress(m.ravel()[:x.shape[0]].astype(bool),d,axis=0).compute(),np.compress(m.ravel()[:x.shape[0]].astype(bool),x,axis=0)): rec('compress',())
        elif t==13: # random reproducibility
            seed=rnd.randint(0,99); sh=(rnd.randint(1,6),rnd.randint(1,5)); cs=(rnd.randint(1,3),rnd.randint(1,3))
            a=da.random.default_rng(seed).normal(size=sh,chunks=cs); b=da.random.default_rng(seed).normal(size=sh,chunks=cs)
            if not np.array_equal(a.compute(),b.compute(scheduler='threads')): rec('rng_seed',(seed,sh,cs))
            u1=da.random.random(sh,chunks=cs); u2=da.random.random(sh,chunks=cs)
            r1,r2=dask.compute(u1,u2)
            if u1.name==u2.name or np.array_equal(r1,r2): rec('rng_unseeded',())
            if not np.array_equal(r1,u1.compute()): rec('rng_recompute',())
            rs1=da.random.RandomState(seed).randint(0,10,size=sh,chunks=cs).compute(); rs2=da.random.RandomState(seed).randint(0,10,size=sh,chunks=cs).compute(scheduler='threads')
            if not np.array_equal(rs1,rs2): rec('rs_seed',())
    except Exception as e:
        import traceback
        rec('exc%d'%t,(repr(e)[:150],traceback.format_exc().splitlines()[-3][:120]))
print({k:len(v) for k,v in bad.items()})
for k,v in bad.items():
    for i in v: print(k,str(i)[:500])
