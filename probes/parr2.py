import numpy as np, dask, dask.array as da, itertools, random, sys, warnings
warnings.filterwarnings('ignore')
dask.config.set(scheduler='sync')
rnd = random.Random(int(sys.argv[1]) if len(sys.argv)>1 else 0)
def comps(n):
    if n==0: return [(0,)]
    out=[]
    for k in range(1<<(n-1)):
        c=[];cur=1
        for b in range(n-1):
            if k>>b&1: c.append(cur);cur=1
            else: cur+=1
        c.append(cur); out.append(tuple(c))
    return out
bad={}
def rec(tag, info):
    bad.setdefault(tag,[])
    if len(bad[tag])<3: bad[tag].append(info)
def rarr(maxd=3,maxn=5):
    nd=rnd.randint(1,maxd); sh=tuple(rnd.randint(1,maxn) for _ in range(nd))
    x=np.arange(int(np.prod(sh))).reshape(sh)
    ch=tuple(rnd.choice(comps(s)) for s in sh)
    return x,da.from_array(x,chunks=ch),ch
def eq(a,b):
    a=np.asarray(a);b=np.asarray(b)
    return a.shape==b.shape and a.dtype==b.dtype and np.array_equal(a,b,equal_nan=True)
def blocks_ok(r):
    # each block shape matches chunks
    try:
        for idx in itertools.product(*[range(len(c)) for c in r.chunks]):
            b=r.blocks[idx].compute()
            if b.shape!=tuple(c[i] for c,i in zip(r.chunks,idx)): return False
        return True
    except Exception as e: return 'exc '+repr(e)[:60]
ops=0
for it in range(1500):
    x,d,ch=rarr()
    t=rnd.randrange(16)
    try:
        if t==0: # rechunk
            tgt=tuple(rnd.choice(comps(s)) for s in x.shape)
            r=d.rechunk(tgt, threshold=rnd.choice([None,1,2]), block_size_limit=rnd.choice([None,8,64]))
            if r.chunks!=tgt or not eq(r.compute(),x): rec('rechunk',(ch,tgt,r.chunks))
        elif t==1: # reshape
            n=x.size; divs=[k for k in range(1,n+1) if n%k==0]; a=rnd.choice(divs)
            tgt=rnd.choice([(a,n//a),(n,),(-1,a),(a,-1,1)])
            for mc in (True,False):
                r=d.reshape(tgt,merge_chunks=mc); e=x.reshape(tgt)
                if not eq(r.compute(),e) or blocks_ok(r) is not True: rec('reshape',(x.shape,ch,tgt,mc,r.chunks,blocks_ok(r)))
        elif t==2:
            ax=tuple(rnd.sample(range(x.ndim),x.ndim)); r=d.transpose(ax)
            if not eq(r.compute(),x.transpose(ax)) or blocks_ok(r) is not True: rec('transpose',(x.shape,ch,ax))
        elif t==3:
            y,e2,ch2=rarr(); 
            if y.ndim!=x.ndim: continue
            ax=rnd.randrange(x.ndim)
            if any(a!=b for i,(a,b) in enumerate(zip(x.shape,y.shape)) if i!=ax): continue
            r=da.concatenate([d,e2],axis=ax)
            if not eq(r.compute(),np.concatenate([x,y],axis=ax)) or blocks_ok(r) is not True: rec('concat',(x.shape,ch,y.shape,ch2,ax))
        elif t==4:
            ax=rnd.randrange(x.ndim); r=da.flip(d,ax)
            if not eq(r.compute(),np.flip(x,ax)): rec('flip',(x.shape,ch,ax))
        elif t==5:
            sh=rnd.randint(-7,7); ax=rnd.choice([None]+list(range(x.ndim))); r=da.roll(d,sh,ax)
            if not eq(r.compute(),np.roll(x,sh,ax)) or blocks_ok(r) is not True: rec('roll',(x.shape,ch,sh,ax))
        elif t==6:
            pw=tuple((rnd.randint(0,3),rnd.randint(0,3)) for _ in x.shape); mode=rnd.choice(['constant','edge','reflect','symmetric','wrap','linear_ramp','maximum','mean','minimum'])
            try: e=np.pad(x,pw,mode=mode)
            except Exception: continue
            r=da.pad(d,pw,mode=mode)
            if not np.array_equal(r.compute(),e) or blocks_ok(r) is not True: rec('pad',(x.shape,ch,pw,mode,r.compute().tolist(),e.tolist()))
        elif t==7:
            rep=rnd.randint(0,3); ax=rnd.randrange(x.ndim); r=da.repeat(d,rep,axis=ax)
            if not eq(r.compute(),np.repeat(x,rep,axis=ax)) or blocks_ok(r) is not True: rec('repeat',(x.shape,ch,rep,ax))
        elif t==8:
            reps=tuple(rnd.randint(0,2) for _ in range(rnd.randint(1,3))); r=da.tile(d,reps)
            if not eq(r.compute(),np.tile(x,reps)): rec('tile',(x.shape,ch,reps))
        elif t==9:
            if x.ndim<2: continue
            k=rnd.randint(-3,3); 
            if not eq(da.tril(d,k).compute(),np.tril(x,k)) or not eq(da.triu(d,k).compute(),np.triu(x,k)): rec('tril',(x.shape,ch,k))
        elif t==10:
            ax=rnd.randrange(x.ndim); n=rnd.randint(0,3); r=da.diff(d,n=n,axis=ax)
            if not eq(r.compute(),np.diff(x,n=n,axis=ax)) or blocks_ok(r) is not True: rec('diff',(x.shape,ch,n,ax))
        elif t==11: # overlap trim identity + map_overlap stencil
            depth={i:rnd.randint(0,2) for i in range(x.ndim)}
            bnd=rnd.choice(['none','periodic','reflect','nearest',0])
            from dask.array.overlap import overlap, trim_internal
            try:
                g=overlap(d,depth,bnd); r=trim_internal(g,depth,bnd)
                if not eq(r.compute(),x): rec('overlap_trim',(x.shape,ch,depth,bnd))
            except Exception as e: rec('overlapexc',(x.shape,ch,depth,bnd,repr(e)[:80]))
        elif t==12:
            dep=rnd.randint(0,2); bnd=rnd.choice(['periodic','reflect','nearest',0]); ax=rnd.randrange(x.ndim)
            xf=x.astype(float); df=d.astype(float)
            def sten(a): 
                return sum(np.roll(a,s,axis=ax)*(s+3) for s in range(-dep,dep+1))
            mode={'periodic':'wrap','reflect':'symmetric','nearest':'edge',0:'constant'}[bnd]
            pw=[(0,0)]*x.ndim; pw[ax]=(dep,dep)
            e=sten(np.pad(xf,pw,mode=mode))
            sl=[slice(None)]*x.ndim; sl[ax]=slice(dep,e.shape[ax]-dep); e=e[tuple(sl)]
            try:
                r=df.map_overlap(sten,depth={ax:dep},boundary={ax:bnd},dtype=float)
                if not np.allclose(r.compute(),e): rec('map_overlap',(x.shape,ch,dep,bnd,ax))
            except Exception as ex: rec('mapoverlapexc',(x.shape,ch,dep,bnd,ax,repr(ex)[:80]))
        elif t==13:
            idx=[rnd.randrange(-x.shape[0],x.shape[0]) for _ in range(rnd.randint(1,6))]
            r=d[idx]
            if not eq(r.compute(),x[idx]) or blocks_ok(r) is not True: rec('take',(x.shape,ch,idx,r.chunks))
            r=da.take(d,idx,axis=x.ndim-1)
            idx2=[i% x.shape[-1] for i in idx]
        elif t==14:
            ax=rnd.choice([None]+list(range(x.ndim))); kd=rnd.random()<0.5
            for nm in ('sum','max','argmax','mean','std','any'):
                if nm=='argmax' and kd and ax is None: continue
                r=getattr(d,nm)(axis=ax,keepdims=kd,split_every=rnd.choice([2,3,None])) 
                e=getattr(x,nm)(axis=ax,keepdims=kd)
                if not np.allclose(r.compute(),e) or np.shape(r.compute())!=np.shape(e): rec('red_nd',(nm,x.shape,ch,ax,kd))
            if ax is not None:
                for meth in ('sequential','blelloch'):
                    r=da.cumsum(d,axis=ax,method=meth)
                    if not eq(r.compute(),np.cumsum(x,axis=ax)): rec('cumsum_nd',(x.shape,ch,ax,meth))
        elif t==15:
            q=sorted(rnd.sample(range(0,101),rnd.randint(1,5))); 
            if rnd.random()<0.5: q=[0]+q+[100]
            v=np.array([rnd.randint(0,9) for _ in range(rnd.randint(1,12))]).astype(float)
            dv=da.from_array(v,chunks=(rnd.choice(comps(len(v))),))
            for m in ('linear','lower','higher','nearest','midpoint'):
                r=da.percentile(dv,q,method=m).compute()
                if (r<v.min()-1e-9).any() or (r>v.max()+1e-9).any() or (np.diff(r)< -1e-9).any(): rec('pct',(v.tolist(),dv.chunks,q,m,r.tolist()))
                if 0 in q and abs(r[0]-v.min())>1e-9 or 100 in q and abs(r[-1]-v.max())>1e-9: rec('pct0100',(v.tolist(),dv.chunks,q,m,r.tolist()))
        ops+=1
    except Exception as e:
        rec('exc%d'%t,(x.shape,ch,repr(e)[:120]))
print(ops,{k:len(v) for k,v in bad.items()})
for k,v in bad.items():
    for i in v: print(k,i)
