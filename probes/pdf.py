import pandas as pd, numpy as np, sys, random, warnings, traceback
sys.path.insert(0,''+__import__('os').path.join(__import__('os').path.dirname(__import__('os').path.abspath(__file__)),'stub')+'')
import dask
dask.config.set({'dataframe.convert-string': False, 'scheduler':'sync'})
import dask.dataframe as dd
warnings.filterwarnings('ignore')
rnd=random.Random(int(sys.argv[1]) if len(sys.argv)>1 else 0)
only=sys.argv[2].split(',') if len(sys.argv)>2 else None
bad={}
def rec(tag,info):
    bad.setdefault(tag,[])
    if len(bad[tag])<3: bad[tag].append(info)
def mkdf(n=None, uniq=None):
    n=rnd.randint(1,14) if n is None else n
    if uniq is None: uniq=rnd.random()<0.5
    idx=sorted(rnd.sample(range(30),n)) if uniq else sorted(rnd.randint(0,6) for _ in range(n))
    df=pd.DataFrame({'a':[rnd.randint(0,4) for _ in range(n)],
                     'b':[rnd.choice([1.5,2.0,-1.0,np.nan,3.25]) for _ in range(n)],
                     'c':[rnd.choice(['x','y','z']) for _ in range(n)]}, index=idx)
    return df
def mkdd(df):
    t=rnd.random()
    if t<0.6: return dd.from_pandas(df,npartitions=rnd.randint(1,5))
    if t<0.8: return dd.from_pandas(df,chunksize=rnd.randint(1,5))
    return dd.from_pandas(df,npartitions=rnd.randint(1,5),sort=False)
def same(got,exp,order=True,tag=''):
    try:
        if isinstance(exp,(pd.DataFrame,pd.Series)):
            if not order:
                if isinstance(exp,pd.DataFrame):
                    got=got.sort_values(list(got.columns)).reset_index(drop=True); exp=exp.sort_values(list(exp.columns)).reset_index(drop=True)
                else:
                    got=got.sort_index(); exp=exp.sort_index()
            if isinstance(exp,pd.DataFrame): pd.testing.assert_frame_equal(got,exp,check_dtype=False,check_index_type=False, check_freq=False)
            else: pd.testing.assert_series_equal(got,exp,check_dtype=False,check_index_type=False,check_names=True, check_freq=False)
            return True
        if isinstance(exp,float) and np.isnan(exp): return isinstance(got,float) and np.isnan(got)
        return bool(np.isclose(got,exp)) if isinstance(exp,(float,np.floating)) else got==exp
    except AssertionError as e:
        return False
def divs_ok(d):
    if not d.known_divisions: return True
    dv=d.divisions
    if len(dv)!=d.npartitions+1: return False
    for i in range(d.npartitions):
        p=d.get_partition(i).compute()
        if len(p)==0: continue
        lo,hi=p.index.min(),p.index.max()
        if lo<dv[i]: return False
        if i<d.npartitions-1 and not hi<dv[i+1]: return False
        if i==d.npartitions-1 and not hi<=dv[i+1]: return False
    return True
tests=['elem','filter','red','groupby','merge','sort','setindex','repart','cum','roll','shift','loc','concat','dedup','vc','divs']
for it in range(int(sys.argv[3]) if len(sys.argv)>3 else 400):
    t=rnd.choice(only or tests)
    df=mkdf(); d=mkdd(df)
    try:
        if t=='elem':
            g=(d.a+d.b*2).compute(); e=df.a+df.b*2
            if not same(g,e): rec(t,(df.to_dict(),d.npartitions))
            g=d.assign(z=d.a+1)[['z','c']].compute(); e=df.assign(z=df.a+1)[['z','c']]
            if not same(g,e): rec(t+'2',(df.to_dict(),d.npartitions))
            g=d.b.fillna(0).clip(0,2).compute(); e=df.b.fillna(0).clip(0,2)
            if not same(g,e): rec(t+'3',(df.to_dict(),))
            g=d.where(d.a>1, -1).compute() if False else None
            g=d.a.isin([1,2]).compute(); e=df.a.isin([1,2])
            if not same(g,e): rec(t+'4',(df.to_dict(),))
        elif t=='filter':
            g=d[d.a>1].b.compute(); e=df[df.a>1].b
            if not same(g,e): rec(t,(df.to_dict(),d.npartitions))
            g=d[(d.a>1)&(d.c=='x')][['c','a']].compute(); e=df[(df.a>1)&(df.c=='x')][['c','a']]
            if not same(g,e): rec(t+'2',(df.to_dict(),d.npartitions))
        elif t=='red':
            se=rnd.choice([2,3,False,None])
            for nm in ('sum','min','max','mean','var','std','count','prod','sem'):
                g=getattr(d.b,nm)(split_every=se).compute(); e=getattr(df.b,nm)()
                if not same(float(g),float(e)): rec(t+nm,(df.b.tolist(),d.npartitions,se,g,e))
            for nm in ('sum','min','max','mean','count','idxmin','idxmax','nunique','any','all'):
                if nm in('idxmin','idxmax') and not df.index.is_unique: continue
                g=getattr(d.a,nm)().compute(); e=getattr(df.a,nm)()
                if not same(g,e): rec(t+'a'+nm,(df.a.to_dict(),d.npartitions,g,e))
            if len(d.compute())!=len(df) or len(d)!=len(df): rec('len',())
            g=d[['a','b']].sum().compute(); e=df[['a','b']].sum()
            if not same(g,e): rec(t+'dfsum',(df.to_dict(),))
            g=d.a.nlargest(3).compute(); e=df.a.nlargest(3)
            if sorted(g.tolist())!=sorted(e.tolist()): rec(t+'nlargest',(df.a.tolist(),d.npartitions,g.tolist(),e.tolist()))
        elif t=='groupby':
            so=rnd.choice([1,2,3]); sm=rnd.choice(['tasks','disk'])
            for agg in ('sum','count','mean','min','max','size','first','last','var','nunique'):
                kw={} if so==1 else {'split_out':so,'shuffle_method':sm}
                gb=d.groupby('c')
                try:
                    g=(gb.size(**kw) if agg=='size' else getattr(gb.a,agg)(**kw)).compute()
                except TypeError:
                    g=(gb.size() if agg=='size' else getattr(gb.a,agg)()).compute()
                e=df.groupby('c').size() if agg=='size' else getattr(df.groupby('c').a,agg)()
                if not same(g.sort_index(),e.sort_index()): rec(t+agg,(df.to_dict(),d.npartitions,so,sm,g.to_dict(),e.to_dict()))
            g=d.groupby('c').agg({'a':['sum','max'],'b':'mean'}).compute().sort_index(); e=df.groupby('c').agg({'a':['sum','max'],'b':'mean'}).sort_index()
            if not same(g,e): rec(t+'agg',(df.to_dict(),))
            g=d.groupby('c').a.cumsum().compute().sort_index(kind='stable'); e=df.groupby('c').a.cumsum().sort_index(kind='stable')
            if df.index.is_unique and not same(g,e): rec(t+'cumsum',(df.to_dict(),d.npartitions))
        elif t=='merge':
            df2=mkdf(); d2=mkdd(df2); how=rnd.choice(['inner','left','right','outer','leftsemi'])
            kw={'broadcast':rnd.choice([True,False,None])}
            if how=='leftsemi':
                e=df[df.a.isin(df2.a)]
            else: e=df.merge(df2,on='a',how=how)
            try: g=d.merge(d2,on='a',how=how,**kw).compute()
            except NotImplementedError: continue
            if not same(g,e,order=False): rec(t+how,(df.to_dict(),df2.to_dict(),d.npartitions,d2.npartitions,kw))
            if df.index.is_unique and df2.index.is_unique:
                how2=rnd.choice(['inner','left','right','outer'])
                g=d.join(d2,lsuffix='_l',rsuffix='_r',how=how2).compute(); e=df.join(df2,lsuffix='_l',rsuffix='_r',how=how2)
                if not same(g.sort_index(),e.sort_index()): rec(t+'join'+how2,(df.to_dict(),df2.to_dict(),d.divisions,d2.divisions))
        elif t=='sort':
            asc=rnd.choice([True,False]); nap=rnd.choice(['first','last'])
            g=d.sort_values('b',ascending=asc,na_position=nap).compute(); e=df.sort_values('b',ascending=asc,na_position=nap)
            if g.b.tolist()!=e.b.tolist() and not (np.array_equal(np.array(g.b),np.array(e.b),equal_nan=True)): rec(t,(df.b.tolist(),d.npartitions,asc,nap,g.b.tolist()))
            if not same(g,e,order=False): rec(t+'rows',(df.to_dict(),))
        elif t=='setindex':
            g=d.set_index('a'); 
            if not divs_ok(g): rec(t+'divs',(df.to_dict(),d.npartitions,g.divisions))
            if not same(g.compute(),df.set_index('a'),order=False): rec(t,(df.to_dict(),))
            if not g.compute().index.is_monotonic_increasing: rec(t+'mono',(df.to_dict(),))
        elif t=='repart':
            if d.known_divisions:
                n=rnd.randint(1,7); g=d.repartition(npartitions=n)
                if not same(g.compute(),df): rec(t,(df.to_dict(),d.npartitions,n))
                if g.npartitions!=n: rec(t+'n',(len(df),d.npartitions,d.divisions,n,g.npartitions))
                if not divs_ok(g): rec(t+'divs',(df.index.tolist(),d.divisions,n,g.divisions))
                lo,hi=df.index.min(),df.index.max()
                pts=sorted(set(rnd.randint(lo,hi) for _ in range(rnd.randint(0,4)))|{lo,hi})
                if len(pts)>=2:
                    g=d.repartition(divisions=pts)
                    if g.divisions!=tuple(pts) or not same(g.compute(),df) or not divs_ok(g): rec(t+'divisions',(df.index.tolist(),d.divisions,pts,g.divisions))
            else:
                n=rnd.randint(1,7); g=d.repartition(npartitions=n)
                if not same(g.compute(),d.compute()) or g.npartitions!=n: rec(t+'unk',(len(df),d.npartitions,n,g.npartitions))
        elif t=='cum':
            if not d.known_divisions: continue
            for nm in ('cumsum','cumprod','cummax','cummin'):
                g=getattr(d.b,nm)().compute(); e=getattr(df.b,nm)()
                if not same(g,e): rec(t+nm,(df.b.tolist(),d.npartitions,g.tolist(),e.tolist()))
        elif t=='roll':
            if not d.known_divisions: continue
            w=rnd.randint(1,4); mp=rnd.choice([None,1,w]); ce=rnd.choice([True,False])
            try: g=d.a.rolling(w,min_periods=mp,center=ce).sum().compute()
            except (ValueError,NotImplementedError) as ex: continue
            e=df.a.rolling(w,min_periods=mp,center=ce).sum()
            if not same(g,e): rec(t,(df.a.tolist(),[len(d.get_partition(i).compute()) for i in range(d.npartitions)],w,mp,ce,g.tolist(),e.tolist()))
        elif t=='shift':
            if not d.known_divisions: continue
            p=rnd.randint(-3,3)
            for nm,f in (('shift',lambda s:s.shift(p)),('diff',lambda s:s.diff(p)),('ffill',lambda s:s.ffill()),('bfill',lambda s:s.bfill()),('ffill1',lambda s:s.ffill(limit=1))):
                try: g=f(d.b).compute()
                except (ValueError,NotImplementedError): continue
                e=f(df.b)
                if not same(g,e): rec(t+nm,(df.b.tolist(),[len(d.get_partition(i).compute()) for i in range(d.npartitions)],p,g.tolist(),e.tolist()))
        elif t=='loc':
            if not d.known_divisions: continue
            lo=rnd.randint(-1,31); hi=rnd.randint(lo,32)
            g=d.loc[lo:hi]; e=df.loc[lo:hi]
            if not same(g.compute(),e) or not divs_ok(g): rec(t,(df.index.tolist(),d.divisions,lo,hi,g.divisions))
        elif t=='concat':
            df2=mkdf(); d2=mkdd(df2)
            g=dd.concat([d,d2]).compute(); e=pd.concat([df,df2])
            if not same(g,e,order=False): rec(t,(df.to_dict(),df2.to_dict()))
            g=dd.concat([d,d2],interleave_partitions=True)
            if not same(g.compute(),e,order=False) or not divs_ok(g): rec(t+'il',(df.index.tolist(),df2.index.tolist(),g.divisions))
        elif t=='dedup':
            so=rnd.choice([1,2,True])
            g=d[['a','c']].drop_duplicates(split_out=so).compute(); e=df[['a','c']].drop_duplicates()
            if not same(g,e,order=False): rec(t,(df.to_dict(),d.npartitions,so))
            if sorted(d.c.unique().compute())!=sorted(df.c.unique()): rec(t+'uniq',())
            if d.c.nunique().compute()!=df.c.nunique(): rec(t+'nuniq',())
        elif t=='vc':
            g=d.c.value_counts().compute().sort_index(); e=df.c.value_counts().sort_index()
            if not same(g,e): rec(t,(df.c.tolist(),))
            dsc=d[['a','b']].describe().compute(); e=df[['a','b']].describe()
            for r in ('count','mean','std','min','max'):
                if not np.allclose(dsc.loc[r],e.loc[r],equal_nan=True): rec(t+'describe',(df.to_dict(),r,dsc.loc[r].tolist(),e.loc[r].tolist()))
        elif t=='divs':
            if not divs_ok(d): rec(t,(df.index.tolist(),d.divisions,d.npartitions))
            g=d[d.a>1]
            if not divs_ok(g): rec(t+'f',())
    except Exception as ex:
        rec('exc_'+t,(repr(ex)[:200],traceback.format_exc().splitlines()[-3][:150]))
print({k:len(v) for k,v in bad.items()})
for k,v in bad.items():
    for i in v: print(k,str(i)[:600])
