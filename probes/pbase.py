import random, sys, dataclasses, collections, warnings
import numpy as np, dask, dask.array as da, dask.bag as db
from dask import delayed
from dask.graph_manipulation import clone, bind, wait_on, checkpoint
warnings.filterwarnings('ignore')
rnd=random.Random(int(sys.argv[1]) if len(sys.argv)>1 else 0)
bad={}
def rec(tag,info):
    bad.setdefault(tag,[])
    if len(bad[tag])<3: bad[tag].append(info)
@dataclasses.dataclass
class DC: a: object; b: object
NT=collections.namedtuple('NT','p q')
def coll():
    t=rnd.randrange(3)
    if t==0:
        v=rnd.randint(0,9); return delayed(lambda x:x+1)(v), v+1
    if t==1:
        x=np.arange(rnd.randint(1,5)); return da.from_array(x,chunks=2)+1, x+1
    s=[rnd.randint(0,3) for _ in range(rnd.randint(1,4))]; return db.from_sequence(s,npartitions=2).map(lambda v:v*2), [v*2 for v in s]
def tree(d=0):
    t=rnd.random()
    if d>3 or t<0.3:
        c,e=coll(); return c,e
    if t<0.4: v=rnd.choice([1,'s',None,2.5]); return v,v
    kids=[tree(d+1) for _ in range(rnd.randint(0,3))]
    cs=[k[0] for k in kids]; es=[k[1] for k in kids]
    k=rnd.randrange(6)
    if k==0: return cs,es
    if k==1: return tuple(cs),tuple(es)
    if k==2: return {i:c for i,c in enumerate(cs)},{i:e for i,e in enumerate(es)}
    if k==3 and len(cs)>=2: return DC(cs[0],cs[1]),DC(es[0],es[1])
    if k==4 and len(cs)>=2: return NT(cs[0],cs[1]),NT(es[0],es[1])
    if k==5: return collections.OrderedDict((str(i),c) for i,c in enumerate(cs)),collections.OrderedDict((str(i),e) for i,e in enumerate(es))
    return cs,es
def deq(a,b):
    if isinstance(b,np.ndarray): return isinstance(a,np.ndarray) and np.array_equal(a,b)
    if type(a)!=type(b): return False
    if isinstance(b,(list,tuple)) : return len(a)==len(b) and all(deq(x,y) for x,y in zip(a,b))
    if isinstance(b,dict): return list(a)==list(b) and all(deq(a[k],b[k]) for k in b)
    if dataclasses.is_dataclass(b): return deq(a.a,b.a) and deq(a.b,b.b)
    return a==b
for it in range(300):
    try:
        c,e=tree()
        for sch in ('sync','threads'):
            for og in (True,False):
                (r,)=dask.compute(c,scheduler=sch,optimize_graph=og)
                if not deq(r,e): rec('compute',(repr(c)[:200],repr(r)[:200],repr(e)[:200],sch,og))
        (p,)=dask.persist(c,scheduler='sync'); (r,)=dask.compute(p,scheduler='sync')
        if not deq(r,e): rec('persist',(repr(c)[:200],))
        (o,)=dask.optimize(c); (r,)=dask.compute(o,scheduler='sync')
        if not deq(r,e): rec('optimize',(repr(c)[:200],))
    except Exception as ex:
        import traceback; rec('exc',(repr(ex)[:150],traceback.format_exc().splitlines()[-3][:120]))
# delayed programs
for it in range(300):
    try:
        a=rnd.randint(0,5); b=rnd.randint(1,5); lst=[rnd.randint(0,9) for _ in range(4)]
        da_=delayed(a); f=delayed(lambda x,y:x*y+1,pure=True)
        prog=[ (lambda: (da_+b)*2-1, (a+b)*2-1),
               (lambda: delayed(lst)[1:3], lst[1:3]),
               (lambda: delayed(sum)([da_,b,delayed(lst)[0]]), a+b+lst[0]),
               (lambda: delayed(dict)({'k':da_,'l':[da_,{'m':da_}]}) , {'k':a,'l':[a,{'m':a}]}),
               (lambda: delayed(lambda s: s)(slice(da_,None)), slice(a,None)),
               (lambda: delayed(DC)(da_,[da_]) , DC(a,[a])),
               (lambda: delayed(lambda d: d)(DC(da_,b)), DC(a,b)),
               (lambda: delayed('abc').upper(), 'ABC'),
               (lambda: delayed(divmod,nout=2)(a+7,b)[1], divmod(a+7,b)[1]),
               (lambda: delayed(lambda s: sorted(s))({da_,b}), sorted({a,b})),
             ]
        p,e=rnd.choice(prog); r=p().compute(scheduler='sync')
        if not deq(r,e) and r!=e: rec('delayed',(r,e))
        k1=f(a,b).key; k2=f(a,b).key; k3=f(a,b+1).key; k4=f(b+1,a).key if a!=b+1 else None
        if k1!=k2 or k1==k3 or k1==k4: rec('purekeys',(a,b))
    except Exception as ex:
        import traceback; rec('dexc',(repr(ex)[:150],traceback.format_exc().splitlines()[-3][:120]))
# clone/bind
log=[]
def mark(tag,x): log.append(tag); return x
for it in range(100):
    try:
        x=np.arange(rnd.randint(2,7)); d=da.from_array(x,chunks=rnd.randint(1,3)).map_blocks(lambda b: mark('p',b),dtype=x.dtype)
        child=(da.from_array(x,chunks=2)+1).map_blocks(lambda b: mark('c',b),dtype=x.dtype)
        c2=clone(child); 
        if set(c2.__dask_keys__())&set(child.__dask_keys__()): rec('clone_keys',())
        if not np.array_equal(c2.compute(scheduler='sync'),x+1): rec('clone_val',())
        log.clear(); bnd=bind(child,d); r=bnd.compute(scheduler=rnd.choice(['sync','threads']))
        if not np.array_equal(r,x+1): rec('bind_val',())
        if 'c' in log and 'p' in log and max(i for i,t in enumerate(log) if t=='p')>min(i for i,t in enumerate(log) if t=='c'): rec('bind_order',(log[:],))
        log.clear(); w=wait_on(d); 
        if not np.array_equal(w.compute(scheduler='sync'),x): rec('wait_on',())
        if checkpoint(d,child).compute(scheduler='sync') is not None: rec('checkpoint',())
    except Exception as ex:
        import traceback; rec('gexc',(repr(ex)[:150],traceback.format_exc().splitlines()[-3][:120]))
print({k:len(v) for k,v in bad.items()})
for k,v in bad.items():
    for i in v: print(k,str(i)[:600])
