import pandas as pd, numpy as np, sys, warnings
sys.path.insert(0,''+__import__('os').path.join(__import__('os').path.dirname(__import__('os').path.abspath(__file__)),'stub')+'')
import dask
dask.config.set({'dataframe.convert-string': False, 'scheduler':'sync'})
import dask.dataframe as dd
warnings.filterwarnings('ignore')
df=pd.DataFrame({'a':range(13)},index=[0,0,1,1,1,1,2,2,4,5,5,5,5])
d=dd.from_pandas(df,npartitions=1); print('src',d.divisions,d.npartitions)
g=d.repartition(npartitions=7); print('rep7',g.npartitions,g.divisions,len(g.divisions)-1, [len(p) for p in g.partitions.compute() ] if False else '')
go=g.optimize(); print('opt', go.npartitions, go.divisions)
pass
df=pd.DataFrame({'a':range(8)},index=[0,2,5,12,18,24,25,28])
d=dd.from_pandas(df,npartitions=5); print(d.divisions)
g=d.loc[17:31]; print(g.divisions,g.npartitions); print(g.compute().index.tolist(), df.loc[17:31].index.tolist())
for i in range(g.npartitions): print(i,g.get_partition(i).compute().index.tolist())
# groupby size
df=pd.DataFrame({'a':[1,0],'c':['z','y']},index=[3,6]); d=dd.from_pandas(df,npartitions=1)
g=d.groupby('c').size(split_out=2).compute(); e=df.groupby('c').size(); print(repr(g),repr(e))
# repart assertion
df=pd.DataFrame({'a':range(6)},index=[3,1,2,5,4,0]); d=dd.from_pandas(df,npartitions=3,sort=False)
for n in range(1,6):
    try:
        g=d.repartition(npartitions=n); print(n,g.npartitions,len(g.compute()))
    except Exception as e: print(n,'EXC',repr(e))
