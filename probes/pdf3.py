import pandas as pd, numpy as np, sys, warnings
sys.path.insert(0,''+__import__('os').path.join(__import__('os').path.dirname(__import__('os').path.abspath(__file__)),'stub')+'')
import dask
dask.config.set({'dataframe.convert-string': False, 'scheduler':'sync'})
import dask.dataframe as dd
warnings.filterwarnings('ignore')
l=pd.DataFrame({'a':[2,4,3],'b':[2.0,1.5,3.25]},index=[0,1,4]); r=pd.DataFrame({'a':[4,0,2,1,4,3,4],'z':range(7)})
dl=dd.from_pandas(l,npartitions=2); dr=dd.from_pandas(r,npartitions=5)
for bc in (True,False,None):
    print(bc, dl.merge(dr,on='a',how='leftsemi',broadcast=bc).compute().to_dict('list'))
# first/last with split_out
df=pd.DataFrame({'a':[0,1,0,3,0,2],'c':list('zzyyxz')}); d=dd.from_pandas(df,npartitions=2)
for sm in ('tasks','disk'):
    for so in (1,2,3):
        print(sm,so,d.groupby('c').a.first(split_out=so,shuffle_method=sm).compute().to_dict(), d.groupby('c').a.last(split_out=so,shuffle_method=sm).compute().to_dict())
print(df.groupby('c').a.first().to_dict(), df.groupby('c').a.last().to_dict())
