import itertools, sys
from dask.core import toposort, getcycle, isdag
f=lambda *a:0
def has_cycle_from(adj, starts):
    # reachable cycle
    n=len(adj); color={}
    def dfs(u):
        color[u]=1
        for v in adj[u]:
            if color.get(v)==1: return True
            if v not in color and dfs(v): return True
        color[u]=2
        return False
    return any(dfs(s) for s in starts if s not in color)
bad=0;cnt=0
for n in range(1,4):
    pairs=[(i,j) for i in range(n) for j in range(n)]
    for mask in range(1<<len(pairs)):
        adj={i:[] for i in range(n)}
        for b,(i,j) in enumerate(pairs):
            if mask>>b&1: adj[i].append(j)
        dsk={f'k{i}':(f,)+tuple(f'k{j}' for j in adj[i]) for i in range(n)}
        for r in range(1,n+1):
          for starts in itertools.combinations(range(n),r):
            cnt+=1
            keys=[f'k{i}' for i in starts]
            cyc=getcycle(dsk,keys)
            exp=has_cycle_from(adj,list(starts))
            ok = (bool(cyc)==exp) and (isdag(dsk,keys)==(not exp))
            if cyc:
                ok = ok and cyc[0]==cyc[-1] and all(cyc[i+1] in dsk[cyc[i]][1:] for i in range(len(cyc)-1))
            if not ok:
                bad+=1
                if bad<5: print('BAD',dsk,keys,cyc,exp)
        if not has_cycle_from(adj,list(range(n))):
            t=toposort(dsk)
            pos={k:i for i,k in enumerate(t)}
            if sorted(t)!=sorted(dsk) or any(pos[f'k{j}']>pos[f'k{i}'] for i in adj for j in adj[i]):
                bad+=1; print('BADTOPO',dsk,t)
        else:
            try:
                toposort(dsk); bad+=1; print('NORAISE',dsk)
            except RuntimeError: pass
print(cnt,bad)
