import random, sys, itertools
from concurrent.futures import Future
from dask.local import get_async
from dask.core import get as core_get
rnd=random.Random(int(sys.argv[1]) if len(sys.argv)>1 else 0)
class Ctl:
    def __init__(self, chooser): self.pending=[]; self.chooser=chooser; self.log=[]
    def submit(self, fn, *a, **k):
        fut=Future(); self.pending.append((fut,fn,a,k)); return fut
class Sched:
    """drive get_async: since get_async blocks on queue.get, we complete one pending future whenever queue would block.
    Trick: patch queue_get to complete a pending future first."""
bad={}
def rec(tag,info):
    bad.setdefault(tag,[])
    if len(bad[tag])<3: bad[tag].append(info)
import dask.local as L
def run(dsk, keys, nw, cs, seed, fail=None):
    r=random.Random(seed)
    pending=[]
    runlog=[]   # (key, deps snapshot)
    def submit(fn,*a,**k):
        fut=Future(); pending.append((fut,fn,a,k)); return fut
    orig=L.queue_get
    def qget(q):
        if q.empty():
            assert pending, 'deadlock: nothing pending'
            i=r.randrange(len(pending)); fut,fn,a,k=pending.pop(i)
            try: fut.set_result(fn(*a,**k))
            except BaseException as e: fut.set_exception(e)
        return orig(q)
    L.queue_get=qget
    snaps=[]
    def pre(key,d,state):
        # deps must be cached
        for dep in state['dependencies'][key]:
            if dep not in state['cache']: rec('dep_not_cached',(dsk,keys,key,dep))
        runlog.append(key)
        if len(state['running'])>max(nw,1)*max(cs if cs>0 else 10**9,1): rec('too_many_running',(dsk,nw,cs,len(state['running'])))
    def post(key,res,d,state,wid):
        snaps.append((key,set(state['cache']),set(state['released'])))
    fin=[]
    def finish(d,state,failed): fin.append((failed,set(state.get('cache',{}))))
    try:
        res=get_async(submit,nw,dsk,keys,chunksize=cs,callbacks=[(None,None,pre,post,finish)])
        err=None
    except Exception as e:
        res=None; err=e
    finally:
        L.queue_get=orig
    return res,err,runlog,snaps,fin
def inc(x): return ('inc',x)
def add(*a): return ('add',)+a
class Boom(Exception): pass
def boom(*a): raise Boom('boom')
def gen(n):
    dsk={}
    for i in range(n):
        k=f'k{i}'; prev=[f'k{j}' for j in range(i)]
        t=rnd.random()
        if not prev or t<0.2: dsk[k]=rnd.choice([i,(inc,i),[i]])
        elif t<0.3: dsk[k]=rnd.choice(prev)
        else: dsk[k]=(add,)+tuple(rnd.choice(prev) if rnd.random()<0.8 else [rnd.choice(prev),1] for _ in range(rnd.randint(1,3)))
    return dsk
from dask.core import get_dependencies
def needed(dsk,keys):
    seen=set(); st=list(keys)
    while st:
        k=st.pop()
        if k in seen: continue
        seen.add(k); st.extend(get_dependencies(dsk,k))
    return seen
from dask.core import istask
for it in range(1500):
    n=rnd.randint(1,7); dsk=gen(n); keys=rnd.sample(list(dsk),rnd.randint(1,n))
    req=keys if rnd.random()<0.7 else [keys[:1],keys[1:]] if len(keys)>1 else keys[0]
    flat=keys
    ref=core_get(dsk,req)
    nw=rnd.randint(1,4); cs=rnd.choice([1,2,3,-1])
    res,err,runlog,snaps,fin=run(dsk,req,nw,cs,rnd.random())
    if err: rec('err',(dsk,req,nw,cs,repr(err))); continue
    if res!=ref: rec('value',(dsk,req,nw,cs,res,ref))
    nd=needed(dsk,flat)
    from dask._task_spec import convert_legacy_graph, DataNode, Alias
    g=convert_legacy_graph(dsk)
    tasks={k for k in nd if k in g and not isinstance(g[k],DataNode)}
    if sorted(runlog)!=sorted(tasks): rec('runset',(dsk,req,sorted(runlog),sorted(tasks)))
    if len(fin)!=1 or fin[0][0]: rec('finish',(fin,))
    elif fin[0][1]!=set(flat): rec('leak',(dsk,req,nw,cs,fin[0][1]))
    for key,cache,released in snaps:
        if released & set(flat): rec('released_result',(dsk,req,key))
    # failure injection
    if tasks:
        fk=rnd.choice(sorted(tasks)); d2=dict(dsk); 
        d2[fk]=(boom,)+tuple(get_dependencies(dsk,fk))
        res,err,runlog,snaps,fin=run(d2,req,nw,cs,rnd.random())
        if not isinstance(err,Boom): rec('fail_not_raised',(d2,req,repr(err),res))
        # dependents of fk never run
        dependents=set()
        ch=True
        while ch:
            ch=False
            for k in d2:
                if k not in dependents and (set(get_dependencies(d2,k)) & (dependents|{fk})): dependents.add(k); ch=True
        if set(runlog)&dependents: rec('dependent_ran',(d2,req,fk,runlog))
        if len(fin)!=1 or fin[0][0] is not True: rec('finish_fail',(fin,))
print({k:len(v) for k,v in bad.items()})
for k,v in bad.items():
    for i in v: print(k,str(i)[:500])
