# quick fuzz: slicing, setitem, reductions, cumsum vs numpy over all chunkings of small arrays
import numpy as np, dask, dask.array as da, itertools, random, sys, warnings
warnings.filterwarnings('ignore')
dask.config.set(scheduler='sync')
rnd = random.Random(int(sys.argv[1]) if len(sys.argv)>1 else 0)
def comps(n):
    if n==0: yield (0,); return
    for k in range(1<<(n-1)):
        c=[];cur=1
        for b in range(n-1):
            if k>>b&1: c.append(cur);cur=1
            else: cur+=1
        c.append(cur); yield tuple(c)
bad={}
def rec(tag, info):
    bad.setdefault(tag,[]); 
    if len(bad[tag])<3: bad[tag].append(info)
# 1-d slicing exhaustive n<=6
for n in range(1,7):
    x=np.arange(n)*10
    for ch in comps(n):
        d=da.from_array(x,chunks=(ch,))
        vals=[None]+list(range(-n-2,n+3))
        for st,sp,se in itertools.product(vals,vals,[None,1,2,3,-1,-2,-3,n,-n]):
            if rnd.random()>0.15: continue
            s=slice(st,sp,se)
            try:
                r=d[s]; got=r.compute(); exp=x[s]
                if got.shape!=exp.shape or (got!=exp).any() or r.shape!=exp.shape or sum(r.chunks[0])!=exp.shape[0]:
                    rec('slice',(n,ch,s,got.tolist(),exp.tolist(),r.chunks))
                else:
                    # per-block shapes
                    for i,c in enumerate(r.chunks[0]):
                        if r.blocks[i].compute().shape!=(c,): rec('sliceblk',(n,ch,s,r.chunks)); break
            except Exception as e:
                rec('sliceexc',(n,ch,s,repr(e)[:80]))
print('slice done',{k:len(v) for k,v in bad.items()})
# reductions / cumsum
for n in range(1,7):
    x=np.array([rnd.randint(-5,5) for _ in range(n)])
    for ch in comps(n):
        d=da.from_array(x,chunks=(ch,))
        for se in (2,3,None):
            for name in ('sum','prod','min','max','argmin','argmax','mean','var'):
                try:
                    got=getattr(d,name)(split_every=se).compute(); exp=getattr(x,name)()
                    if not np.allclose(got,exp): rec('red',(name,n,ch,se,got,exp,x.tolist()))
                except Exception as e: rec('redexc',(name,n,ch,se,repr(e)[:80]))
        for meth in ('sequential','blelloch'):
            try:
                got=da.cumsum(d,axis=0,method=meth).compute(); exp=np.cumsum(x)
                if (got!=exp).any(): rec('cumsum',(meth,n,ch,got.tolist(),exp.tolist()))
                got=da.cumprod(d,axis=0,method=meth).compute(); exp=np.cumprod(x)
                if (got!=exp).any(): rec('cumprod',(meth,n,ch,got.tolist(),exp.tolist()))
            except Exception as e: rec('cumexc',(meth,n,ch,repr(e)[:80]))
print('red done',{k:len(v) for k,v in bad.items()})
# 2d setitem random
for it in range(400):
    sh=(rnd.randint(1,5),rnd.randint(1,4))
    x=np.arange(sh[0]*sh[1]).reshape(sh)
    ch=tuple(rnd.choice(list(comps(s))) for s in sh)
    d=da.from_array(x.copy(),chunks=ch)
    def rs(n):
        t=rnd.random()
        if t<0.5:
            return slice(rnd.choice([None]+list(range(-n-1,n+2))),rnd.choice([None]+list(range(-n-1,n+2))),rnd.choice([None,1,2,-1,-2]))
        if t<0.7: return rnd.randrange(-n,n)
        if t<0.85: return [rnd.randrange(-n,n) for _ in range(rnd.randint(1,n))]
        return np.array([rnd.random()<0.5 for _ in range(n)])
    idx=(rs(sh[0]),rs(sh[1]))
    if sum(isinstance(i,(list,np.ndarray)) for i in idx)>1: continue
    y=x.copy()
    try:
        y[idx]=-1
    except Exception: continue
    try:
        d[idx]=-1; got=d.compute()
        if (got!=y).any() or d.chunks!=ch: rec('setitem',(sh,ch,idx,got.tolist(),y.tolist()))
    except Exception as e: rec('setexc',(sh,ch,idx,repr(e)[:100]))
print('setitem done',{k:len(v) for k,v in bad.items()})
for k,v in bad.items():
    for i in v: print(k,i)
