import random, sys, itertools, collections, warnings
import dask, dask.bag as db
from dask.bag import random as brandom
warnings.filterwarnings('ignore')
dask.config.set(scheduler='sync')
rnd=random.Random(int(sys.argv[1]) if len(sys.argv)>1 else 0)
bad={}
def rec(tag,info):
    bad.setdefault(tag,[])
    if len(bad[tag])<3: bad[tag].append(info)
def mk():
    n=rnd.randint(0,14); seq=[rnd.randint(0,5) for _ in range(n)]
    if n==0: seq=[1]
    if rnd.random()<0.5: b=db.from_sequence(seq,npartitions=rnd.randint(1,6))
    else: b=db.from_sequence(seq,partition_size=rnd.randint(1,5))
    if rnd.random()<0.4:  # create empty partitions
        b2=b.filter(lambda x: x%2==0); seq2=[x for x in seq if x%2==0]
        return seq2,b2
    return seq,b
ops=0
for it in range(600):
    seq,b=mk(); se=rnd.choice([None,2,3])
    t=rnd.choice([4,4,4,6,9,7])
    try:
        if t==0:
            if list(b.map(lambda x:x+1))!=[x+1 for x in seq]: rec('map',seq)
        elif t==1:
            for nm,f in (('sum',sum),('max',max),('min',min),('count',len)):
                if not seq and nm in('max','min'): continue
                if getattr(b,nm)(split_every=se).compute()!=f(seq): rec(nm,(seq,b.npartitions,se))
        elif t==2:
            if dict(b.frequencies(split_every=se).compute())!=dict(collections.Counter(seq)): rec('freq',(seq,))
            if sorted(b.distinct().compute())!=sorted(set(seq)): rec('distinct',(seq,))
        elif t==3:
            k=rnd.randint(1,4)
            if list(b.topk(k,split_every=se).compute())!=sorted(seq,reverse=True)[:k]: rec('topk',(seq,k,b.npartitions,list(b.topk(k,split_every=se).compute())))
        elif t==4:
            for meth in ('tasks','disk'):
                kw={'max_branch':rnd.choice([2,3,None])} if meth=='tasks' else {}
                npart=rnd.choice([None,1,2,5])
                g=dict(b.groupby(lambda x:x%3,shuffle=meth,npartitions=npart,**kw).compute())
                e=collections.defaultdict(list)
                for x in seq: e[x%3].append(x)
                if {k:sorted(v) for k,v in g.items()}!={k:sorted(v) for k,v in e.items()}: rec('groupby'+meth,(seq,b.npartitions,npart,kw,g))
        elif t==5:
            r=dict(b.foldby(lambda x:x%3, lambda a,x:a+x, 0, lambda a,c:a+c, 0, split_every=se).compute())
            e=collections.defaultdict(int)
            for x in seq: e[x%3]+=x
            if r!=dict(e): rec('foldby',(seq,r))
        elif t==6:
            r=b.fold(lambda a,x:a+x, initial=0, split_every=se).compute()
            if r!=sum(seq): rec('fold',(seq,r))
        elif t==7:
            r=list(b.accumulate(lambda a,x:a+x, initial=rnd.choice([0])))
            e=list(itertools.accumulate(seq,lambda a,x:a+x,initial=0))
            if r!=e: rec('accum',(seq,b.npartitions,r,e))
        elif t==8:
            k=rnd.randint(0,len(seq)+2)
            r=list(b.take(k,npartitions=-1,warn=False)); 
            if r!=seq[:k]: rec('take',(seq,k,r))
        elif t==9:
            n=rnd.randint(1,7); r=b.repartition(npartitions=n)
            if list(r)!=seq or r.npartitions!=n: rec('repart',(seq,b.npartitions,n,r.npartitions,list(r)))
        elif t==10:
            if seq:
                for nm in ('mean','var','std'):
                    import statistics
                    got=getattr(b,nm)().compute(); 
                    e={'mean':statistics.fmean(seq),'var':statistics.pvariance(seq),'std':statistics.pstdev(seq)}[nm]
                    if abs(got-e)>1e-9: rec(nm,(seq,got,e))
        elif t==11:
            seq2,b2=mk()
            r=sorted(b.product(b2).compute()); e=sorted(itertools.product(seq,seq2))
            if r!=e: rec('product',(seq,seq2))
            r=sorted(b.join(seq2,lambda x:x).compute()) if seq2 else []
            e=sorted((y,x) for x in seq for y in seq2 if x==y)
            if seq2 and r!=e: rec('join',(seq,seq2,r,e))
        elif t==12:
            k=rnd.randint(0,len(seq)+1)
            try:
                r=list(brandom.sample(b,k,split_every=se).compute())
                c1=collections.Counter(r); c2=collections.Counter(seq)
                if len(r)!=min(k,len(seq)) or any(c1[x]>c2[x] for x in c1): rec('sample',(seq,k,r))
            except Exception as e: rec('sampleexc',(seq,b.npartitions,k,repr(e)[:80]))
            try:
                r=list(brandom.choices(b,k,split_every=se).compute())
                if len(r)!=k or any(x not in seq for x in r): rec('choices',(seq,k,r))
            except Exception as e: rec('choicesexc',(seq,b.npartitions,k,repr(e)[:80]))
        elif t==13:
            r1=list(b.random_sample(0.5,random_state=42)); r2=list(b.random_sample(0.5,random_state=42).compute(scheduler='threads'))
            it_=iter(seq)
            if r1!=r2 or not all(x in it_ for x in r1): rec('random_sample',(seq,r1,r2))
        elif t==14:
            r=list(db.concat([b,b])); 
            if r!=seq+seq: rec('concat',(seq,))
            r=list(b.map(lambda x:[x,x]).flatten())
            if r!=[y for x in seq for y in (x,x)]: rec('flatten',(seq,))
        elif t==15:
            r=list(b.remove(lambda x:x>2)); 
            if r!=[x for x in seq if not x>2]: rec('remove',(seq,))
            r=b.reduction(sum,sum,split_every=se).compute()
            if r!=sum(seq): rec('reduction',(seq,))
        ops+=1
    except Exception as e:
        rec('exc%d'%t,(seq,b.npartitions,repr(e)[:150]))
print(ops,{k:len(v) for k,v in bad.items()})
for k,v in bad.items():
    for i in v: print(k,i)
