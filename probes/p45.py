import pandas as pd, sys, itertools
sys.path.insert(0,''+__import__('os').path.join(__import__('os').path.dirname(__import__('os').path.abspath(__file__)),'stub')+'')
import dask.dataframe as _dd
import numpy as np
from dask.dataframe.io.io import sorted_division_locations as sdl
bad=0;cnt=0;inexact=0
for L in range(1,9):
    for seq in itertools.combinations_with_replacement('ABCD',L):
        seq=list(seq); nu=len(set(seq))
        for mode in ('n','c'):
            for p in range(1,L+2):
                cnt+=1
                try:
                    d,l = sdl(pd.Index(seq), npartitions=p) if mode=='n' else sdl(pd.Index(seq), chunksize=p)
                except Exception as e:
                    bad+=1
                    if bad<8: print('EXC',seq,mode,p,repr(e))
                    continue
                ok = l[0]==0 and l[-1]==len(seq) and all(a<b for a,b in zip(l,l[1:])) 
                ok = ok and all(d[i]==seq[l[i]] for i in range(len(l)-1)) and d[-1]==seq[-1]
                ok = ok and all(seq[l[i]-1]!=seq[l[i]] for i in range(1,len(l)-1))
                if mode=='n' and nu>=p and len(l)-1!=p:
                    inexact+=1
                    if inexact<8: print('INEXACT',seq,p,d,l)
                if not ok:
                    bad+=1
                    if bad<8: print('BAD',seq,mode,p,d,l)
print(cnt,bad,inexact)
