#!/bin/bash
# MANIFEST.setup_cmd: regenerate extracted tables, build every proof module and every group driver. Offline.
# A module that fails to build here does not fail the setup: the check of the property it belongs to rebuilds it
# and reports the broken proof obligation itself (see DESIGN.md 2.4).
cd "$(dirname "$0")"
export PYTHONDONTWRITEBYTECODE=1
/venv/bin/python harness/extract.py /repo > /dev/null || true
cd lean
MODS=$(ls DaskModel/Props/*.lean 2>/dev/null | sed 's#/#.#g; s#\.lean$##')
EXES=$(grep -o 'name = "dm_[a-z]*"' lakefile.toml | sed 's/name = "//; s/"//')
lake build DaskModel $MODS $EXES 2>&1 | grep -v "WARNING" | grep -a "error\|Built dm_\|Build completed\|failures\|^- " | tail -40
for e in $EXES; do [ -x .lake/build/bin/$e ] || echo "setup: driver $e not built"; done
exit 0
