#!/bin/bash
# MANIFEST.setup_cmd: regenerate extracted tables, build every proof module and every group driver. Offline.
set -e
cd "$(dirname "$0")"
export PYTHONDONTWRITEBYTECODE=1
/venv/bin/python harness/extract.py /repo > /dev/null || true
cd lean
MODS=$(ls DaskModel/Props/*.lean 2>/dev/null | sed 's#/#.#g; s#\.lean$##')
EXES=$(grep -o 'name = "dm_[a-z]*"' lakefile.toml | sed 's/name = "//; s/"//')
lake build DaskModel $MODS $EXES 2>&1 | grep -v "WARNING" | tail -30
exit ${PIPESTATUS[0]}
