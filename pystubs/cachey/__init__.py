import sys
def nbytes(x): return sys.getsizeof(x)
class Cache:
    def __init__(self, available_bytes, limit=0, *a, **k):
        self.data={}
    def put(self, key, value, cost, nbytes=None): self.data[key]=value
    def get(self, key, default=None): return self.data.get(key, default)
    def clear(self): self.data.clear()
