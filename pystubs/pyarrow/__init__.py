# stub
import types, sys
__version__ = "99.0.0"
class _Any:
    def __init__(self,*a,**k): pass
    def __getattr__(self, n): return _Any()
    def __call__(self,*a,**k): return _Any()
def __getattr__(name):
    if name.startswith('__'): raise AttributeError(name)
    return type(name, (object,), {})
for sub in ['fs','compute','dataset','parquet','orc','lib']:
    m = types.ModuleType('pyarrow.'+sub)
    m.__getattr__ = lambda name: type(name,(object,),{})
    sys.modules['pyarrow.'+sub]=m
    globals()[sub]=m
